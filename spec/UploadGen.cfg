CONSTANTS MaxAttempts = 3
INIT GInit
NEXT GNext
