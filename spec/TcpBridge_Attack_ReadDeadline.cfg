\* once one loop of a bridge has ended the other loop's reads run into a deadline: the far peer is given a clean
\* end-of-stream in the middle of the data (NoLossOnClose fails once the source closes)
CONSTANTS N = 3 MaxSeg = 2 Marker = TRUE Timers = {"read-after-half-close"}
SPECIFICATION Spec
CHECK_DEADLOCK FALSE
INVARIANTS NoLossOnClose
