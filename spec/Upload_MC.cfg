\* retry logic, exhaustive: 3 tokens, buffer of 3, 3 attempts, up to 2 failing attempts
CONSTANTS M = 3 N = 3 MaxAttempts = 3 MaxFail = 2 StaleReader = FALSE LockStep = FALSE BufferAll = FALSE Timers = {}
SPECIFICATION Spec
CHECK_DEADLOCK FALSE
INVARIANTS AckedIntegrity AtMostThree
PROPERTIES RetryOnlyIfReplayable Done HandlerReleased ImplementsObs
