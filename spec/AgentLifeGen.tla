---------------------------- MODULE AgentLifeGen ----------------------------
(* Health-check histories (sequences of passing / failing checks) with the     *)
(* thresholds to run them against, and the retry counts for the back-off       *)
(* function, enumerated by TLC for the replay against the real agent binary.   *)
EXTENDS Integers, Sequences, SequencesExt, Json, IOUtils, TLC
Histories == UNION {[1..n -> {"P", "F"}] : n \in 1..5}
Cases == {[threshold |-> t, history |-> h] : t \in 1..3, h \in Histories}
RetryCounts == (0..70) \cup {-1}
VARIABLE x
GInit == x = 0
GNext == x' = x
ASSUME JsonSerialize(IOEnv.VERIF_OUT, [health |-> SetToSeq(Cases), retry |-> SetToSeq(RetryCounts)])
=============================================================================
