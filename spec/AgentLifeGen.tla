---------------------------- MODULE AgentLifeGen ----------------------------
(* Health-check histories (sequences of passing / failing checks) with the     *)
(* thresholds to run them against, and the retry counts for the back-off       *)
(* function, enumerated by TLC for the replay against the real agent binary.   *)
EXTENDS Integers, Sequences, SequencesExt, Json, IOUtils, TLC
Histories == UNION {[1..n -> {"P", "F"}] : n \in 1..5}
Cases == {[threshold |-> t, history |-> h] : t \in 1..3, h \in Histories}
\* thresholds beyond the small ones: the count of consecutive failures must reach them (a count that saturates, a history
\* window shorter than the threshold, an off-by-one at the comparison show only there)
Fails(n) == [i \in 1..n |-> "F"]
\* (the first check passes: the agent is healthy and polling before the failures begin)
BigCases == {[threshold |-> 6, history |-> <<"P">> \o Fails(7)], [threshold |-> 8, history |-> <<"P">> \o Fails(9)],
             [threshold |-> 6, history |-> <<"P">> \o Fails(5) \o <<"P">> \o Fails(7)], [threshold |-> 5, history |-> <<"P">> \o Fails(4) \o <<"P">> \o Fails(6)]}
RetryCounts == (0..70) \cup {-1}
\* list-call patterns for the poll loop (F = the list call fails, S = it succeeds with an empty list) and the ways
\* a list call can fail: any of them must make the agent wait before it asks again
ListPatterns == UNION {[1..n -> {"F", "S"}] : n \in 1..5}
FailKinds == {"500-body", "503-empty", "502-empty", "401-empty", "204-empty", "200-garbage", "200-truncated", "reset",
              "503-retry-after-0", "429-retry-after-past"}      \* (failures that come with a Retry-After header)
VARIABLE x
GInit == x = 0
GNext == x' = x
ASSUME JsonSerialize(IOEnv.VERIF_OUT, [health |-> SetToSeq(Cases), healthbig |-> SetToSeq(BigCases), retry |-> SetToSeq(RetryCounts), patterns |-> SetToSeq(ListPatterns), failkinds |-> SetToSeq(FailKinds)])
=============================================================================
