---------------------------- MODULE AgentLifeGen ----------------------------
(* Health-check histories (sequences of passing / failing checks) with the     *)
(* thresholds to run them against, and the retry counts for the back-off       *)
(* function, enumerated by TLC for the replay against the real agent binary.   *)
EXTENDS Integers, Sequences, SequencesExt, Json, IOUtils, TLC
Histories == UNION {[1..n -> {"P", "F"}] : n \in 1..5}
Cases == {[threshold |-> t, history |-> h] : t \in 1..3, h \in Histories}
RetryCounts == (0..70) \cup {-1}
\* list-call patterns for the poll loop (F = the list call fails, S = it succeeds with an empty list) and the ways
\* a list call can fail: any of them must make the agent wait before it asks again
ListPatterns == UNION {[1..n -> {"F", "S"}] : n \in 1..5}
FailKinds == {"500-body", "503-empty", "502-empty", "401-empty", "204-empty", "200-garbage", "200-truncated", "reset",
              "503-retry-after-0", "429-retry-after-past"}      \* (failures that come with a Retry-After header)
VARIABLE x
GInit == x = 0
GNext == x' = x
ASSUME JsonSerialize(IOEnv.VERIF_OUT, [health |-> SetToSeq(Cases), retry |-> SetToSeq(RetryCounts), patterns |-> SetToSeq(ListPatterns), failkinds |-> SetToSeq(FailKinds)])
=============================================================================
