\* outside the side condition: more distinct IDs than the window -> an evicted ID is forwarded again
CONSTANTS IdPool = {a, b, c} LruCap = 2 MaxBatch = 2 MaxLists = 3 NoDedup = FALSE ForgetOnFailure = FALSE
INIT Init
NEXT Next
CHECK_DEADLOCK FALSE
INVARIANTS AtMostOnce
