----------------------------- MODULE AppAuthGen -----------------------------
EXTENDS AppAuth, SequencesExt, Json, IOUtils
ASSUME JsonSerialize(IOEnv.VERIF_OUT, [histories |-> SetToSeq(Histories)])
=============================================================================
