INIT GInit
NEXT GNext
