----------------------------- MODULE AgentDedup -----------------------------
(***************************************************************************)
(* The agent's poll loop (agent/agent.go:203-230) against an ADVERSARIAL   *)
(* lister: the proxy may report any request ID as pending any number of    *)
(* times, in any order and grouping (the App Engine proxy re-lists every   *)
(* uncompleted request on every poll).  Workers fetch, forward to the      *)
(* backend and upload.  C04: a request is forwarded at most once, and      *)
(* exactly once when the proxy serves it without error.                    *)
(***************************************************************************)
EXTENDS AgentDedupBatches, FiniteSets, TLC

\* IdPool (request IDs the environment may list), MaxBatch (longest list reply) and MaxLists
\* (number of list replies) come from AgentDedupBatches
CONSTANTS LruCap,     \* requestCacheLimit
          NoDedup,    \* deviation switch: the LRU check is absent
          ForgetOnFailure  \* deviation switch: the first list reply after a failed list call starts with an empty LRU

VARIABLES lists,     \* number of list replies so far
          agent,     \* "idle" (about to list) | "proc"
          cur,       \* rest of the reply being iterated
          seen,      \* LRU, most recent first
          w,         \* [IdPool -> bag of worker states] as a sequence of states, one per spawned worker
          calls,     \* [IdPool -> Nat] backend invocations for this request
          served,    \* [IdPool -> Nat] completed uploads
          lost       \* a list call has failed since the last list reply (the loop is in its back-off branch)

vars == <<lists, agent, cur, seen, w, calls, served, lost>>

Init == /\ lists = 0 /\ agent = "idle" /\ cur = <<>> /\ seen = <<>>
        /\ w = [i \in IdPool |-> <<>>] /\ calls = [i \in IdPool |-> 0] /\ served = [i \in IdPool |-> 0]
        /\ lost = FALSE

InSeq(s, x) == \E k \in 1..Len(s) : s[k] = x
Without(s, x) == SelectSeq(s, LAMBDA y : y # x)
Trunc(s) == IF Len(s) > LruCap THEN SubSeq(s, 1, LruCap) ELSE s

EnvList(b) ==                 \* the proxy answers the agent's list call with batch b
  /\ agent = "idle" /\ lists < MaxLists
  /\ lists' = lists + 1
  /\ cur' = b /\ agent' = "proc"
  /\ lost' = FALSE
  /\ seen' = IF ForgetOnFailure /\ lost THEN <<>> ELSE seen     \* what the agent remembers survives failed list calls
  /\ UNCHANGED <<w, calls, served>>

\* the list call fails (5xx, connection lost, time-out): the loop backs off and calls again (agent.go:222-229);
\* the workers go on, what was seen stays seen
EnvListFail ==
  /\ agent = "idle" /\ lists < MaxLists
  /\ lists' = lists + 1
  /\ lost' = TRUE
  /\ UNCHANGED <<agent, cur, seen, w, calls, served>>

DedupStep ==                  \* one iteration of `for _, requestID := range requests`
  /\ agent = "proc" /\ cur # <<>>
  /\ LET i == Head(cur) IN
       IF InSeq(seen, i) /\ ~NoDedup
         THEN /\ seen' = <<i>> \o Without(seen, i) /\ UNCHANGED w
         ELSE /\ seen' = Trunc(<<i>> \o Without(seen, i))
              /\ w' = [w EXCEPT ![i] = Append(@, "fetch")]
  /\ cur' = Tail(cur)
  /\ agent' = IF Tail(cur) = <<>> THEN "idle" ELSE "proc"
  /\ UNCHANGED <<lists, calls, served, lost>>

\* worker k of request i advances: fetch -> forward (backend invoked) -> upload -> done
WStep(i, k) ==
  /\ k \in 1..Len(w[i])
  /\ \/ /\ w[i][k] = "fetch"   /\ w' = [w EXCEPT ![i][k] = "forward"] /\ UNCHANGED <<calls, served>>
     \/ /\ w[i][k] = "forward" /\ w' = [w EXCEPT ![i][k] = "upload"]
        /\ calls' = [calls EXCEPT ![i] = @ + 1] /\ UNCHANGED served
     \/ /\ w[i][k] = "upload"  /\ w' = [w EXCEPT ![i][k] = "done"]
        /\ served' = [served EXCEPT ![i] = @ + 1] /\ UNCHANGED calls
  /\ UNCHANGED <<lists, agent, cur, seen, lost>>

\* the upload of worker k of request i fails for good (the proxy hangs up on every attempt): the worker ends, the
\* request stays forwarded-once - being listed again later must not forward it again
WUploadFails(i, k) ==
  /\ k \in 1..Len(w[i]) /\ w[i][k] = "upload"
  /\ w' = [w EXCEPT ![i][k] = "failed"]
  /\ UNCHANGED <<lists, agent, cur, seen, calls, served, lost>>

Next == \/ \E b \in Batches : EnvList(b)
        \/ EnvListFail
        \/ DedupStep
        \/ \E i \in IdPool : \E k \in 1..Len(w[i]) : WStep(i, k) \/ WUploadFails(i, k)

Spec == Init /\ [][Next]_vars /\ WF_vars(DedupStep) /\ \A i \in IdPool : \A k \in 1..(MaxLists * MaxBatch) : WF_vars(WStep(i, k))

AtMostOnce == \A i \in IdPool : calls[i] <= 1
OneWorker == \A i \in IdPool : Len(w[i]) <= 1
\* exactly once: whatever was listed is eventually forwarded exactly once and served
Listed(i) == Len(w[i]) > 0
UploadFailed(i) == \E k \in 1..Len(w[i]) : w[i][k] = "failed"
\* exactly once when the proxy serves the request without error (an upload the proxy refuses for good is an error)
ExactlyOnce == \A i \in IdPool : [](Listed(i) => <>(calls[i] = 1 /\ (served[i] = 1 \/ UploadFailed(i))))
=============================================================================
