CONSTANTS N = 5 MaxSeg = 3 Marker = TRUE Timers = {}
SPECIFICATION Spec
CHECK_DEADLOCK FALSE
INVARIANTS Integrity NoLossOnClose CloseOnlyWhenDone
PROPERTIES ClosePropagates ImplementsObs Complete AllReleased
