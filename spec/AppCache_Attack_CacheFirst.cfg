\* the cache is consulted before the request is routed: a GET for a backend that has gone quiet is still answered
\* (from the cache) instead of 404
CONSTANTS Users = {"u1"} Urls = {"a"} MaxSteps = 3 CacheHead = FALSE CacheFirst = TRUE
SPECIFICATION SpecH
PROPERTIES OwnOrCachedGet
CHECK_DEADLOCK FALSE
