CONSTANTS IdPool = {"a", "b", "c"} MaxBatch = 3 MaxLists = 3
INIT GInit
NEXT GNext
