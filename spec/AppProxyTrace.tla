---------------------------- MODULE AppProxyTrace ----------------------------
(* Recorded cases of the real App Engine app (three services as processes,      *)
(* fake App Engine API) judged by the reference semantics of AppProxy.          *)
EXTENDS TraceCommon, FiniteSets
VARIABLES bks,      \* the registered backends (sequence of records, as announced by the harness)
          wr, errs, handler, l
A == INSTANCE AppProxy WITH ErrSlots <- 2
Is(e) == l <= TLen /\ Trace[l].ev = e
E == Trace[l]
Step == l' = l + 1 /\ Mark(l)
Keep == UNCHANGED <<wr, errs, handler>>

ToSet(s) == {s[k] : k \in DOMAIN s}
AsBackend(r) == [id |-> r.id, endUser |-> r.endUser, prefixes |-> ToSet(r.prefixes), live |-> r.live]
BackendSet(s) == {AsBackend(s[k]) : k \in DOMAIN s}
BackendUserOf(s, id) == IF \E k \in DOMAIN s : s[k].id = id THEN (CHOOSE k \in DOMAIN s : s[k].id = id) ELSE 0
UserFn(s, id) == IF BackendUserOf(s, id) = 0 THEN "" ELSE s[BackendUserOf(s, id)].backendUser

TInit == bks = <<>> /\ wr = [x \in {"response", "request"} |-> "todo"] /\ errs = 0 /\ handler = "waiting" /\ l = 1 /\ HWMInit
TReset == Is("Reset") /\ UNCHANGED bks /\ Keep
               /\ Step
TBackends == Is("Backends") /\ bks' = E.list /\ Keep
               /\ Step
\* C18 (and the routing half of C17): the backend a client request was stored under
TRoute == Is("RouteCase") /\ UNCHANGED bks /\ Keep
          /\ A!RouteOK(BackendSet(bks), E.user, E.path, E.got) /\ A!UserRoutingOK(BackendSet(bks), E.user, E.got)
          /\ (E.repeat = E.got)                              \* the choice depends only on backends, user and path
               /\ Step
\* C18 at function level: mostSpecificMatchingBackend on random backend sets
TRouteFn == Is("RouteFn") /\ UNCHANGED bks /\ Keep
          /\ A!RouteOK(BackendSet(E.backends), "u", E.path, E.got)
               /\ Step
\* C17: agent endpoints
TAgentCall == Is("AgentCall") /\ UNCHANGED bks /\ Keep
          /\ A!AgentCallOK(E.call, [id \in {E.call.backend} |-> UserFn(bks, E.call.backend)], E.obs)
               /\ Step
TAdminCall == Is("AdminCall") /\ UNCHANGED bks /\ Keep /\ A!AdminCallOK(E.is_admin, E.status)
               /\ Step
\* C19: blobs of any size read back byte-identical, split into the specified number of parts
TBlob == Is("BlobCase") /\ UNCHANGED bks /\ Keep /\ A!BlobOK(E.n, E.parts, E.same)
               /\ Step
\* C19: one client request relayed through the store: the agent fetches exactly the client's request, the
\* client receives exactly the response posted under its ID (or 504), a completed request is not listed again
TRelay == Is("RelayCase") /\ UNCHANGED bks /\ Keep
          /\ ~E.hung /\ E.fetch_same /\ E.client_status = E.expect_status /\ (E.expect_status = 200 => E.resp_same) /\ ~E.relisted
               /\ Step
\* C19: a response call with failing store writes is answered (never hangs), and not with a success
TFault == Is("FaultCase") /\ UNCHANGED bks /\ Keep
          /\ ~E.hung /\ (E.failed_writes > 0 => E.status # 200) /\ (E.failed_writes = 0 => E.status = 200)
               /\ Step
TNext == TReset \/ TBackends \/ TRoute \/ TRouteFn \/ TAgentCall \/ TAdminCall \/ TBlob \/ TRelay \/ TFault
TSpec == TInit /\ [][TNext]_<<bks, wr, errs, handler, l>>
=============================================================================
