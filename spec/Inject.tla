-------------------------------- MODULE Inject --------------------------------
(***************************************************************************)
(* Banner and websocket-shim script injection (agent/banner/banner.go,     *)
(* agent/websockets/shim.go ShimBody), C14: which responses may be altered *)
(* and how.  The decision model is written from the property statement     *)
(* over abstract request/response classes; recorded cases of the real      *)
(* handler chain are judged by InjectOK (InjectTrace).                     *)
(***************************************************************************)
EXTENDS Naturals, Sequences, FiniteSets, TLC

Dom == [
  method   |-> {"GET", "POST", "HEAD", "PUT"},
  accept   |-> {"html", "html-among-others", "json", "any", "none"},
  mode     |-> {"none", "navigate", "nested-navigate"},       \* Sec-Fetch-Mode
  dest     |-> {"none", "document", "iframe"},                \* Sec-Fetch-Dest
  referer  |-> {"none", "same", "other-path", "other-host"},
  status   |-> {200, 201, 206, 301, 404, 500},
  ctype    |-> {"html", "html-charset", "HTML-upper", "xhtml", "json", "plain", "none", "plain-mentions-html", "x-htmlish", "octet"},
  dispo    |-> {"none", "inline", "attachment"},
  body     |-> {"no-head", "head-at-0", "head-early", "head-late", "head-straddles", "two-heads", "HEAD-upper", "empty", "big-no-head"},
  first    |-> {"all", "tiny", "half"},                        \* segmentation of the backend body
  cenc     |-> {"none", "gzip"},                               \* Content-Encoding of the backend's body
  banner   |-> BOOLEAN,
  shim     |-> BOOLEAN,
  \* configuration of the handlers (--inject-banner / --banner-height / --favicon-url / --shim-path); the
  \* decision below does not depend on it, which is what "for all configurations" means here
  setup    |-> {"plain", "favicon", "rich"} ]

\* "HTML document": the media type proper is text/html or application/xhtml+xml (any letter case)
HtmlDoc(c) == c.ctype \in {"html", "html-charset", "HTML-upper", "xhtml"}
\* not HTML by any reading: the string "html" occurs nowhere in Content-Type
NotHtml(c) == c.ctype \in {"json", "plain", "none", "octet"}
\* in between (e.g. "text/plain; note=html"): the statement does not say; reported, not judged
Unjudged(c) == ~HtmlDoc(c) /\ ~NotHtml(c)
AcceptsHtml(c) == c.accept \in {"html", "html-among-others"}
AlreadyFramed(c) == c.mode = "nested-navigate" \/ c.dest = "iframe" \/ c.referer = "same"
\* the banner frame may replace the body only in this case
FrameAllowed(c) == /\ c.banner /\ c.method = "GET" /\ AcceptsHtml(c) /\ c.status = 200
                   /\ HtmlDoc(c) /\ c.dispo # "attachment" /\ ~AlreadyFramed(c)
\* the shim script may be spliced in only into HTML documents, only with the shim enabled
ScriptAllowed(c) == c.shim /\ HtmlDoc(c)

\* out.kind: "same" | "script" (original with the script inserted once, immediately after the first <head>,
\* nothing else changed) | "frame" (banner frame page) | "other"
\* out.hdrs_same: end-to-end headers unchanged; out.frame_ok: embeds the requested URL, uncacheable, same-origin-frameable,
\* and carries no Content-Encoding of the replaced body; out.repr_same: the headers that say how to read the body
\* (Content-Type, Content-Encoding) are the backend's - an "original body" under another coding is not the original
InjectOK(c, out) ==
  \/ Unjudged(c)
  \/ /\ out.kind \in {"same", "script", "frame"}
     /\ (NotHtml(c) => out.kind = "same" /\ out.hdrs_same)          \* everything that is not HTML is untouched
     /\ (out.kind = "same" => out.repr_same)
     /\ (out.kind = "script" => ScriptAllowed(c))
     /\ (out.kind = "frame" => FrameAllowed(c) /\ out.frame_ok)
     /\ (~c.banner /\ out.kind = "same" /\ ~c.shim => out.hdrs_same)  \* nothing enabled: nothing altered

\* The decision predicates partition every request/response field into strata; the case generator takes one
\* representative combination per element of the product of strata, so every branch combination of the decision
\* model is exercised (random sampling of the raw class product reaches "banner, GET, Accept html, 200, HTML,
\* not attachment" about twice in a thousand cases).
Strata == [
  method  |-> <<{"GET"}, Dom.method \ {"GET"}>>,
  accept  |-> <<{v \in Dom.accept : AcceptsHtml([accept |-> v])}, {v \in Dom.accept : ~AcceptsHtml([accept |-> v])}>>,
  status  |-> <<{200}, Dom.status \ {200}>>,
  ctype   |-> <<{v \in Dom.ctype : HtmlDoc([ctype |-> v])}, {v \in Dom.ctype : NotHtml([ctype |-> v])}, {v \in Dom.ctype : Unjudged([ctype |-> v])}>>,
  dispo   |-> <<{"attachment"}, Dom.dispo \ {"attachment"}>>,
  cenc    |-> <<{"none"}, {"gzip"}>> ]
\* how a request comes to be "already framed": not at all, or through exactly one of the three headers
FramedStrata == <<
  [mode |-> {v \in Dom.mode : ~AlreadyFramed([mode |-> v, dest |-> "none", referer |-> "none"])},
   dest |-> {v \in Dom.dest : ~AlreadyFramed([mode |-> "none", dest |-> v, referer |-> "none"])},
   referer |-> {v \in Dom.referer : ~AlreadyFramed([mode |-> "none", dest |-> "none", referer |-> v])}],
  [mode |-> {v \in Dom.mode : AlreadyFramed([mode |-> v, dest |-> "none", referer |-> "none"])}, dest |-> Dom.dest, referer |-> Dom.referer],
  [mode |-> Dom.mode, dest |-> {v \in Dom.dest : AlreadyFramed([mode |-> "none", dest |-> v, referer |-> "none"])}, referer |-> Dom.referer],
  [mode |-> Dom.mode, dest |-> Dom.dest, referer |-> {v \in Dom.referer : AlreadyFramed([mode |-> "none", dest |-> "none", referer |-> v])}] >>

\* sanity lemmas of the decision model over the whole class product
Cases == [method : Dom.method, accept : Dom.accept, mode : Dom.mode, dest : Dom.dest, referer : Dom.referer, status : Dom.status,
          ctype : Dom.ctype, dispo : Dom.dispo, banner : BOOLEAN, shim : BOOLEAN]
LemmaFrameIsHtml200Get == \A c \in Cases : FrameAllowed(c) => (HtmlDoc(c) /\ c.status = 200 /\ c.method = "GET")
LemmaNothingForNonHtml == \A c \in Cases : NotHtml(c) => (~FrameAllowed(c) /\ ~ScriptAllowed(c))
LemmaFramedNeverFramedAgain == \A c \in Cases : AlreadyFramed(c) => ~FrameAllowed(c)
VARIABLE x
Init == x = 0
Next == x' = x
Lemmas == LemmaFrameIsHtml200Get /\ LemmaNothingForNonHtml /\ LemmaFramedNeverFramedAgain
=============================================================================
