-------------------------------- MODULE Inject --------------------------------
(***************************************************************************)
(* Banner and websocket-shim script injection (agent/banner/banner.go,     *)
(* agent/websockets/shim.go ShimBody), C14: which responses may be altered *)
(* and how.  The decision model is written from the property statement     *)
(* over abstract request/response classes; recorded cases of the real      *)
(* handler chain are judged by InjectOK (InjectTrace).                     *)
(***************************************************************************)
EXTENDS Naturals, Sequences, FiniteSets, TLC

Dom == [
  method   |-> {"GET", "POST", "HEAD", "PUT"},
  accept   |-> {"html", "html-among-others", "json", "any", "none"},
  mode     |-> {"none", "navigate", "nested-navigate"},       \* Sec-Fetch-Mode
  dest     |-> {"none", "document", "iframe"},                \* Sec-Fetch-Dest
  referer  |-> {"none", "same", "other-path", "other-host"},
  status   |-> {200, 201, 206, 301, 404, 500},
  ctype    |-> {"html", "html-charset", "HTML-upper", "xhtml", "json", "plain", "none", "plain-mentions-html", "x-htmlish", "octet"},
  dispo    |-> {"none", "inline", "attachment"},
  body     |-> {"no-head", "head-at-0", "head-early", "head-late", "head-straddles", "two-heads", "HEAD-upper", "empty", "big-no-head"},
  first    |-> {"all", "tiny", "half"},                        \* segmentation of the backend body
  banner   |-> BOOLEAN,
  shim     |-> BOOLEAN ]

\* "HTML document": the media type proper is text/html or application/xhtml+xml (any letter case)
HtmlDoc(c) == c.ctype \in {"html", "html-charset", "HTML-upper", "xhtml"}
\* not HTML by any reading: the string "html" occurs nowhere in Content-Type
NotHtml(c) == c.ctype \in {"json", "plain", "none", "octet"}
\* in between (e.g. "text/plain; note=html"): the statement does not say; reported, not judged
Unjudged(c) == ~HtmlDoc(c) /\ ~NotHtml(c)
AcceptsHtml(c) == c.accept \in {"html", "html-among-others"}
AlreadyFramed(c) == c.mode = "nested-navigate" \/ c.dest = "iframe" \/ c.referer = "same"
\* the banner frame may replace the body only in this case
FrameAllowed(c) == /\ c.banner /\ c.method = "GET" /\ AcceptsHtml(c) /\ c.status = 200
                   /\ HtmlDoc(c) /\ c.dispo # "attachment" /\ ~AlreadyFramed(c)
\* the shim script may be spliced in only into HTML documents, only with the shim enabled
ScriptAllowed(c) == c.shim /\ HtmlDoc(c)

\* out.kind: "same" | "script" (original with the script inserted once, immediately after the first <head>,
\* nothing else changed) | "frame" (banner frame page) | "other"
\* out.hdrs_same: end-to-end headers unchanged; out.frame_ok: embeds the requested URL, uncacheable, same-origin-frameable
InjectOK(c, out) ==
  \/ Unjudged(c)
  \/ /\ out.kind \in {"same", "script", "frame"}
     /\ (NotHtml(c) => out.kind = "same" /\ out.hdrs_same)          \* everything that is not HTML is untouched
     /\ (out.kind = "script" => ScriptAllowed(c))
     /\ (out.kind = "frame" => FrameAllowed(c) /\ out.frame_ok)
     /\ (~c.banner /\ out.kind = "same" /\ ~c.shim => out.hdrs_same)  \* nothing enabled: nothing altered

\* sanity lemmas of the decision model over the whole class product
Cases == [method : Dom.method, accept : Dom.accept, mode : Dom.mode, dest : Dom.dest, referer : Dom.referer, status : Dom.status,
          ctype : Dom.ctype, dispo : Dom.dispo, banner : BOOLEAN, shim : BOOLEAN]
LemmaFrameIsHtml200Get == \A c \in Cases : FrameAllowed(c) => (HtmlDoc(c) /\ c.status = 200 /\ c.method = "GET")
LemmaNothingForNonHtml == \A c \in Cases : NotHtml(c) => (~FrameAllowed(c) /\ ~ScriptAllowed(c))
LemmaFramedNeverFramedAgain == \A c \in Cases : AlreadyFramed(c) => ~FrameAllowed(c)
VARIABLE x
Init == x = 0
Next == x' = x
Lemmas == LemmaFrameIsHtml200Get /\ LemmaNothingForNonHtml /\ LemmaFramedNeverFramedAgain
=============================================================================
