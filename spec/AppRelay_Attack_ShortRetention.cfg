CONSTANTS Req = {"r1", "r2"} Backend = {"b1", "b2"} SharedResponseKey = FALSE ShortRetention = TRUE ResponseStartTimeUnset = FALSE
CONSTANT BackendOf <- MCBackendOf
SPECIFICATION Spec
CHECK_DEADLOCK FALSE
PROPERTIES CronSparesWaiting
