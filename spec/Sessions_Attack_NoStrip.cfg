CONSTANTS Client = {c1, c2} Names = {"x", "y"} L = 2 MaxReq = 2 UnlockedLookup = FALSE StripSetCookie = FALSE StripSessionCookie = TRUE
SPECIFICATION Spec
CHECK_DEADLOCK FALSE
INVARIANTS NoLeak
