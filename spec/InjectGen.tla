------------------------------ MODULE InjectGen ------------------------------
EXTENDS Inject, SequencesExt, Json, IOUtils
ASSUME JsonSerialize(IOEnv.VERIF_OUT, [k \in DOMAIN Dom |-> SetToSeq(Dom[k])])
=============================================================================
