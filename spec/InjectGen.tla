------------------------------ MODULE InjectGen ------------------------------
EXTENDS Inject, SequencesExt, Json, IOUtils
SeqOfSets(q) == [k \in DOMAIN q |-> SetToSeq(q[k])]
ASSUME JsonSerialize(IOEnv.VERIF_OUT,
  [dom |-> [k \in DOMAIN Dom |-> SetToSeq(Dom[k])],
   strata |-> [k \in DOMAIN Strata |-> SeqOfSets(Strata[k])],
   framed |-> [i \in DOMAIN FramedStrata |-> [k \in DOMAIN FramedStrata[i] |-> SetToSeq(FramedStrata[i][k])]]])
=============================================================================
