------------------------------- MODULE AppAuth -------------------------------
(***************************************************************************)
(* C17, the "in any order" half: registrations of a backend change over    *)
(* time (the administration API adds, re-registers and deletes backends),  *)
(* and an agent call must be judged against the registration that is in    *)
(* force when the call is made - whatever was true earlier.  One backend   *)
(* ID, two agent identities.  StaleGrants is the deviation "a positive     *)
(* authorisation is remembered (cached) and not invalidated by the         *)
(* administration API".  The histories enumerated from this module are     *)
(* replayed on the real app; every call is judged by AppProxy!AgentCallOK  *)
(* against the registration in force (AppProxyTrace).                      *)
(***************************************************************************)
EXTENDS Naturals, Sequences, FiniteSets, TLC
CONSTANTS StaleGrants, HistLen
Agents == {"u1", "u2"}
VARIABLES hreg,     \* identity registered as the backend user ("" = backend not registered)
          hcache,   \* identities whose authorisation has been remembered
          hlast,    \* <<caller, granted>> of the most recent agent call
          hn        \* number of steps taken (bounds the model)
hvars == <<hreg, hcache, hlast, hn>>
HInit == hreg = "" /\ hcache = {} /\ hlast = <<"", FALSE>> /\ hn = 0
HRegister(u) == hn < HistLen /\ hreg' = u /\ hn' = hn + 1 /\ hlast' = <<"", FALSE>> /\ UNCHANGED hcache
HDelete == hn < HistLen /\ hreg' = "" /\ hn' = hn + 1 /\ hlast' = <<"", FALSE>> /\ UNCHANGED hcache
HCall(u) == /\ hn < HistLen /\ hn' = hn + 1
            /\ LET granted == (hreg = u) \/ (StaleGrants /\ u \in hcache) IN
                 /\ hlast' = <<u, granted>>
                 /\ hcache' = IF granted THEN hcache \cup {u} ELSE hcache
            /\ UNCHANGED hreg
HNext == HDelete \/ \E u \in Agents : HRegister(u) \/ HCall(u)
HSpec == HInit /\ [][HNext]_hvars
\* an agent call succeeds only if the caller is the backend user registered NOW
GrantedOnlyToRegistered == hlast[2] => hlast[1] = hreg

\* the histories replayed on the real app: every sequence of operations up to HistLen that ends with a call
\* and contains at least one administration step
HOps == {"reg1", "reg2", "del", "call1", "call2"}
Histories == {h \in UNION {[1..k -> HOps] : k \in 2..HistLen} :
                 /\ h[Len(h)] \in {"call1", "call2"}
                 /\ \E i \in 1..Len(h) : h[i] \in {"reg1", "reg2", "del"}}
=============================================================================
