INIT GInit
NEXT GNext
