\* attack: faults may hit requests that are not declared victims -> Isolation must break
\* (non-vacuity of Isolation / BadGateway: with Victims = all requests but hit-tracking intact the
\*  invariants hold; here IDs may collide so a healthy request can receive a victim's 502)
CONSTANTS
  Req = {r1, r2}
  IdPool = {i1, i2}
  Poller = {p1}
  AgentPoller = {p1}
  LruCap = 2
  MaxFaults = 1
  Victims = {r1}
  UniqueIds = FALSE
  CleanCut = FALSE
INIT Init
NEXT Next
CHECK_DEADLOCK FALSE
INVARIANTS Isolation
