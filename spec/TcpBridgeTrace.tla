--------------------------- MODULE TcpBridgeTrace ---------------------------
(* Recorded runs of the real tcp-bridge-frontend and tcp-bridge-backend        *)
(* binaries with harness TCP peers at both ends, judged by the stream rules    *)
(* of TcpBridge (byte counts instead of tokens; content checked per read).     *)
EXTENDS TraceCommon, FiniteSets, Integers

VARIABLES sent, rcvd, closed, eof,
          first,   \* [c -> direction whose source peer closed first, "" if nobody closed yet]
          abort,   \* [c -> the first close was abortive (reset): TCP itself does not promise delivery then]
          l
Conns == FieldSet("Open", "c")
Dirs == {"up", "down"}
Other(d) == IF d = "up" THEN "down" ELSE "up"
Is(e) == l <= TLen /\ Trace[l].ev = e
E == Trace[l]
Step == l' = l + 1 /\ Mark(l)
bv == <<sent, rcvd, closed, eof, first, abort>>
NoAbort == [c \in Conns |-> FALSE]
None == [c \in Conns |-> ""]
Zero == [c \in Conns |-> [d \in Dirs |-> 0]]
No == [c \in Conns |-> [d \in Dirs |-> FALSE]]

TInit == sent = Zero /\ rcvd = Zero /\ closed = No /\ eof = No /\ first = None /\ abort = NoAbort /\ l = 1 /\ HWMInit
TReset == Is("Reset") /\ sent' = Zero /\ rcvd' = Zero /\ closed' = No /\ eof' = No /\ first' = None /\ abort' = NoAbort
               /\ Step
TOpen == Is("Open") /\ UNCHANGED bv
               /\ Step
\* the source peer of direction d is about to write n bytes
TWr == Is("Wr") /\ ~closed[E.c][E.d] /\ sent' = [sent EXCEPT ![E.c][E.d] = @ + E.n] /\ UNCHANGED <<rcvd, closed, eof, first, abort>>
               /\ Step
\* the far peer read n bytes: the next n bytes of the stream, unmodified, never more than was written
TRd == Is("Rd") /\ E.ok /\ rcvd[E.c][E.d] + E.n <= sent[E.c][E.d]
       /\ rcvd' = [rcvd EXCEPT ![E.c][E.d] = @ + E.n] /\ UNCHANGED <<sent, closed, eof, first, abort>>
               /\ Step
TPeerClose == Is("PeerClose") /\ closed' = [closed EXCEPT ![E.c][E.d] = TRUE]
              /\ first' = [first EXCEPT ![E.c] = IF @ = "" THEN E.d ELSE @]
              /\ abort' = [abort EXCEPT ![E.c] = IF first[E.c] = "" THEN E.abortive ELSE @] /\ UNCHANGED <<sent, rcvd, eof>>
               /\ Step
\* the far peer of direction d observed end-of-stream: only after somebody closed, and if the source
\* of this direction was the (first) peer to close, only after everything it had sent was received.
\* (Data still travelling TOWARDS a peer that has closed is not covered by the property.)
TPeerEOF == Is("PeerEOF") /\ (closed[E.c][E.d] \/ closed[E.c][Other(E.d)])
            /\ ((first[E.c] = E.d /\ ~abort[E.c]) => rcvd[E.c][E.d] = sent[E.c][E.d]) /\ E.total = rcvd[E.c][E.d]
            /\ eof' = [eof EXCEPT ![E.c][E.d] = TRUE] /\ UNCHANGED <<sent, rcvd, closed, first, abort>>
               /\ Step
\* a plain HTTP request sent to the bridge backend reached the backend port unchanged and its answer came back
THttp == Is("Http") /\ E.ok /\ UNCHANGED bv
               /\ Step
\* end of the scenario: every close was propagated, every stream is complete where nobody closed,
\* and the bridge holds no connection to the TCP server any more once all clients are gone
TFinal == Is("Final") /\ UNCHANGED bv
          /\ (E.judge_close => \A c \in Conns : \A d \in Dirs : first[c] = d => eof[c][d])
          /\ (\A c \in Conns : \A d \in Dirs : ((first[c] = "" \/ first[c] = d) /\ ~abort[c]) => rcvd[c][d] = sent[c][d])
          /\ (E.judge_close => E.server_open = 0)
               /\ Step
TNext == TReset \/ TOpen \/ TWr \/ TRd \/ TPeerClose \/ TPeerEOF \/ THttp \/ TFinal
TSpec == TInit /\ [][TNext]_<<bv, l>>
=============================================================================
