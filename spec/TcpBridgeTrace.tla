--------------------------- MODULE TcpBridgeTrace ---------------------------
(* Recorded runs of the real tcp-bridge-frontend and tcp-bridge-backend        *)
(* binaries with harness TCP peers at both ends, judged by TcpBridgeObs - the  *)
(* observable behaviour that the bridge model TcpBridge is checked to refine   *)
(* (byte counts; the content of every read is checked by the observer).        *)
EXTENDS TraceCommon, FiniteSets, Integers

VARIABLES sent, rcvd, closed, eof,
          first,   \* [c -> direction whose source peer closed first, "" if nobody closed yet]
          abort,   \* [c -> the first close was abortive (reset): TCP itself does not promise delivery then]
          l
Conns == FieldSet("Open", "c")
O == INSTANCE TcpBridgeObs WITH Conn <- Conns, osent <- sent, orcvd <- rcvd, oclosed <- closed,
                                 oeof <- eof, ofirst <- first, oabort <- abort
Is(e) == l <= TLen /\ Trace[l].ev = e
E == Trace[l]
Step == l' = l + 1 /\ Mark(l)
bv == <<sent, rcvd, closed, eof, first, abort>>

TInit == O!OInit /\ l = 1 /\ HWMInit
TReset == Is("Reset") /\ sent' = [c \in Conns |-> [d \in O!Dirs |-> 0]] /\ rcvd' = sent'
               /\ closed' = [c \in Conns |-> [d \in O!Dirs |-> FALSE]] /\ eof' = closed'
               /\ first' = [c \in Conns |-> ""] /\ abort' = [c \in Conns |-> FALSE]
               /\ Step
TOpen == Is("Open") /\ UNCHANGED bv
               /\ Step
\* the source peer of direction d is about to write n bytes
TWr == Is("Wr") /\ O!OWr(E.c, E.d, E.n)
               /\ Step
\* the far peer read n bytes: the next n bytes of the stream, unmodified (E.ok), never more than was written
TRd == Is("Rd") /\ E.ok /\ O!ORd(E.c, E.d, E.n)
               /\ Step
TPeerClose == Is("PeerClose") /\ O!OClose(E.c, E.d, E.abortive)
               /\ Step
\* the far peer of direction d observed end-of-stream, having read E.total bytes
TPeerEOF == Is("PeerEOF") /\ E.total = rcvd[E.c][E.d] /\ O!OEof(E.c, E.d)
               /\ Step
\* a plain HTTP request sent to the bridge backend reached the backend port unchanged and its answer came back
THttp == Is("Http") /\ E.ok /\ UNCHANGED bv
               /\ Step
\* end of the scenario: every close was propagated, every stream is complete where nobody closed,
\* and the bridge holds no connection to the TCP server any more once all clients are gone
TFinal == Is("Final") /\ UNCHANGED bv /\ O!Settled(E.judge_close, E.server_open, E.bridge_fds_leaked)
               /\ Step
TNext == TReset \/ TOpen \/ TWr \/ TRd \/ TPeerClose \/ TPeerEOF \/ THttp \/ TFinal
TSpec == TInit /\ [][TNext]_<<bv, l>>
=============================================================================
