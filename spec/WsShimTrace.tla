----------------------------- MODULE WsShimTrace -----------------------------
(* Recorded runs of the real websocket shim (websockets.Proxy in process, real  *)
(* gorilla websocket backend, harness playing the browser shim) judged against   *)
(* WsShimObs - the observable behaviour that the goroutine-level model WsShim is *)
(* checked to refine: C11 delivery, C12 call answers / lifecycle - plus the      *)
(* rules on call arguments and on the dial target (C13).                         *)
EXTENDS TraceCommon, FiniteSets, Integers

VARIABLES sess, closing, announced, brecv, bsent, crecv, bclosed, sawClose, polls, ans, l
Sids == FieldSet("WsOpened", "sid")
O == INSTANCE WsShimObs WITH Sess <- Sids, osess <- sess, oclosing <- closing, oann <- announced, obrecv <- brecv,
                              obsent <- bsent, ocrecv <- crecv, obclosed <- bclosed, osaw <- sawClose, opolls <- polls, oans <- ans
svars == <<sess, closing, announced, brecv, bsent, crecv, bclosed, sawClose, polls, ans>>
Is(e) == l <= TLen /\ Trace[l].ev = e
E == Trace[l]
Step == l' = l + 1 /\ Mark(l)
Same == UNCHANGED svars

TInit == O!OInitWith("none") /\ l = 1 /\ HWMInit
TReset == Is("Reset") /\ sess' = [s \in Sids |-> "none"] /\ closing' = [s \in Sids |-> FALSE]
          /\ announced' = [s \in Sids |-> 0] /\ brecv' = announced' /\ bsent' = announced' /\ crecv' = announced'
          /\ bclosed' = closing' /\ sawClose' = closing' /\ polls' = announced' /\ ans' = <<"none", 0>>
               /\ Step

Live(s) == s \in Sids /\ sess[s] = "open"

\* open call answered 200: a new session exists
TOpened == Is("WsOpened") /\ O!OOpened(E.sid)
               /\ Step
\* open call that did not produce a session (malformed URL / dial refused)
TOpenFailed == Is("WsOpenFailed") /\ Same /\ O!OkStatus(E.status) /\ E.status # 200
               /\ Step
\* the harness is about to post client messages number from..to (one data post outstanding at a time)
TDataBegin == Is("DataBegin") /\ Live(E.sid) /\ O!ODataBegin(E.sid, E.from, E.to)
               /\ Step
TPollBegin == Is("PollBegin") /\ E.sid \in Sids /\ O!OPollBegin(E.sid)
               /\ Step
TCloseBegin == Is("CloseBegin") /\ E.sid \in Sids /\ O!OCloseBegin(E.sid)
               /\ Step
\* C11: the backend receives the client's messages once each, in order, unchanged
TBackendRecv == Is("BackendRecv") /\ E.sid \in Sids /\ E.same /\ O!OBackendRecv(E.sid, E.n)
               /\ Step
TBackendSend == Is("BackendSend") /\ E.sid \in Sids /\ O!OBackendSend(E.sid, E.n)
               /\ Step
TBackendClose == Is("BackendClose") /\ E.sid \in Sids /\ O!OBackendClose(E.sid)
               /\ Step
TBackendSawClose == Is("BackendSawClose") /\ E.sid \in Sids /\ O!OBackendSawClose(E.sid)
               /\ Step
\* C12: every call is answered with 200/400/408/500.  Calls on a session the harness opened are judged by
\* WsShimObs (poll: the next messages in order, unchanged; end of session only after a close or after
\* everything the backend had sent was delivered); unknown, closed and malformed arguments are rejected with 400
TCallOnSession == Is("Call") /\ E.arg \in {"valid", "valid-refused"} /\ E.sid \in Sids
         /\ (E.kind = "data" /\ E.status = 200 => Live(E.sid))
         /\ (E.kind = "poll" /\ E.status = 200 => E.same /\ E.first = crecv[E.sid] + 1)     \* (one poller: the next ones, in order)
         /\ (E.kind = "poll" /\ E.status = 400 => (bclosed[E.sid] \/ sess[E.sid] = "closed") /\ crecv[E.sid] = bsent[E.sid])  \* (sequential caller)
         /\ (IF E.kind = "poll" /\ E.status = 200 THEN O!OAnswer(E.sid, "poll", 200, E.count)
                                                   ELSE O!OAnswer(E.sid, E.kind, E.status, 0))
               /\ Step
\* a data call carrying a message of an unsupported JSON shape: answered, whatever the status; nothing of it may
\* reach the backend (any BackendRecv must be the next numbered message) and the session stays usable
TCallShaped == Is("Call") /\ E.arg = "shaped" /\ O!OkStatus(E.status) /\ Same
               /\ Step
TCallRejected == Is("Call") /\ E.arg \in {"unknown", "closed", "malformed"} /\ E.status = 400 /\ Same
               /\ Step
\* end of a scenario: nothing panicked, everything accepted was delivered, closed sessions reached the backend
TFinal == Is("Final") /\ Same /\ ~E.panicked /\ O!Settled
               /\ Step
\* C13: the shim only ever dials the configured backend; the supplied URL contributes path and query only
TDial == Is("OpenCase") /\ Same /\ O!OkStatus(E.status)
         /\ (\A k \in DOMAIN E.dialed : E.dialed[k] = E.backend)
         /\ (E.status = 200 /\ E.class # "outside-prefix" => (E.saw_path = E.want_path /\ E.saw_query = E.want_query /\ Len(E.dialed) >= 1))
         \* the Host of the handshake is the backend's own name or (--rewrite-websocket-host) the Host of the client's request,
         \* never an authority named in the supplied URL
         /\ E.saw_host \in {"", E.backend, E.req_host, "127.0.0.1"}
         \* requests outside the shim prefix reach the wrapped handler untouched (the harness reports 200 iff they did)
         /\ (E.class = "outside-prefix" => (E.status = 200 /\ E.dialed = <<>>))
               /\ Step
TOther == (Is("WsStore") \/ Is("WsDelete") \/ Is("BackendRecvEmpty")) /\ Same
               /\ Step
TNext == TReset \/ TOpened \/ TOpenFailed \/ TDataBegin \/ TPollBegin \/ TCloseBegin \/ TBackendRecv \/ TBackendSend \/ TBackendClose
         \/ TBackendSawClose \/ TCallOnSession \/ TCallShaped \/ TCallRejected \/ TFinal \/ TDial \/ TOther
TSpec == TInit /\ [][TNext]_<<svars, l>>
=============================================================================
