----------------------------- MODULE WsShimTrace -----------------------------
(* Recorded runs of the real websocket shim (websockets.Proxy in process, real  *)
(* gorilla websocket backend, harness playing the browser shim) judged against   *)
(* the observable rules of WsShim: C11 delivery, C12 call answers / lifecycle,   *)
(* C13 dial confinement.                                                         *)
EXTENDS TraceCommon, FiniteSets, Integers

VARIABLES sess,        \* [sid -> "open" | "closed"] sessions known to the harness (missing = never opened)
          announced,   \* [sid -> number of client messages handed to data calls so far]
          brecv,       \* [sid -> number of client messages the backend has received (in order)]
          bsent,       \* [sid -> number of messages the backend has sent]
          crecv,       \* [sid -> number of backend messages the client has received through polls]
          bclosed,     \* [sid -> the backend closed the websocket first]
          sawClose,    \* [sid -> the backend observed the close of the websocket]
          l
Sids == FieldSet("WsOpened", "sid")
svars == <<sess, announced, brecv, bsent, crecv, bclosed, sawClose>>
Is(e) == l <= TLen /\ Trace[l].ev = e
E == Trace[l]
Step == l' = l + 1 /\ Mark(l)
Same == UNCHANGED svars

TInit == /\ sess = [s \in Sids |-> "none"] /\ announced = [s \in Sids |-> 0] /\ brecv = [s \in Sids |-> 0]
         /\ bsent = [s \in Sids |-> 0] /\ crecv = [s \in Sids |-> 0] /\ bclosed = [s \in Sids |-> FALSE]
         /\ sawClose = [s \in Sids |-> FALSE] /\ l = 1 /\ HWMInit
TReset == Is("Reset") /\ sess' = [s \in Sids |-> "none"] /\ announced' = [s \in Sids |-> 0] /\ brecv' = [s \in Sids |-> 0]
          /\ bsent' = [s \in Sids |-> 0] /\ crecv' = [s \in Sids |-> 0] /\ bclosed' = [s \in Sids |-> FALSE]
          /\ sawClose' = [s \in Sids |-> FALSE]
               /\ Step

OkStatus(st) == st \in {200, 400, 408, 500}
Live(s) == s \in Sids /\ sess[s] = "open"

\* open call answered 200: a new session exists
TOpened == Is("WsOpened") /\ sess[E.sid] = "none" /\ sess' = [sess EXCEPT ![E.sid] = "open"]
           /\ UNCHANGED <<announced, brecv, bsent, crecv, bclosed, sawClose>>
               /\ Step
\* open call that did not produce a session (malformed URL / dial refused)
TOpenFailed == Is("WsOpenFailed") /\ Same /\ OkStatus(E.status) /\ E.status # 200
               /\ Step
\* the harness is about to post client messages number from..to (one data post outstanding at a time)
TDataBegin == Is("DataBegin") /\ Live(E.sid) /\ E.from = announced[E.sid] + 1 /\ E.to >= E.from
              /\ announced' = [announced EXCEPT ![E.sid] = E.to]
              /\ UNCHANGED <<sess, brecv, bsent, crecv, bclosed, sawClose>>
               /\ Step
\* C11: the backend receives the client's messages once each, in order, unchanged
TBackendRecv == Is("BackendRecv") /\ E.sid \in Sids /\ E.n = brecv[E.sid] + 1 /\ E.n <= announced[E.sid] /\ E.same
              /\ brecv' = [brecv EXCEPT ![E.sid] = E.n]
              /\ UNCHANGED <<sess, announced, bsent, crecv, bclosed, sawClose>>
               /\ Step
TBackendSend == Is("BackendSend") /\ E.sid \in Sids /\ E.n = bsent[E.sid] + 1
              /\ bsent' = [bsent EXCEPT ![E.sid] = E.n]
              /\ UNCHANGED <<sess, announced, brecv, crecv, bclosed, sawClose>>
               /\ Step
TBackendClose == Is("BackendClose") /\ E.sid \in Sids /\ bclosed' = [bclosed EXCEPT ![E.sid] = TRUE]
              /\ UNCHANGED <<sess, announced, brecv, bsent, crecv, sawClose>>
               /\ Step
TBackendSawClose == Is("BackendSawClose") /\ E.sid \in Sids /\ sawClose' = [sawClose EXCEPT ![E.sid] = TRUE]
              /\ UNCHANGED <<sess, announced, brecv, bsent, crecv, bclosed>>
               /\ Step
\* C12: every call is answered with 200/400/408/500; unknown, closed and malformed arguments are rejected with 400
TCall == Is("Call") /\ OkStatus(E.status)
         /\ (E.arg \in {"unknown", "closed", "malformed"} => E.status = 400)
         /\ (E.arg = "valid" /\ E.kind = "data" /\ E.status = 200 => Live(E.sid))
         \* poll: the messages delivered are the next ones the backend sent, in order, unchanged
         /\ (IF E.kind = "poll" /\ E.status = 200
               THEN /\ E.count >= 1 /\ E.first = crecv[E.sid] + 1 /\ E.first + E.count - 1 <= bsent[E.sid] /\ E.same
                    /\ crecv' = [crecv EXCEPT ![E.sid] = E.first + E.count - 1]
               ELSE UNCHANGED crecv)
         \* a poll that reports the session closed comes only after everything received was delivered
         /\ (E.kind = "poll" /\ E.arg = "valid" /\ E.status = 400 => (bclosed[E.sid] \/ sess[E.sid] = "closed") /\ crecv[E.sid] = bsent[E.sid])
         /\ (IF (E.kind = "close" /\ E.arg = "valid" /\ E.status = 200) \/ (E.kind = "poll" /\ E.arg = "valid" /\ E.status = 400)
               THEN sess' = [sess EXCEPT ![E.sid] = "closed"] ELSE UNCHANGED sess)
         /\ UNCHANGED <<announced, brecv, bsent, bclosed, sawClose>>
               /\ Step
\* end of a scenario: nothing panicked, everything accepted was delivered, closed sessions reached the backend
TFinal == Is("Final") /\ Same /\ ~E.panicked
          /\ (\A s \in Sids : sess[s] # "none" => (brecv[s] = announced[s] \/ bclosed[s]))
          /\ (\A s \in Sids : (sess[s] = "closed" /\ ~bclosed[s]) => sawClose[s])
               /\ Step
\* C13: the shim only ever dials the configured backend; the supplied URL contributes path and query only
TDial == Is("OpenCase") /\ Same /\ OkStatus(E.status)
         /\ (\A k \in DOMAIN E.dialed : E.dialed[k] = E.backend)
         /\ (E.status = 200 /\ E.class # "outside-prefix" => (E.saw_path = E.want_path /\ E.saw_query = E.want_query /\ Len(E.dialed) >= 1))
         \* requests outside the shim prefix reach the wrapped handler untouched (the harness reports 200 iff they did)
         /\ (E.class = "outside-prefix" => (E.status = 200 /\ E.dialed = <<>>))
               /\ Step
TOther == (Is("WsStore") \/ Is("WsDelete")) /\ Same
               /\ Step
TNext == TReset \/ TOpened \/ TOpenFailed \/ TDataBegin \/ TBackendRecv \/ TBackendSend \/ TBackendClose \/ TBackendSawClose
         \/ TCall \/ TFinal \/ TDial \/ TOther
TSpec == TInit /\ [][TNext]_<<svars, l>>
=============================================================================
