\* repaired design (the tree after the fix): Close never closes the channel, sends select on done
CONSTANTS Q = 2 NClient = 2 NServer = 2 Calls = {k1, k2, k3} CloseClosesChan = FALSE DrainByCount = FALSE SweepDone = FALSE
SPECIFICATION Spec
CHECK_DEADLOCK FALSE
INVARIANTS C2S S2C NoPanic Statuses
PROPERTIES Answered DrainThenClosed HeldIsDelivered ImplementsObs
