---------------------------- MODULE AppCacheTrace ----------------------------
(* Recorded sequences of client exchanges for one URL through the real App     *)
(* Engine proxy (fake App Engine API, the harness as agent) are judged by      *)
(* AppCache!StepOK: a response not produced for this request is one that a GET *)
(* of the same user for the same URL was given before.                         *)
EXTENDS TraceCommon, FiniteSets
VARIABLES kept, alive, l
C == INSTANCE AppCache WITH Users <- {}, Urls <- {}, MaxSteps <- 0, CacheHead <- FALSE, CacheFirst <- FALSE,
                            cache <- kept, n <- 0, last <- 0, okCache <- kept, live <- alive
Is(e) == l <= TLen /\ Trace[l].ev = e
E == Trace[l]
Step == l' = l + 1 /\ Mark(l)
TInit == kept = <<>> /\ alive = TRUE /\ l = 1 /\ HWMInit
TReset == Is("Reset") /\ kept' = <<>> /\ alive' = TRUE /\ Step
\* the agents of the backends stop polling (the harness moves their last-seen time back by six minutes)
TQuiet == Is("CacheQuiet") /\ alive' = FALSE /\ UNCHANGED kept /\ Step
TStep == Is("CacheStep") /\ UNCHANGED alive
         /\ (IF alive THEN C!StepOK(E, kept) ELSE (E.status = 404 /\ ~E.reached))
         /\ E.answered                                   \* every exchange is answered
         /\ kept' = (IF E.reached /\ E.method = "GET" /\ ~E.cc /\ E.status = 200
                       THEN [k \in DOMAIN kept \cup {C!Key(E.user, E.url)} |-> IF k = C!Key(E.user, E.url) THEN E.own ELSE kept[k]]
                       ELSE kept)
         /\ Step
TNext == TReset \/ TStep \/ TQuiet
TSpec == TInit /\ [][TNext]_<<kept, alive, l>>
=============================================================================
