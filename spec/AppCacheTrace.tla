---------------------------- MODULE AppCacheTrace ----------------------------
(* Recorded sequences of client exchanges for one URL through the real App     *)
(* Engine proxy (fake App Engine API, the harness as agent) are judged by      *)
(* AppCache!StepOK: a response not produced for this request is one that a GET *)
(* of the same user for the same URL was given before.                         *)
EXTENDS TraceCommon, FiniteSets
VARIABLES kept, l
C == INSTANCE AppCache WITH Users <- {}, Urls <- {}, MaxSteps <- 0, CacheHead <- FALSE,
                            cache <- kept, n <- 0, last <- 0, okCache <- kept
Is(e) == l <= TLen /\ Trace[l].ev = e
E == Trace[l]
Step == l' = l + 1 /\ Mark(l)
TInit == kept = <<>> /\ l = 1 /\ HWMInit
TReset == Is("Reset") /\ kept' = <<>> /\ Step
TStep == Is("CacheStep") /\ C!StepOK(E, kept)
         /\ E.answered                                   \* every exchange is answered
         /\ kept' = (IF E.reached /\ E.method = "GET" /\ ~E.cc /\ E.status = 200
                       THEN [k \in DOMAIN kept \cup {C!Key(E.user, E.url)} |-> IF k = C!Key(E.user, E.url) THEN E.own ELSE kept[k]]
                       ELSE kept)
         /\ Step
TNext == TReset \/ TStep
TSpec == TInit /\ [][TNext]_<<kept, l>>
=============================================================================
