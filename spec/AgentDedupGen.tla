---------------------------- MODULE AgentDedupGen ----------------------------
(* TLC evaluates the set of all list histories the environment action EnvList *)
(* of AgentDedup can produce (same operators) and writes it out for the       *)
(* replay against the real agent binary.                                      *)
EXTENDS AgentDedupBatches, SequencesExt, Json, IOUtils, TLC
VARIABLE x
GInit == x = 0
GNext == x' = x
ASSUME JsonSerialize(IOEnv.VERIF_OUT, [histories |-> SetToSeq(Histories)])
=============================================================================
