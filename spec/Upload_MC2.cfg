\* response longer than the replay buffer: retries must be refused once the buffer is full
CONSTANTS M = 4 N = 2 MaxAttempts = 3 MaxFail = 3 StaleReader = FALSE LockStep = FALSE BufferAll = FALSE Timers = {}
SPECIFICATION Spec
CHECK_DEADLOCK FALSE
INVARIANTS AckedIntegrity AtMostThree
PROPERTIES RetryOnlyIfReplayable Done HandlerReleased ImplementsObs
