---------------------------- MODULE TcpBridgeObs ----------------------------
(***************************************************************************)
(* What the two TCP peers of bridged connections can observe: bytes        *)
(* written and read per direction (as counts; the content of every read is *)
(* compared with the stream position by the observer), closes, and         *)
(* end-of-stream.  TcpBridge (token level, with the bridge's internals)    *)
(* refines this module - checked by TLC - and recorded runs of the real    *)
(* bridge binaries are validated against it (TcpBridgeTrace).             *)
(***************************************************************************)
EXTENDS Naturals, FiniteSets
CONSTANT Conn
Dirs == {"up", "down"}
OtherDir(d) == IF d = "up" THEN "down" ELSE "up"
VARIABLES osent,   \* [Conn -> [Dirs -> Nat]] bytes written by the source peer of the direction
          orcvd,   \* [Conn -> [Dirs -> Nat]] bytes read by the far peer
          oclosed, \* [Conn -> [Dirs -> BOOLEAN]] the source peer of the direction has closed
          oeof,    \* [Conn -> [Dirs -> BOOLEAN]] the far peer of the direction has observed end-of-stream
          ofirst,  \* [Conn -> direction whose source closed first, "" if nobody has]
          oabort   \* [Conn -> BOOLEAN] that first close was abortive (reset)
ovars == <<osent, orcvd, oclosed, oeof, ofirst, oabort>>

OInit == /\ osent = [c \in Conn |-> [d \in Dirs |-> 0]] /\ orcvd = [c \in Conn |-> [d \in Dirs |-> 0]]
         /\ oclosed = [c \in Conn |-> [d \in Dirs |-> FALSE]] /\ oeof = [c \in Conn |-> [d \in Dirs |-> FALSE]]
         /\ ofirst = [c \in Conn |-> ""] /\ oabort = [c \in Conn |-> FALSE]

OWr(c, d, n) ==      \* the source peer writes n bytes (only while it has not closed)
  /\ ~oclosed[c][d] /\ n > 0
  /\ osent' = [osent EXCEPT ![c][d] = @ + n] /\ UNCHANGED <<orcvd, oclosed, oeof, ofirst, oabort>>
ORd(c, d, n) ==      \* the far peer reads the next n bytes of the stream: never more than was written
  /\ n > 0 /\ orcvd[c][d] + n <= osent[c][d]
  /\ orcvd' = [orcvd EXCEPT ![c][d] = @ + n] /\ UNCHANGED <<osent, oclosed, oeof, ofirst, oabort>>
OClose(c, d, abortive) ==     \* (closing twice is harmless; the first close of a connection is remembered)
  /\ oclosed' = [oclosed EXCEPT ![c][d] = TRUE]
  /\ ofirst' = [ofirst EXCEPT ![c] = IF @ = "" THEN d ELSE @]
  /\ oabort' = [oabort EXCEPT ![c] = IF ofirst[c] = "" THEN abortive ELSE @]
  /\ UNCHANGED <<osent, orcvd, oeof>>
\* end-of-stream is observed only after somebody closed, and - if the source of this direction was the first
\* to close, gracefully - only after everything it had written was read
OEof(c, d) ==
  /\ ~oeof[c][d] /\ (oclosed[c][d] \/ oclosed[c][OtherDir(d)])
  /\ ((ofirst[c] = d /\ ~oabort[c]) => orcvd[c][d] = osent[c][d])
  \* a peer that closed first and gracefully has only stopped SENDING: it keeps reading, and sees the end of the
  \* other direction only after that direction's source has closed too and everything it wrote has arrived
  /\ ((ofirst[c] # "" /\ ofirst[c] # d /\ ~oabort[c]) => (oclosed[c][d] /\ orcvd[c][d] = osent[c][d]))
  /\ oeof' = [oeof EXCEPT ![c][d] = TRUE] /\ UNCHANGED <<osent, orcvd, oclosed, ofirst, oabort>>
ONext == \E c \in Conn, d \in Dirs : (\E n \in 1..4 : OWr(c, d, n) \/ ORd(c, d, n)) \/ OClose(c, d, FALSE) \/ OClose(c, d, TRUE) \/ OEof(c, d)
OSpec == OInit /\ [][ONext]_ovars

\* C15 / C16 as state predicates of the observable behaviour
Integrity == \A c \in Conn, d \in Dirs : orcvd[c][d] <= osent[c][d]
NoLossOnClose == \A c \in Conn, d \in Dirs : (oeof[c][d] /\ ofirst[c] = d /\ ~oabort[c]) => orcvd[c][d] = osent[c][d]
\* the end-of-scenario condition used on recorded runs
Settled(judgeClose, serverOpen, fdsLeaked) ==
  /\ (judgeClose => \A c \in Conn, d \in Dirs : ofirst[c] = d => oeof[c][d])
  /\ \A c \in Conn, d \in Dirs : ~oabort[c] => orcvd[c][d] = osent[c][d]    \* (graceful closers keep reading)
  /\ (judgeClose => \A c \in Conn, d \in Dirs : (ofirst[c] # "" /\ ofirst[c] # d /\ ~oabort[c] /\ oclosed[c][d]) => oeof[c][d])
  /\ (judgeClose => serverOpen = 0)
  /\ (judgeClose => fdsLeaked = 0)       \* the bridge processes hold no descriptor of a connection whose endpoints are gone
=============================================================================
