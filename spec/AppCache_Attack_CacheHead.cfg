\* HEAD looked up and stored like GET: a GET is answered with the body-less response produced for a HEAD
CONSTANTS Users = {"u1"} Urls = {"a"} MaxSteps = 3 CacheHead = TRUE CacheFirst = FALSE
SPECIFICATION SpecH
PROPERTIES OwnOrCachedGet
CHECK_DEADLOCK FALSE
