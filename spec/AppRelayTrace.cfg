SPECIFICATION TSpec
CHECK_DEADLOCK FALSE
INVARIANTS FetchIsRequest ResponseIsOwn OwnBackendOnly
POSTCONDITION Accepted
