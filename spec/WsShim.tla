------------------------------- MODULE WsShim -------------------------------
(***************************************************************************)
(* Websocket shim of the agent (agent/websockets/shim.go, connection.go):  *)
(* one shimmed session.  C11 (exactly-once in-order delivery both ways),   *)
(* C12 (every call is answered, any call order, no panic, no wedge),       *)
(* C13 (dial target confinement, operator Target).                         *)
(*                                                                         *)
(* Goroutines: the writer (client queue -> backend socket), the reader     *)
(* (backend socket -> server queue), and one goroutine per shim call       *)
(* (data / poll / close), each a small state machine at the grain of the   *)
(* code: data = Load, done-check, channel send; close = Load, Delete,      *)
(* send close message, (today) close the channel.                          *)
(***************************************************************************)
EXTENDS Naturals, Sequences, FiniteSets, TLC

CONSTANTS Q,                \* capacity of the two message channels (10 in the code)
          NClient, NServer, \* messages the client / the backend want to send
          Calls,            \* identifiers of shim calls
          CloseClosesChan,  \* deviation (the code before the fix): Close closes the channel SendClientMessage sends on
          SweepDone,        \* deviation: the session table is swept of sessions whose connection is done (an open call
                            \* of another session does it) - also when messages of the backend are still unpolled
          DrainByCount      \* deviation: a poll takes len(channel) more messages with blocking receives instead of
                            \* draining with a non-blocking select (check-then-act between concurrent polls)

VARIABLES tab,        \* session table entry: "none" | "open" | "deleted"
          done,       \* connection context cancelled
          chClosed,   \* clientMessages channel closed
          cq, sq,     \* client->server and server->client channels (sequences)
          sqClosed,   \* serverMessages closed by the reader goroutine
          writer,     \* "run" | "exit"
          reader,     \* "run" | "exit"
          nextC, nextS,       \* next message number the client / backend will send
          backendRcvd, clientRcvd,
          backendSawClose,
          call,       \* [Calls -> [kind, pc, status]]
          panic,
          bFirst,     \* (history) the backend closed the websocket itself
          last        \* (history) <<kind, status>> of the call answered most recently
vars == <<tab, done, chClosed, cq, sq, sqClosed, writer, reader, nextC, nextS, backendRcvd, clientRcvd, backendSawClose, call, panic, bFirst, last>>

Idle == [kind |-> "none", pc |-> "idle", status |-> 0, held |-> <<>>, cnt |-> 0]
Init == /\ tab = "open" /\ done = FALSE /\ chClosed = FALSE /\ cq = <<>> /\ sq = <<>> /\ sqClosed = FALSE
        /\ writer = "run" /\ reader = "run" /\ nextC = 1 /\ nextS = 1 /\ backendRcvd = <<>> /\ clientRcvd = <<>>
        /\ backendSawClose = FALSE /\ call = [c \in Calls |-> Idle] /\ panic = FALSE /\ bFirst = FALSE /\ last = <<"none", 0>>

CLOSEMSG == 0
Ret(c, st) == call' = [call EXCEPT ![c] = [@ EXCEPT !.pc = "returned", !.status = st]]
Goto(c, p) == call' = [call EXCEPT ![c].pc = p]

(* ---- backend side ---- *)
BackendSend ==          \* the backend sends a message; the reader goroutine forwards it into sq (blocks when full)
  /\ reader = "run" /\ ~done /\ nextS <= NServer /\ Len(sq) < Q
  /\ sq' = Append(sq, nextS) /\ nextS' = nextS + 1
  /\ UNCHANGED <<tab, done, chClosed, cq, sqClosed, writer, reader, nextC, backendRcvd, clientRcvd, backendSawClose, call, panic>>
BackendClose ==         \* the backend closes first: ReadMessage fails, the reader closes sq and cancels
  /\ reader = "run"
  /\ reader' = "exit" /\ sqClosed' = TRUE /\ done' = TRUE
  /\ UNCHANGED <<tab, chClosed, cq, sq, writer, nextC, nextS, backendRcvd, clientRcvd, backendSawClose, call, panic>>
ReaderSeesDone ==       \* serverConn closed after cancel: the reader's ReadMessage fails
  /\ reader = "run" /\ done
  /\ reader' = "exit" /\ sqClosed' = TRUE
  /\ UNCHANGED <<tab, done, chClosed, cq, sq, writer, nextC, nextS, backendRcvd, clientRcvd, backendSawClose, call, panic>>

(* ---- writer goroutine ---- *)
WriterStep ==
  /\ writer = "run"
  /\ \/ /\ cq # <<>>
        /\ cq' = Tail(cq)
        /\ IF Head(cq) = CLOSEMSG
             THEN /\ backendSawClose' = TRUE /\ UNCHANGED backendRcvd
                  /\ IF CloseClosesChan THEN UNCHANGED <<writer, done>>
                                        ELSE writer' = "exit" /\ done' = TRUE   \* repaired design: stop after the close message
             ELSE /\ backendRcvd' = Append(backendRcvd, Head(cq)) /\ UNCHANGED <<backendSawClose, writer, done>>
     \/ /\ cq = <<>> /\ (chClosed \/ done)            \* channel closed and drained, or context done
        /\ writer' = "exit" /\ done' = TRUE
        /\ UNCHANGED <<cq, backendRcvd, backendSawClose>>
  /\ UNCHANGED <<tab, chClosed, sq, sqClosed, reader, nextC, nextS, clientRcvd, call, panic>>

(* ---- data call: one message ---- *)
DataStart(c) ==
  /\ call[c].pc = "idle" /\ nextC <= NClient
  /\ call' = [call EXCEPT ![c] = [Idle EXCEPT !.kind = "data", !.pc = "load"]]
  /\ UNCHANGED <<tab, done, chClosed, cq, sq, sqClosed, writer, reader, nextC, nextS, backendRcvd, clientRcvd, backendSawClose, panic>>
DataLoad(c) ==          \* connections.Load
  /\ call[c].kind = "data" /\ call[c].pc = "load"
  /\ IF tab = "open" THEN Goto(c, "check") ELSE Ret(c, 400)
  /\ UNCHANGED <<tab, done, chClosed, cq, sq, sqClosed, writer, reader, nextC, nextS, backendRcvd, clientRcvd, backendSawClose, panic>>
DataCheck(c) ==         \* select { case <-conn.done(): ... default: ...
  /\ call[c].kind = "data" /\ call[c].pc = "check"
  /\ IF done THEN Ret(c, 400) ELSE Goto(c, "send")
  /\ UNCHANGED <<tab, done, chClosed, cq, sq, sqClosed, writer, reader, nextC, nextS, backendRcvd, clientRcvd, backendSawClose, panic>>
DataSend(c) ==          \* conn.clientMessages <- msg
  /\ call[c].kind = "data" /\ call[c].pc = "send"
  /\ IF chClosed
       THEN /\ panic' = TRUE /\ Ret(c, 0) /\ UNCHANGED <<cq, nextC>>      \* send on closed channel
       ELSE /\ Len(cq) < Q                                               \* blocks while the channel is full
            /\ cq' = Append(cq, nextC) /\ nextC' = nextC + 1 /\ Ret(c, 200) /\ UNCHANGED panic
  /\ UNCHANGED <<tab, done, chClosed, sq, sqClosed, writer, reader, nextS, backendRcvd, clientRcvd, backendSawClose>>
DataGiveUp(c) ==        \* repaired design: the send also selects on done, so it cannot block forever
  /\ ~CloseClosesChan /\ call[c].kind = "data" /\ call[c].pc = "send" /\ done
  /\ Ret(c, 400)
  /\ UNCHANGED <<tab, done, chClosed, cq, sq, sqClosed, writer, reader, nextC, nextS, backendRcvd, clientRcvd, backendSawClose, panic>>

\* housekeeping on behalf of other sessions (deviation SweepDone): the entry goes as soon as the connection is done
Sweep ==
  /\ SweepDone /\ done /\ tab = "open"
  /\ tab' = "deleted"
  /\ UNCHANGED <<done, chClosed, cq, sq, sqClosed, writer, reader, call, nextC, nextS, backendRcvd, clientRcvd, backendSawClose, panic>>

(* ---- poll call ---- *)
PollStart(c) ==
  /\ call[c].pc = "idle"
  /\ call' = [call EXCEPT ![c] = [Idle EXCEPT !.kind = "poll", !.pc = "load"]]
  /\ UNCHANGED <<tab, done, chClosed, cq, sq, sqClosed, writer, reader, nextC, nextS, backendRcvd, clientRcvd, backendSawClose, panic>>
PollLoad(c) ==
  /\ call[c].kind = "poll" /\ call[c].pc = "load"
  /\ IF tab = "open" THEN Goto(c, "read") ELSE Ret(c, 400)
  /\ UNCHANGED <<tab, done, chClosed, cq, sq, sqClosed, writer, reader, nextC, nextS, backendRcvd, clientRcvd, backendSawClose, panic>>
PollFirst(c) ==         \* ReadServerMessages: the first receive (blocks up to 20 s)
  /\ call[c].kind = "poll" /\ call[c].pc = "read"
  /\ \/ /\ sq # <<>>
        /\ sq' = Tail(sq)
        /\ call' = [call EXCEPT ![c] = [@ EXCEPT !.pc = "drain", !.held = <<Head(sq)>>, !.cnt = Len(sq) - 1]]   \* (cnt: len(channel) now)
        /\ UNCHANGED <<tab, clientRcvd>>
     \/ /\ sq = <<>> /\ sqClosed                       \* closed and drained: the session is reported closed
        /\ tab' = "deleted" /\ Ret(c, 400) /\ UNCHANGED <<clientRcvd, sq>>
     \/ /\ sq = <<>> /\ ~sqClosed                      \* 20 s without a message
        /\ Ret(c, 408) /\ UNCHANGED <<clientRcvd, sq, tab>>
  /\ UNCHANGED <<done, chClosed, cq, sqClosed, writer, reader, nextC, nextS, backendRcvd, backendSawClose, panic>>
Deliver(c) == /\ clientRcvd' = clientRcvd \o call[c].held
              /\ call' = [call EXCEPT ![c] = [@ EXCEPT !.pc = "returned", !.status = 200, !.held = <<>>]]
PollDrain(c) ==         \* ... then everything else that is queued: select with default, one message per step
  /\ call[c].kind = "poll" /\ call[c].pc = "drain"
  /\ IF ~DrainByCount
       THEN \/ /\ sq # <<>> /\ sq' = Tail(sq)
               /\ call' = [call EXCEPT ![c].held = Append(@, Head(sq))] /\ UNCHANGED <<clientRcvd, panic>>
            \/ /\ sq = <<>> /\ Deliver(c) /\ UNCHANGED <<sq, panic>>      \* default branch, or the channel was closed
       ELSE IF call[c].cnt = 0
              THEN Deliver(c) /\ UNCHANGED <<sq, panic>>
              ELSE \/ /\ sq # <<>> /\ sq' = Tail(sq)                          \* plain blocking receive
                      /\ call' = [call EXCEPT ![c] = [@ EXCEPT !.held = Append(@, Head(sq)), !.cnt = @ - 1]]
                      /\ UNCHANGED <<clientRcvd, panic>>
                   \/ /\ sq = <<>> /\ sqClosed                              \* receives nil from the closed channel:
                      /\ panic' = TRUE /\ Ret(c, 0) /\ UNCHANGED <<sq, clientRcvd>>   \* nil dereference in Serialize
  /\ UNCHANGED <<tab, done, chClosed, cq, sqClosed, writer, reader, nextC, nextS, backendRcvd, backendSawClose>>

(* ---- close call ---- *)
CloseStart(c) ==
  /\ call[c].pc = "idle"
  /\ call' = [call EXCEPT ![c] = [Idle EXCEPT !.kind = "close", !.pc = "load"]]
  /\ UNCHANGED <<tab, done, chClosed, cq, sq, sqClosed, writer, reader, nextC, nextS, backendRcvd, clientRcvd, backendSawClose, panic>>
CloseLoad(c) ==         \* Load then Delete: two steps, two close calls can both see the entry
  /\ call[c].kind = "close" /\ call[c].pc = "load"
  /\ IF tab = "open" THEN Goto(c, "delete") ELSE Ret(c, 400)
  /\ UNCHANGED <<tab, done, chClosed, cq, sq, sqClosed, writer, reader, nextC, nextS, backendRcvd, clientRcvd, backendSawClose, panic>>
CloseDelete(c) ==
  /\ call[c].kind = "close" /\ call[c].pc = "delete"
  /\ tab' = "deleted" /\ Goto(c, "sendclose")
  /\ UNCHANGED <<done, chClosed, cq, sq, sqClosed, writer, reader, nextC, nextS, backendRcvd, clientRcvd, backendSawClose, panic>>
CloseSend(c) ==         \* conn.clientMessages <- close message
  /\ call[c].kind = "close" /\ call[c].pc = "sendclose"
  /\ IF chClosed
       THEN /\ panic' = TRUE /\ Ret(c, 0) /\ UNCHANGED cq
       ELSE /\ Len(cq) < Q
            /\ cq' = Append(cq, CLOSEMSG) /\ UNCHANGED panic
            /\ IF CloseClosesChan THEN Goto(c, "closechan") ELSE Ret(c, 200)
  /\ UNCHANGED <<tab, done, chClosed, sq, sqClosed, writer, reader, nextC, nextS, backendRcvd, clientRcvd, backendSawClose>>
CloseGiveUp(c) ==       \* repaired design: Close selects on done instead of blocking on a dead writer
  /\ ~CloseClosesChan /\ call[c].kind = "close" /\ call[c].pc = "sendclose" /\ done
  /\ Ret(c, 200)
  /\ UNCHANGED <<tab, done, chClosed, cq, sq, sqClosed, writer, reader, nextC, nextS, backendRcvd, clientRcvd, backendSawClose, panic>>
CloseChan(c) ==         \* close(conn.clientMessages)
  /\ call[c].kind = "close" /\ call[c].pc = "closechan"
  /\ IF chClosed THEN panic' = TRUE /\ UNCHANGED chClosed ELSE chClosed' = TRUE /\ UNCHANGED panic
  /\ Ret(c, 200)
  /\ UNCHANGED <<tab, done, cq, sq, sqClosed, writer, reader, nextC, nextS, backendRcvd, clientRcvd, backendSawClose>>

JustReturned == {c \in Calls : call[c].pc # "returned" /\ call'[c].pc = "returned"}
K(A) == /\ A /\ UNCHANGED bFirst      \* (history variables: only BackendClose sets bFirst; last follows the answers)
        /\ last' = IF JustReturned = {} THEN last
                   ELSE LET c == CHOOSE c \in JustReturned : TRUE IN <<call'[c].kind, call'[c].status>>
Next == \/ (BackendClose /\ bFirst' = TRUE /\ UNCHANGED last)
        \/ K(BackendSend \/ ReaderSeesDone \/ WriterStep \/ Sweep)
        \/ \E c \in Calls : K(DataStart(c) \/ DataLoad(c) \/ DataCheck(c) \/ DataSend(c) \/ DataGiveUp(c)
                               \/ PollStart(c) \/ PollLoad(c) \/ PollFirst(c) \/ PollDrain(c)
                               \/ CloseStart(c) \/ CloseLoad(c) \/ CloseDelete(c) \/ CloseSend(c) \/ CloseGiveUp(c) \/ CloseChan(c))
Fair == /\ WF_vars(K(WriterStep)) /\ WF_vars(K(ReaderSeesDone))
        /\ \A c \in Calls : /\ WF_vars(K(DataLoad(c))) /\ WF_vars(K(DataCheck(c))) /\ WF_vars(K(DataSend(c))) /\ WF_vars(K(DataGiveUp(c)))
                            /\ WF_vars(K(PollLoad(c))) /\ WF_vars(K(PollFirst(c))) /\ WF_vars(K(PollDrain(c)))
                            /\ WF_vars(K(CloseLoad(c))) /\ WF_vars(K(CloseDelete(c))) /\ WF_vars(K(CloseSend(c))) /\ WF_vars(K(CloseGiveUp(c))) /\ WF_vars(K(CloseChan(c)))
Spec == Init /\ [][Next]_vars /\ Fair

(* ---- properties ---- *)
IsPrefix(s, t) == Len(s) <= Len(t) /\ \A k \in 1..Len(s) : s[k] = t[k]
Nat1(n) == [k \in 1..n |-> k]
\* C11: each side receives exactly what the other sent, once, in order
C2S == IsPrefix(backendRcvd, Nat1(nextC - 1))
\* (server to client: polls may overlap, so the order across two polls in flight is not defined; what is defined
\* is that every message the backend sent is in exactly one place - delivered, held by a poll in flight, or queued -
\* and that each poll delivers its messages in the order they were sent)
Occ(q, k) == Cardinality({i \in DOMAIN q : q[i] = k})
Increasing(q) == \A i, j \in DOMAIN q : i < j => q[i] < q[j]
SumHeld(k) == LET RECURSIVE Sum(_)
                  Sum(S) == IF S = {} THEN 0 ELSE LET c == CHOOSE c \in S : TRUE IN Occ(call[c].held, k) + Sum(S \ {c})
              IN Sum(Calls)
S2C == /\ \A k \in 1..(nextS - 1) : Occ(clientRcvd, k) + SumHeld(k) + Occ(sq, k) = 1
       /\ \A c \in Calls : Increasing(call[c].held)
\* with one poll at a time the client receives the backend's messages as a prefix, in order
\* C12: no call makes the agent panic
NoPanic == ~panic
Statuses == \A c \in Calls : call[c].pc = "returned" => call[c].status \in {200, 400, 408, 500}
\* C12: every call that was started is answered
Answered == \A c \in Calls : (call[c].pc # "idle") ~> (call[c].pc = "returned")
\* C12: closing the session closes the backend websocket
CloseReachesBackend == \A c \in Calls : (call[c].kind = "close" /\ call[c].pc = "returned" /\ call[c].status = 200) ~> (backendSawClose \/ done)
\* C12: when the backend closes first, polls deliver what was received and then report the session closed
DrainThenClosed == [][\A c \in Calls : (call[c].kind = "poll" /\ call[c].pc = "read" /\ call'[c].pc = "returned" /\ call'[c].status = 400) => sq = <<>>]_vars
\* a message taken out of the queue by a poll is delivered by that poll (never dropped on the floor)
HeldIsDelivered == [][\A c \in Calls : (call[c].held # <<>> /\ call'[c].held = <<>>) => clientRcvd' = clientRcvd \o call[c].held]_vars

(* ---- refinement: the shim implements the observable behaviour WsShimObs (one session) ---- *)
DataCalls(P(_)) == Cardinality({c \in Calls : call[c].kind = "data" /\ P(c)})
Pending(c) == call[c].pc \notin {"idle", "returned"}
Refused(c) == call[c].pc = "returned" /\ call[c].status # 200
Ended == \E c \in Calls : call[c].pc = "returned" /\ \/ (call[c].kind = "close" /\ call[c].status = 200)
                                                         \/ (call[c].kind = "poll" /\ call[c].status = 400)
S1 == {"s"}
Obs == INSTANCE WsShimObs WITH Sess <- S1,
         osess <- [s \in S1 |-> IF Ended THEN "closed" ELSE "open"],
         oclosing <- [s \in S1 |-> \E c \in Calls : call[c].kind = "close"],
         oann <- [s \in S1 |-> (nextC - 1) + DataCalls(Pending) + DataCalls(Refused)],
         obrecv <- [s \in S1 |-> Len(backendRcvd)],
         obsent <- [s \in S1 |-> nextS - 1],
         ocrecv <- [s \in S1 |-> Len(clientRcvd)],
         obclosed <- [s \in S1 |-> bFirst],
         osaw <- [s \in S1 |-> backendSawClose],
         opolls <- [s \in S1 |-> Cardinality({c \in Calls : call[c].kind = "poll" /\ Pending(c)})],
         oans <- last
ImplementsObs == Obs!OSpec
=============================================================================
