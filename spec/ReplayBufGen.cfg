CONSTANT MaxOps = 5
INIT GInit
NEXT GNext
CHECK_DEADLOCK FALSE
