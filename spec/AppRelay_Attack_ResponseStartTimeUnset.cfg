\* the code as it is: stored responses carry no StartTime, the cron handler takes every one of them for old;
\* a response written just before a cron run is gone before the waiting client polls it (it then gets 504)
CONSTANTS Req = {"r1", "r2"} Backend = {"b1", "b2"} SharedResponseKey = FALSE ShortRetention = FALSE ResponseStartTimeUnset = TRUE
CONSTANT BackendOf <- MCBackendOf
SPECIFICATION Spec
CHECK_DEADLOCK FALSE
PROPERTIES CronSparesWaiting
