------------------------------ MODULE TcpBridge ------------------------------
(***************************************************************************)
(* TCP-over-websocket bridge (utils/tcpbridge): one bridged connection,    *)
(* two directions, two bridge processes ("front" next to the TCP client,   *)
(* "back" next to the TCP server).  Each bridge runs two copy loops:       *)
(*   in-loop  io.Copy(ws, tcp): every TCP read becomes ONE websocket       *)
(*            message;                                                     *)
(*   out-loop io.Copy(tcp, ws): WebsocketNetConn.Read decodes messages and *)
(*            hands the bytes out in order (a partially consumed message   *)
(*            is kept in bufferedMsg).                                     *)
(* Close handling (as in the code after the fix, Marker = TRUE): when an   *)
(* in-loop ends (EOF from its TCP peer) the bridge sends CloseWrite - an   *)
(* EMPTY message that travels in order behind the data; the other bridge's *)
(* out-loop ends with io.EOF when it reads that message and half-closes    *)
(* the TCP connection to its peer.  A bridge releases (closes) both of its *)
(* connections when BOTH of its loops have ended.  Marker = FALSE is the   *)
(* code before the fix: nothing is sent when a loop ends, so nothing is    *)
(* closed until both peers have closed.  TCP peers half-close (they keep   *)
(* reading); abortive closes exist only in the observable spec.           *)
(* C15 (integrity), C16 (close propagation).                               *)
(***************************************************************************)
EXTENDS Naturals, Sequences, FiniteSets, TLC

CONSTANTS N,          \* tokens each peer wants to send
          MaxSeg,     \* largest write / read size
          Marker,     \* TRUE: CloseWrite marker + half-close (current code); FALSE: the code before the fix
          Timers      \* deviations: deadlines that turn quiet periods into ends of streams (the current code has none: {})
                      \*   "read-after-half-close": once one loop of a bridge has ended, the other loop's reads get a deadline
                      \*   "marker-write": the CloseWrite marker goes out under the deadline of the last data write and can fail

Dir == {"up", "down"}            \* up: client -> server, down: server -> client
Other(d) == IF d = "up" THEN "down" ELSE "up"
Bridge == {"front", "back"}
InDir(b) == IF b = "front" THEN "up" ELSE "down"     \* direction served by the bridge's in-loop (tcp -> ws)
OutDir(b) == Other(InDir(b))                          \* direction served by its out-loop (ws -> tcp)
FIN == <<>>                                           \* the CloseWrite marker: an empty message

VARIABLES next,       \* [Dir -> next token the source peer will write (1..N+1)]
          wsq,        \* [Dir -> sequence of websocket messages in flight (each a sequence of tokens)]
          buf,        \* [Dir -> bufferedMsg of the far bridge]
          rcvd,       \* [Dir -> tokens delivered to the far peer]
          srcClosed,  \* [Dir -> the source peer of this direction has closed (its write side)]
          inDone,     \* [Dir -> the in-loop of this direction has ended]
          outDone,    \* [Dir -> the out-loop of this direction has ended]
          released,   \* [Bridge -> the bridge has closed both of its connections]
          wsClosed,   \* the websocket has been closed (by either bridge)
          eof,        \* [Dir -> the far peer of this direction has observed end-of-stream]
          firstClosed \* (history) direction whose source peer closed first, "" if none
vars == <<next, wsq, buf, rcvd, srcClosed, inDone, outDone, released, wsClosed, eof, firstClosed>>

Init == /\ next = [d \in Dir |-> 1] /\ wsq = [d \in Dir |-> <<>>] /\ buf = [d \in Dir |-> <<>>]
        /\ rcvd = [d \in Dir |-> <<>>] /\ srcClosed = [d \in Dir |-> FALSE] /\ inDone = [d \in Dir |-> FALSE]
        /\ outDone = [d \in Dir |-> FALSE] /\ released = [b \in Bridge |-> FALSE] /\ wsClosed = FALSE
        /\ eof = [d \in Dir |-> FALSE] /\ firstClosed = ""

Range(a, b) == [k \in 1..(b - a + 1) |-> a + k - 1]

Write(d, k) ==          \* the source peer writes k tokens; the in-loop forwards them as ONE message
  /\ ~srcClosed[d] /\ ~inDone[d] /\ ~wsClosed /\ k \in 1..MaxSeg /\ next[d] + k - 1 <= N
  /\ wsq' = [wsq EXCEPT ![d] = Append(@, Range(next[d], next[d] + k - 1))]
  /\ next' = [next EXCEPT ![d] = @ + k]
  /\ UNCHANGED <<buf, rcvd, srcClosed, inDone, outDone, released, wsClosed, eof, firstClosed>>

PeerClose(d) ==         \* the source peer of direction d closes
  /\ ~srcClosed[d]
  /\ srcClosed' = [srcClosed EXCEPT ![d] = TRUE]
  /\ firstClosed' = IF firstClosed = "" THEN d ELSE firstClosed
  /\ UNCHANGED <<next, wsq, buf, rcvd, inDone, outDone, released, wsClosed, eof>>

InEnds(d) ==            \* io.Copy(ws, tcp) returns: EOF from the peer, or the websocket is gone;
                        \* closeWrite(ws) then sends the marker behind everything written so far
  /\ ~inDone[d] /\ (srcClosed[d] \/ wsClosed)
  /\ inDone' = [inDone EXCEPT ![d] = TRUE]
  /\ wsq' = IF Marker /\ ~wsClosed THEN [wsq EXCEPT ![d] = Append(@, FIN)] ELSE wsq
  /\ UNCHANGED <<next, buf, rcvd, srcClosed, outDone, released, wsClosed, eof, firstClosed>>

Refill(d) ==            \* WebsocketNetConn.Read: bufferedMsg empty -> decode the next data message
  /\ buf[d] = <<>> /\ wsq[d] # <<>> /\ Head(wsq[d]) # FIN /\ ~outDone[d]
  /\ buf' = [buf EXCEPT ![d] = Head(wsq[d])] /\ wsq' = [wsq EXCEPT ![d] = Tail(@)]
  /\ UNCHANGED <<next, rcvd, srcClosed, inDone, outDone, released, wsClosed, eof, firstClosed>>

Deliver(d, n) ==        \* ... and hand out min(n, len) bytes, keeping the rest
  /\ buf[d] # <<>> /\ n \in 1..MaxSeg /\ ~outDone[d]
  /\ LET m == IF n < Len(buf[d]) THEN n ELSE Len(buf[d]) IN
       /\ rcvd' = [rcvd EXCEPT ![d] = @ \o SubSeq(buf[d], 1, m)]
       /\ buf' = [buf EXCEPT ![d] = SubSeq(@, m + 1, Len(@))]
  /\ UNCHANGED <<next, wsq, srcClosed, inDone, outDone, released, wsClosed, eof, firstClosed>>

OutEnds(d) ==           \* io.Copy(tcp, ws) returns: the marker was read (io.EOF), or the websocket is closed
                        \* and drained; closeWrite(tcp) then half-closes the connection to the far peer
  /\ ~outDone[d] /\ buf[d] = <<>>
  /\ \/ /\ wsq[d] # <<>> /\ Head(wsq[d]) = FIN
        /\ wsq' = [wsq EXCEPT ![d] = Tail(@)]
     \/ /\ wsClosed /\ wsq[d] = <<>> /\ UNCHANGED wsq
  /\ outDone' = [outDone EXCEPT ![d] = TRUE]
  /\ eof' = IF Marker THEN [eof EXCEPT ![d] = TRUE] ELSE eof
  /\ UNCHANGED <<next, buf, rcvd, srcClosed, inDone, released, wsClosed, firstClosed>>

OutTimesOut(d) ==       \* (deviation) the out-loop's websocket read runs into a deadline set when the bridge's in-loop ended:
                        \* io.Copy ends as if the stream were over and the far peer is given a clean end-of-stream
  /\ "read-after-half-close" \in Timers /\ inDone[Other(d)] /\ ~outDone[d]
  /\ outDone' = [outDone EXCEPT ![d] = TRUE] /\ eof' = [eof EXCEPT ![d] = TRUE]
  /\ UNCHANGED <<next, wsq, buf, rcvd, srcClosed, inDone, released, wsClosed, firstClosed>>

InEndsMarkerLost(d) ==  \* (deviation) the in-loop ends, but the marker is written under an expired deadline and is lost
  /\ "marker-write" \in Timers /\ ~inDone[d] /\ srcClosed[d] /\ next[d] > 1
  /\ inDone' = [inDone EXCEPT ![d] = TRUE]
  /\ UNCHANGED <<next, wsq, buf, rcvd, srcClosed, outDone, released, wsClosed, eof, firstClosed>>

Release(b) ==           \* wg.Wait() returns: the deferred Close of both connections runs
  /\ ~released[b] /\ inDone[InDir(b)] /\ outDone[OutDir(b)]
  /\ released' = [released EXCEPT ![b] = TRUE] /\ wsClosed' = TRUE
  /\ eof' = [eof EXCEPT ![OutDir(b)] = TRUE]
  /\ UNCHANGED <<next, wsq, buf, rcvd, srcClosed, inDone, outDone, firstClosed>>

Next == \/ \E d \in Dir : PeerClose(d) \/ InEnds(d) \/ OutEnds(d) \/ Refill(d) \/ OutTimesOut(d) \/ InEndsMarkerLost(d)
                          \/ (\E k \in 1..MaxSeg : Write(d, k) \/ Deliver(d, k))
        \/ \E b \in Bridge : Release(b)
Fair == /\ \A d \in Dir : /\ WF_vars(InEnds(d)) /\ WF_vars(OutEnds(d))
                          /\ WF_vars(Refill(d)) /\ WF_vars(\E k \in 1..MaxSeg : Deliver(d, k))
        /\ \A b \in Bridge : WF_vars(Release(b))
Spec == Init /\ [][Next]_vars /\ Fair

Sent(d) == Range(1, next[d] - 1)
IsPrefix(s, t) == Len(s) <= Len(t) /\ \A k \in 1..Len(s) : s[k] = t[k]
\* C15: what the far peer has read is a prefix of what was written, in order, unmodified
Integrity == \A d \in Dir : IsPrefix(rcvd[d], Sent(d))
\* C15: everything written is eventually read (while nobody closes)
Complete == \A d \in Dir : []((~srcClosed["up"] /\ ~srcClosed["down"]) => <>(rcvd[d] = Sent(d) \/ srcClosed["up"] \/ srcClosed["down"]))
\* C16: a close on one side reaches the other peer, after all data sent before the close
ClosePropagates == \A d \in Dir : srcClosed[d] ~> (eof[d] /\ rcvd[d] = Sent(d))
\* C16: no data is lost by the close itself
NoLossOnClose == \A d \in Dir : eof[d] => (srcClosed[d] => rcvd[d] = Sent(d))
\* C16: once both peers have closed, both bridges let go of everything
AllReleased == (srcClosed["up"] /\ srcClosed["down"]) ~> (released["front"] /\ released["back"])
\* the websocket is closed only by a bridge whose two loops have ended
CloseOnlyWhenDone == wsClosed => \E b \in Bridge : released[b]

(* ---- refinement: the bridge implements the observable behaviour TcpBridgeObs (one connection) ---- *)
Obs == INSTANCE TcpBridgeObs WITH Conn <- {"c"},
         osent <- [c \in {"c"} |-> [d \in Dir |-> next[d] - 1]],
         orcvd <- [c \in {"c"} |-> [d \in Dir |-> Len(rcvd[d])]],
         oclosed <- [c \in {"c"} |-> srcClosed],
         oeof <- [c \in {"c"} |-> eof],
         ofirst <- [c \in {"c"} |-> firstClosed],
         oabort <- [c \in {"c"} |-> FALSE]
ImplementsObs == Obs!OSpec
=============================================================================
