------------------------------ MODULE TcpBridge ------------------------------
(***************************************************************************)
(* TCP-over-websocket bridge (utils/tcpbridge): one bridged connection,    *)
(* two directions.  In each direction: the source peer writes tokens, the  *)
(* near bridge turns each TCP read into one websocket message, the far     *)
(* bridge decodes messages and hands the bytes out in order (a partially   *)
(* consumed message is kept in bufferedMsg), the far peer reads them.      *)
(* Close handling: a copy loop ends when its source reports EOF; WaitBoth  *)
(* (the code before the fix) closes the connections only after BOTH copy   *)
(* loops of a bridge have ended.  C15 (integrity), C16 (close propagation).*)
(***************************************************************************)
EXTENDS Naturals, Sequences, FiniteSets, TLC

CONSTANTS N,          \* tokens each peer wants to send
          MaxSeg,     \* largest write / read size
          WaitBoth    \* deviation: both copy directions must end before anything is closed

Dir == {"up", "down"}            \* up: client -> server, down: server -> client
Other(d) == IF d = "up" THEN "down" ELSE "up"

VARIABLES next,       \* [Dir -> next token the source peer will write (1..N+1)]
          wsq,        \* [Dir -> sequence of websocket messages (each a sequence of tokens)]
          buf,        \* [Dir -> bufferedMsg of the far bridge]
          rcvd,       \* [Dir -> tokens delivered to the far peer]
          srcClosed,  \* [Dir -> the source peer of this direction has closed its socket]
          inDone,     \* [Dir -> the near bridge's copy loop (tcp -> ws) of this direction has ended]
          wsClosed,   \* the websocket has been closed (by either bridge)
          outDone,    \* [Dir -> the far bridge's copy loop (ws -> tcp) of this direction has ended]
          eof         \* [Dir -> the far peer of this direction has observed end-of-stream]
vars == <<next, wsq, buf, rcvd, srcClosed, inDone, wsClosed, outDone, eof>>

Init == /\ next = [d \in Dir |-> 1] /\ wsq = [d \in Dir |-> <<>>] /\ buf = [d \in Dir |-> <<>>]
        /\ rcvd = [d \in Dir |-> <<>>] /\ srcClosed = [d \in Dir |-> FALSE] /\ inDone = [d \in Dir |-> FALSE]
        /\ wsClosed = FALSE /\ outDone = [d \in Dir |-> FALSE] /\ eof = [d \in Dir |-> FALSE]

Range(a, b) == [k \in 1..(b - a + 1) |-> a + k - 1]

Write(d, k) ==          \* the source peer writes k tokens; the near bridge forwards them as ONE message
  /\ ~srcClosed[d] /\ ~inDone[d] /\ ~wsClosed /\ k \in 1..MaxSeg /\ next[d] + k - 1 <= N
  /\ wsq' = [wsq EXCEPT ![d] = Append(@, Range(next[d], next[d] + k - 1))]
  /\ next' = [next EXCEPT ![d] = @ + k]
  /\ UNCHANGED <<buf, rcvd, srcClosed, inDone, wsClosed, outDone, eof>>

Refill(d) ==            \* WebsocketNetConn.Read: bufferedMsg empty -> decode the next message
  /\ buf[d] = <<>> /\ wsq[d] # <<>> /\ ~outDone[d]
  /\ buf' = [buf EXCEPT ![d] = Head(wsq[d])] /\ wsq' = [wsq EXCEPT ![d] = Tail(@)]
  /\ UNCHANGED <<next, rcvd, srcClosed, inDone, wsClosed, outDone, eof>>

Deliver(d, n) ==        \* ... and hand out min(n, len) bytes, keeping the rest
  /\ buf[d] # <<>> /\ n \in 1..MaxSeg /\ ~outDone[d]
  /\ LET m == IF n < Len(buf[d]) THEN n ELSE Len(buf[d]) IN
       /\ rcvd' = [rcvd EXCEPT ![d] = @ \o SubSeq(buf[d], 1, m)]
       /\ buf' = [buf EXCEPT ![d] = SubSeq(@, m + 1, Len(@))]
  /\ UNCHANGED <<next, wsq, srcClosed, inDone, wsClosed, outDone, eof>>

PeerClose(d) ==         \* the source peer of direction d closes its TCP connection
  /\ ~srcClosed[d]
  /\ srcClosed' = [srcClosed EXCEPT ![d] = TRUE]
  /\ UNCHANGED <<next, wsq, buf, rcvd, inDone, wsClosed, outDone, eof>>

InEnds(d) ==            \* near bridge: io.Copy(ws, tcp) returns (EOF from the peer, or its own socket was closed)
  /\ ~inDone[d] /\ (srcClosed[d] \/ eof[Other(d)])
  /\ inDone' = [inDone EXCEPT ![d] = TRUE]
  /\ UNCHANGED <<next, wsq, buf, rcvd, srcClosed, wsClosed, outDone, eof>>

\* the near bridge of direction d is the far bridge of Other(d): its two loops are inDone[d] and outDone[Other(d)]
BridgeMayClose(d) == IF WaitBoth THEN inDone[d] /\ outDone[Other(d)] ELSE inDone[d] \/ outDone[Other(d)]

CloseWs(d) ==           \* the bridge whose inbound loop is d closes the websocket (deferred Close / fix: right away)
  /\ ~wsClosed /\ BridgeMayClose(d)
  /\ wsClosed' = TRUE
  /\ UNCHANGED <<next, wsq, buf, rcvd, srcClosed, inDone, outDone, eof>>

OutEnds(d) ==           \* far bridge: io.Copy(tcp, ws) returns once the websocket is closed and drained
  /\ ~outDone[d] /\ wsClosed /\ wsq[d] = <<>> /\ buf[d] = <<>>
  /\ outDone' = [outDone EXCEPT ![d] = TRUE]
  /\ UNCHANGED <<next, wsq, buf, rcvd, srcClosed, inDone, wsClosed, eof>>

FarClose(d) ==          \* the far bridge closes the far peer's socket: the peer observes EOF
  /\ ~eof[d] /\ BridgeMayClose(Other(d)) /\ outDone[d]
  /\ eof' = [eof EXCEPT ![d] = TRUE]
  /\ UNCHANGED <<next, wsq, buf, rcvd, srcClosed, inDone, wsClosed, outDone>>

Next == \E d \in Dir : PeerClose(d) \/ InEnds(d) \/ CloseWs(d) \/ OutEnds(d) \/ FarClose(d) \/ Refill(d)
                       \/ (\E k \in 1..MaxSeg : Write(d, k) \/ Deliver(d, k))
Fair == \A d \in Dir : /\ WF_vars(InEnds(d)) /\ WF_vars(CloseWs(d)) /\ WF_vars(OutEnds(d)) /\ WF_vars(FarClose(d))
                       /\ WF_vars(Refill(d)) /\ WF_vars(\E k \in 1..MaxSeg : Deliver(d, k))
Spec == Init /\ [][Next]_vars /\ Fair

Sent(d) == Range(1, next[d] - 1)
IsPrefix(s, t) == Len(s) <= Len(t) /\ \A k \in 1..Len(s) : s[k] = t[k]
\* C15: what the far peer has read is a prefix of what was written, in order, unmodified
Integrity == \A d \in Dir : IsPrefix(rcvd[d], Sent(d))
\* C15: everything written is eventually read (while nobody closes)
Complete == \A d \in Dir : []((~srcClosed["up"] /\ ~srcClosed["down"]) => <>(rcvd[d] = Sent(d) \/ srcClosed["up"] \/ srcClosed["down"]))
\* C16: a close on one side reaches the other peer, after all data sent before the close
ClosePropagates == \A d \in Dir : srcClosed[d] ~> (eof[d] /\ rcvd[d] = Sent(d))
\* C16: no data is lost by the close itself
NoLossOnClose == \A d \in Dir : eof[d] => (srcClosed[d] => rcvd[d] = Sent(d))
=============================================================================
