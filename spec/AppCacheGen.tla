----------------------------- MODULE AppCacheGen -----------------------------
(* Sequences of exchanges on one URL for the replay against the real app:      *)
(* GET / HEAD / POST by two users, backend answers with and without            *)
(* Cache-Control - all sequences of length 2 and 3.                            *)
EXTENDS Naturals, Sequences, SequencesExt, Json, IOUtils, TLC
Ops == {[m |-> "GET", u |-> "u1", cc |-> FALSE, st |-> 200], [m |-> "GET", u |-> "u2", cc |-> FALSE, st |-> 200],
        [m |-> "GET", u |-> "u1", cc |-> TRUE, st |-> 200], [m |-> "HEAD", u |-> "u1", cc |-> FALSE, st |-> 200],
        [m |-> "POST", u |-> "u1", cc |-> FALSE, st |-> 200],
        [m |-> "GET", u |-> "u1", cc |-> FALSE, st |-> 206],     \* a ranged GET answered 206 Partial Content (never kept)
        [m |-> "QUIET", u |-> "u1", cc |-> FALSE, st |-> 0]}     \* the agents stop polling: whatever follows is answered 404
Seqs == [1..2 -> Ops] \cup [1..3 -> Ops]
VARIABLE x
GInit == x = 0
GNext == x' = x
ASSUME JsonSerialize(IOEnv.VERIF_OUT, [sequences |-> SetToSeq(Seqs)])
=============================================================================
