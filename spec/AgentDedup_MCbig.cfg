CONSTANTS IdPool = {a, b, c} LruCap = 3 MaxBatch = 3 MaxLists = 3 NoDedup = FALSE ForgetOnFailure = FALSE
SPECIFICATION Spec
CHECK_DEADLOCK FALSE
INVARIANTS AtMostOnce OneWorker
PROPERTIES ExactlyOnce
