----------------------------- MODULE UploadTrace -----------------------------
(* Recorded runs of the real response forwarder (utils.NewResponseForwarder,   *)
(* in process, real http.Client) against the byte-level fault server must be    *)
(* behaviours of UploadObs.  Attempt / AttemptErr / AttemptStatus / BrsRead /   *)
(* BrsSeek are hook events of agent/utils/utils.go; UpFail / UpAck / Produce /  *)
(* Observe / CloseDone are harness observables.                                 *)
EXTENDS TraceCommon, FiniteSets

BufSize == 4096          \* readResponseBufSize

VARIABLES ocur, oreply, ook, opost, oseek,
          made, observed,   \* C05: pieces produced by the handler / observed complete by the proxy
          l

O == INSTANCE UploadObs WITH MaxAttempts <- 3
ovars == <<ocur, oreply, ook, opost, oseek, made, observed>>
Is(e) == l <= TLen /\ Trace[l].ev = e
E == Trace[l]
Step == l' = l + 1 /\ Mark(l)
Stutter == UNCHANGED ovars
Keep == UNCHANGED <<made, observed>>

TInit == /\ ocur = 1 /\ oreply = [a \in 1..3 |-> "none"] /\ ook = [a \in 1..3 |-> FALSE]
         /\ opost = "doing" /\ oseek = TRUE /\ made = 0 /\ observed = 0 /\ l = 1 /\ HWMInit

TReset == Is("Reset") /\ ocur' = 1 /\ oreply' = [a \in 1..3 |-> "none"] /\ ook' = [a \in 1..3 |-> FALSE]
          /\ opost' = "doing" /\ oseek' = TRUE /\ made' = 0 /\ observed' = 0
               /\ Step
\* a new attempt: the first one, or a retry, which UploadObs allows only after a failure and only
\* while the replay buffer has not overflowed, and never beyond the third attempt
TAttempt == Is("Attempt") /\ Keep
            /\ ((E.n = 1 /\ ocur = 1 /\ oreply[1] = "none" /\ UNCHANGED <<ocur, oreply, ook, opost, oseek>>)
                \/ (E.n > 1 /\ O!ORetry /\ ocur' = E.n))
               /\ Step
TAttemptErr == Is("AttemptErr") /\ Keep /\ O!OFail(E.n)
               /\ Step
\* an attempt is acknowledged by a 2xx reply; UploadObs acknowledges only an attempt on which the proxy received
\* exactly the complete serialised response.  Any other reply (5xx; also a redirect or a 4xx from something in
\* front of the proxy) is an attempt that was not acknowledged - whether the agent then tries again is its choice
\* within "at most three, only while replayable" (the code stops after a 3xx / 4xx and reports success, which the
\* statement does not forbid)
TAttemptStatus == Is("AttemptStatus") /\ Keep
               /\ (IF E.status >= 200 /\ E.status < 300 THEN O!OAck(E.n) ELSE O!OFail(E.n))
               /\ Step
TBrsRead == Is("BrsRead") /\ Keep
            /\ (IF E.wh >= BufSize /\ oseek THEN O!OOverflow ELSE UNCHANGED <<ocur, oreply, ook, opost, oseek>>)
               /\ Step
TBrsSeek == Is("BrsSeek") /\ Stutter /\ (E.ok <=> oseek)
               /\ Step
TUpStart == Is("UpStart") /\ Stutter /\ E.a <= 3
               /\ Step
TUpFail  == Is("UpFail") /\ Stutter
               /\ Step
\* the proxy endpoint has read attempt a's body to its end and is about to reply 2xx; eq says whether
\* what it received equals the reference serialisation
TUpAck   == Is("UpAck") /\ Keep /\ E.a = ocur /\ oreply[E.a] = "none"
            /\ ook' = [ook EXCEPT ![E.a] = E.eq] /\ UNCHANGED <<ocur, oreply, opost, oseek>>
               /\ Step
TProduce == Is("Produce") /\ E.k = made + 1 /\ (made = 0 \/ observed >= made)
            /\ made' = made + 1 /\ UNCHANGED <<ocur, oreply, ook, opost, oseek, observed>>
               /\ Step
TObserve == Is("Observe") /\ E.k = observed + 1 /\ E.k <= made
            /\ observed' = observed + 1 /\ UNCHANGED <<ocur, oreply, ook, opost, oseek, made>>
               /\ Step
TStreamDone == Is("StreamDone") /\ Stutter /\ observed = made /\ made = E.n
               /\ Step
\* Close() returned: the backend-facing handler is never left blocked, whatever happened to the
\* attempts (what Close reports is not part of the property: a final 5xx is reported as success
\* by the code, which the statement does not forbid)
TCloseDone == Is("CloseDone") /\ Stutter /\ ~E.blocked
               /\ Step
TOther == (Is("SWHeader") \/ Is("SWWrite") \/ Is("SWClose") \/ Is("SerStart") \/ Is("SerDone")
           \/ Is("HandlerDone") \/ Is("Final") \/ Is("Backoff") \/ Is("HWrite") \/ Is("UpAbort")) /\ Stutter
               /\ Step

\* 16 forwarders at a time (no per-step events): every acknowledged upload was the forwarder's own response,
\* no handler stayed blocked
TStress == Is("UploadStress") /\ Stutter /\ E.ok /\ E.runs > 0 /\ E.acked > 0 /\ E.corrupt = 0 /\ E.blocked = 0
               /\ Step
\* C05 under load: 12 streams x 1500 lock-step chunks, none held back
TStreamStress == Is("StreamStress") /\ Stutter /\ E.ok /\ E.chunks > 0 /\ E.stalls = 0
               /\ Step
TNext == TStreamStress \/ TStress \/ TReset \/ TAttempt \/ TAttemptErr \/ TAttemptStatus \/ TBrsRead \/ TBrsSeek \/ TUpStart \/ TUpFail
         \/ TUpAck \/ TProduce \/ TObserve \/ TStreamDone \/ TCloseDone \/ TOther
TSpec == TInit /\ [][TNext]_<<ovars, l>>

AckedIntegrity == O!AckedIntegrity
AtMostThree == O!AtMostThree
=============================================================================
