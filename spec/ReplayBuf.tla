------------------------------ MODULE ReplayBuf ------------------------------
(***************************************************************************)
(* bufferedReadSeeker (agent/utils/utils.go) as a sequential object, at    *)
(* the grain of byte offsets: the retry of a response upload (C06) replays *)
(* exactly the bytes of the stream from its start, as long as the stream   *)
(* read so far still fits the replay buffer.                               *)
(*   pos  stream offset the next Read delivers                             *)
(*   hi   number of stream bytes taken from the source so far              *)
(* A Read(n) delivers k <= n bytes stream[pos .. pos+k): first whatever of *)
(* [pos, hi) is recorded, then fresh source bytes.  Seek(0) succeeds iff   *)
(* fewer than N bytes were recorded (the code refuses a buffer that is     *)
(* exactly full: it cannot tell "full" from "overflowed").                 *)
(* The Upload model has this object inside a concurrent setting (ReadA /   *)
(* ReadB / ReadC per attempt); here its sequential contract is checked     *)
(* against the real type, call by call (ReplayBufTrace).                   *)
(***************************************************************************)
EXTENDS Naturals
CONSTANTS N,        \* replay buffer size
          StreamLen       \* length of the source stream
VARIABLES pos, hi
rvars == <<pos, hi>>
Max(a, b) == IF a > b THEN a ELSE b
Min(a, b) == IF a < b THEN a ELSE b
RInit == pos = 0 /\ hi = 0
Replayable == hi < N
RRead(k) == /\ pos + k <= StreamLen
            /\ pos' = pos + k /\ hi' = Max(hi, pos + k)
RSeekOK == Replayable /\ pos' = 0 /\ UNCHANGED hi
RSeekRefused == ~Replayable /\ UNCHANGED rvars
RNext == (\E k \in 0..StreamLen : RRead(k)) \/ RSeekOK \/ RSeekRefused
RSpec == RInit /\ [][RNext]_rvars
\* the reader never runs ahead of what was taken from the source, and a replay starts only while everything fits
PosWithinHi == pos <= hi
SeekOnlyWhileReplayable == [][(pos' = 0 /\ pos # 0) => hi < N]_rvars
=============================================================================
