CONSTANTS N = 3 MaxSeg = 2 Marker = TRUE Timers = {}
SPECIFICATION Spec
CHECK_DEADLOCK FALSE
INVARIANTS Integrity NoLossOnClose CloseOnlyWhenDone
PROPERTIES ClosePropagates ImplementsObs Complete AllReleased
