------------------------------- MODULE AppCache -------------------------------
(***************************************************************************)
(* The App Engine proxy's response cache (app/proxy.go, proxyHandler):     *)
(* a GET that is answered 200 (not 206, 204, ...) without a Cache-Control   *)
(* header is kept in                                                       *)
(* memcache under (user, URL); a later GET of the same user for the same   *)
(* URL may be answered from there without asking the backend.  Nothing     *)
(* else is kept and nothing else is answered from the cache.  What C19     *)
(* says about it: a client receives the response posted for ITS request -  *)
(* or, for a GET, a response that was earlier given to the same user for   *)
(* the same URL by GET (C01 says the same of the stand-alone proxy, which  *)
(* has no cache).                                                          *)
(***************************************************************************)
EXTENDS Naturals, Sequences, FiniteSets, TLC

CONSTANTS Users, Urls, MaxSteps,
          CacheHead,       \* deviation: HEAD is treated like GET by the cache (looked up and stored)
          CacheFirst       \* deviation: the cache is consulted before the request is routed (a backend whose agent has gone
                           \* quiet, or that was deleted, still "answers" from the cache instead of 404)

Methods == {"GET", "HEAD", "POST"}
VARIABLES cache,   \* [<<user, url>> -> id of the exchange whose response is kept] (partial)
          n,       \* exchanges so far
          last,    \* the last step: [method, user, url, reached, got, own]
          live     \* the backend the URL is routed to has an agent that polled within the last five minutes
vars == <<cache, n, last, live>>
NoStep == [method |-> "none", user |-> "none", url |-> "none", reached |-> TRUE, got |-> 0, own |-> 0, cc |-> FALSE, status |-> 0]
Init == cache = <<>> /\ n = 0 /\ last = NoStep /\ live = TRUE

Key(u, url) == <<u, url>>
Has(u, url) == Key(u, url) \in DOMAIN cache
Put(u, url, id) == [k \in DOMAIN cache \cup {Key(u, url)} |-> IF k = Key(u, url) THEN id ELSE cache[k]]
Looks(m) == m = "GET" \/ (CacheHead /\ m = "HEAD")

\* one client exchange; cc = the backend's answer carries Cache-Control (then it is not kept)
Step(m, u, url, cc) ==
  /\ n < MaxSteps /\ n' = n + 1 /\ UNCHANGED live
  /\ \/ /\ (live \/ CacheFirst) /\ Looks(m) /\ Has(u, url)  \* answered from the cache (memcache may also have lost it: below)
        /\ last' = [method |-> m, user |-> u, url |-> url, reached |-> FALSE, got |-> cache[Key(u, url)], own |-> n + 1, cc |-> cc, status |-> 200]
        /\ UNCHANGED cache
     \/ /\ live
        /\ last' = [method |-> m, user |-> u, url |-> url, reached |-> TRUE, got |-> n + 1, own |-> n + 1, cc |-> cc, status |-> 200]
        /\ cache' = IF Looks(m) /\ ~cc THEN Put(u, url, n + 1) ELSE cache
     \/ /\ ~live                                           \* nothing routable: 404, whatever the cache holds
        /\ last' = [method |-> m, user |-> u, url |-> url, reached |-> FALSE, got |-> 0, own |-> n + 1, cc |-> cc, status |-> 404]
        /\ UNCHANGED cache
GoesQuiet == live /\ live' = FALSE /\ UNCHANGED <<cache, n, last>>     \* the backend's agent stops polling (or the backend is deleted)
Next == GoesQuiet \/ \E m \in Methods, u \in Users, url \in Urls, cc \in BOOLEAN : Step(m, u, url, cc)
Spec == Init /\ [][Next]_vars

\* the rule recorded exchanges are judged by (also used as the model's invariant): a response that was not produced
\* for this request is one that a GET of the same user for the same URL was answered with before (what is kept is
\* always the answer to a GET)
StepOK(s, kept) ==
  /\ s.status # 404
  /\ s.reached => s.got = s.own
  /\ ~s.reached => /\ s.method \in {"GET", "HEAD"}     \* (a HEAD answered with the header block kept for a GET is no harm; the code does not do it)
                   /\ Key(s.user, s.url) \in DOMAIN kept /\ s.got = kept[Key(s.user, s.url)]
\* history of what a correct cache may hold: filled by reached GETs without Cache-Control only
VARIABLE okCache
InitH == Init /\ okCache = <<>>
NextH == /\ Next
         /\ okCache' = IF last'.reached /\ last'.method = "GET" /\ ~last'.cc
                         THEN [k \in DOMAIN okCache \cup {Key(last'.user, last'.url)} |->
                                 IF k = Key(last'.user, last'.url) THEN last'.own ELSE okCache[k]]
                         ELSE okCache
SpecH == InitH /\ [][NextH]_<<vars, okCache>>
OwnOrCachedGet == [][last' # last => (IF live THEN StepOK(last', okCache) ELSE (last'.status = 404 /\ ~last'.reached))]_<<vars, okCache>>
=============================================================================
