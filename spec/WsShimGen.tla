------------------------------ MODULE WsShimGen ------------------------------
(* Shim call sequences (C12) and URL syntax classes (C13) enumerated by TLC.     *)
EXTENDS Naturals, Sequences, SequencesExt, FiniteSets, Json, IOUtils, TLC
Alphabet == {"open", "data-valid", "data-unknown", "data-closed", "data-malformed", "data-wrongtype",
             "poll-valid", "poll-unknown", "poll-closed", "poll-malformed",
             "close-valid", "close-unknown", "close-closed", "close-malformed", "backend-send", "backend-close"}
Seqs(n) == UNION {[1..k -> Alphabet] : k \in 1..n}
\* longer histories of one session made of well-formed steps only (what an earlier step leaves behind decides what a
\* later one must answer: a refused data call in front of a poll, a close after the backend has gone, ...)
ValidOps == {"data-valid", "poll-valid", "close-valid", "backend-send", "backend-close"}
HistSeqs(lo, hi) == UNION {[1..k -> ValidOps] : k \in lo..hi}
UrlClasses == {"abs-http-foreign", "abs-https-foreign", "abs-ws-foreign", "abs-wss-foreign", "scheme-relative", "path-only", "path-query",
               "opaque", "opaque-mailto", "empty", "userinfo", "ipv6", "odd-port", "empty-port", "fragment", "parse-error", "raw-bytes",
               "backend-host", "dot-segments", "encoded-path",
               \* the backend itself answers the handshake with a redirect to another host: not followed
               "backend-redirect-301", "backend-redirect-302", "backend-redirect-307", "backend-redirect-308", "backend-redirect-relative"}
\* a reserved character of URL syntax inside a component where it does not delimit anything (an "@" in the query,
\* a ":" in the path, a "?" in the fragment ...), for absolute, scheme-relative and relative references with and
\* without a path: whatever the character seems to say, the connection goes to the configured backend
RChars == {"@", ":", "/", "?", "#", "[", "%40", "%2F"}
RComps == {"path", "query", "fragment"}
RPaths == {"empty", "nonempty"}
RForms == {"absolute", "scheme-relative", "relative"}
Reserved == {"rsv|" \o c \o "|" \o k \o "|" \o p \o "|" \o f : c \in RChars, k \in RComps, p \in RPaths, f \in RForms}
\* classes of characters a text message may carry: every one of them is valid UTF-8 and has to arrive as text
TextClasses == {"ascii", "quote", "backslash", "lt", "gt", "amp", "latin1", "astral", "newline", "cr", "tab", "space", "nbsp",
                "replacement-char", "bom", "nul", "del", "line-separator", "max-code-point", "combining", "rtl"}
VARIABLE x
GInit == x = 0
GNext == x' = x
ASSUME JsonSerialize(IOEnv.VERIF_OUT, [seqs |-> SetToSeq(Seqs(3)), histseqs |-> SetToSeq(HistSeqs(4, 5)), urls |-> SetToSeq(UrlClasses), reserved |-> SetToSeq(Reserved), textclasses |-> SetToSeq(TextClasses), alphabet |-> SetToSeq(Alphabet)])
=============================================================================
