------------------------------ MODULE WsShimGen ------------------------------
(* Shim call sequences (C12) and URL syntax classes (C13) enumerated by TLC.     *)
EXTENDS Naturals, Sequences, SequencesExt, FiniteSets, Json, IOUtils, TLC
Alphabet == {"open", "data-valid", "data-unknown", "data-closed", "data-malformed", "data-wrongtype",
             "poll-valid", "poll-unknown", "poll-closed", "poll-malformed",
             "close-valid", "close-unknown", "close-closed", "close-malformed", "backend-send", "backend-close"}
Seqs(n) == UNION {[1..k -> Alphabet] : k \in 1..n}
UrlClasses == {"abs-http-foreign", "abs-https-foreign", "abs-ws-foreign", "abs-wss-foreign", "scheme-relative", "path-only", "path-query",
               "opaque", "opaque-mailto", "empty", "userinfo", "ipv6", "odd-port", "empty-port", "fragment", "parse-error", "raw-bytes",
               "backend-host", "dot-segments", "encoded-path"}
VARIABLE x
GInit == x = 0
GNext == x' = x
ASSUME JsonSerialize(IOEnv.VERIF_OUT, [seqs |-> SetToSeq(Seqs(3)), urls |-> SetToSeq(UrlClasses), alphabet |-> SetToSeq(Alphabet)])
=============================================================================
