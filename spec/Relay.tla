------------------------------- MODULE Relay -------------------------------
(***************************************************************************)
(* Stand-alone proxy (server/server.go) + agent poll loop and workers      *)
(* (agent/agent.go, agent/utils/utils.go ReadRequest / ResponseForwarder)  *)
(* + backend.  One action per critical section / channel rendezvous.       *)
(*                                                                         *)
(* Properties: C01 (correlation), C04 (at-most-once forward, ID handed to  *)
(* exactly one list reply), C07 (fault isolation, agent survival, 502).    *)
(*                                                                         *)
(* Tokens: the content of client request r is the model value r itself;    *)
(* a response is <<kind, token>> where token is the request content the    *)
(* backend saw when it produced the response.  The token is derived        *)
(* through the chain (pending[id] at fetch, wreq[id] at the backend,       *)
(* wresp[id] at upload, the waiter of pending[id] at hand-off), so the     *)
(* correlation invariants are not tautologies: IdCollision breaks them.    *)
(***************************************************************************)
EXTENDS Naturals, Sequences, FiniteSets, TLC

CONSTANTS Req,         \* client requests (= their own tokens)
          IdPool,      \* request IDs the proxy can generate
          Poller,      \* goroutines in handleAgentListRequests
          AgentPoller, \* subset whose replies reach the agent's poll loop
          LruCap,      \* requestCacheLimit (1000 in the code)
          MaxFaults,   \* fault budget
          Victims,     \* requests that may be hit by a fault (C07)
          UniqueIds,   \* TRUE: newID never repeats
          CleanCut     \* deviation (the code before fix 35f74b2): when the agent's upload breaks off while the body is being
                       \* copied, the client's response is ended cleanly - a truncated body that looks complete

None   == "none"
NoResp == <<"none", "none">>

VARIABLES
  pc,        \* [Req -> state of proxy.ServeHTTP for r]
  idOf,      \* [Req -> IdPool \cup {None}]
  pending,   \* proxy.requests : [IdPool -> Req \cup {None}]  (never deleted)
  ps,        \* [Poller -> "idle" | "first" | "drain"]
  batch,     \* [Poller -> Seq(IdPool)]
  agent,     \* agent poll loop: "idle" | "listing" | "proc" | "dead"
  cur,       \* list reply the loop is iterating over
  seen,      \* agent LRU, most recent first
  w,         \* [IdPool -> worker state]
  wreq,      \* [IdPool -> Req \cup {None}]  request content the worker fetched
  wresp,     \* [IdPool -> response <<kind, token>>]
  plook,     \* [IdPool -> Req \cup {None, "nf"}] waiter found by handleAgentPostResponse's lookup
  inflight,  \* [Req -> response handed to ServeHTTP over respChan]
  delivered, \* [Req -> response the client has read]
  calls,     \* [Req -> Nat]   backend invocations that saw token r
  handed,    \* [IdPool -> Nat] number of list replies that carried id
  faults,    \* Nat
  hit        \* set of requests actually hit by a fault

vars == <<pc, idOf, pending, ps, batch, agent, cur, seen, w, wreq, wresp, plook,
          inflight, delivered, calls, handed, faults, hit>>

Init ==
  /\ pc = [r \in Req |-> "new"]
  /\ idOf = [r \in Req |-> None]
  /\ pending = [i \in IdPool |-> None]
  /\ ps = [p \in Poller |-> "idle"]
  /\ batch = [p \in Poller |-> <<>>]
  /\ agent = "idle"
  /\ cur = <<>>
  /\ seen = <<>>
  /\ w = [i \in IdPool |-> "none"]
  /\ wreq = [i \in IdPool |-> None]
  /\ wresp = [i \in IdPool |-> NoResp]
  /\ plook = [i \in IdPool |-> None]
  /\ inflight = [r \in Req |-> NoResp]
  /\ delivered = [r \in Req |-> NoResp]
  /\ calls = [r \in Req |-> 0]
  /\ handed = [i \in IdPool |-> 0]
  /\ faults = 0
  /\ hit = {}

UsedIds == {idOf[r] : r \in Req} \ {None}

(* ------------------------------------------------------------------ *)
(* proxy: ServeHTTP for a client request                                *)
(* ------------------------------------------------------------------ *)
Register(r, i) ==            \* newID + p.requests[id] = pending (server.go:211-222)
  /\ pc[r] = "new"
  /\ (UniqueIds => i \notin UsedIds)
  /\ idOf' = [idOf EXCEPT ![r] = i]
  /\ pending' = [pending EXCEPT ![i] = r]
  /\ pc' = [pc EXCEPT ![r] = "offered"]   \* parked in `p.requestIDs <- id`
  /\ UNCHANGED <<ps, batch, agent, cur, seen, w, wreq, wresp, plook, inflight, delivered, calls, handed, faults, hit>>

ClientCancel(r) ==           \* r.Context().Done() in either select (client went away)
  /\ pc[r] \in {"offered", "waiting"}
  /\ r \in Victims /\ faults < MaxFaults
  /\ faults' = faults + 1
  /\ hit' = hit \cup {r}
  /\ pc' = [pc EXCEPT ![r] = "cancelled"]
  /\ UNCHANGED <<idOf, pending, ps, batch, agent, cur, seen, w, wreq, wresp, plook, inflight, delivered, calls, handed>>

(* ------------------------------------------------------------------ *)
(* proxy: waitForRequestIDs (server.go:139-157)                         *)
(* ------------------------------------------------------------------ *)
ListStart(p) ==
  /\ ps[p] = "idle"
  /\ (p \in AgentPoller => agent = "idle")
  /\ ps' = [ps EXCEPT ![p] = "first"]
  /\ batch' = [batch EXCEPT ![p] = <<>>]
  /\ agent' = IF p \in AgentPoller THEN "listing" ELSE agent
  /\ UNCHANGED <<pc, idOf, pending, cur, seen, w, wreq, wresp, plook, inflight, delivered, calls, handed, faults, hit>>

Recv(p, r) ==                \* rendezvous on the unbuffered requestIDs channel
  /\ ps[p] \in {"first", "drain"}
  /\ pc[r] = "offered"
  /\ pc' = [pc EXCEPT ![r] = "waiting"]
  /\ batch' = [batch EXCEPT ![p] = Append(@, idOf[r])]
  /\ ps' = [ps EXCEPT ![p] = "drain"]
  /\ UNCHANGED <<idOf, pending, agent, cur, seen, w, wreq, wresp, plook, inflight, delivered, calls, handed, faults, hit>>

CountIn(s, i) == Cardinality({k \in 1..Len(s) : s[k] = i})

ListReplyAny(p) ==           \* the list call returns what it has collected
  /\ ps[p] = "drain"
  /\ ps' = [ps EXCEPT ![p] = "idle"]
  /\ handed' = [i \in IdPool |-> handed[i] + CountIn(batch[p], i)]
  /\ IF p \in AgentPoller
       THEN /\ cur' = batch[p]
            /\ agent' = IF batch[p] = <<>> THEN "idle" ELSE "proc"   \* empty reply: loop lists again
       ELSE /\ UNCHANGED <<cur, agent>>
  /\ batch' = [batch EXCEPT ![p] = <<>>]
  /\ UNCHANGED <<pc, idOf, pending, seen, w, wreq, wresp, plook, inflight, delivered, calls, faults, hit>>

ListTimeout(p) ==            \* 30 s without any ID (or the poller's context ended): empty reply
  /\ ps[p] = "first"
  /\ ps' = [ps EXCEPT ![p] = "idle"]
  /\ agent' = IF p \in AgentPoller THEN "idle" ELSE agent
  /\ UNCHANGED <<pc, idOf, pending, batch, cur, seen, w, wreq, wresp, plook, inflight, delivered, calls, handed, faults, hit>>

ListReply(p) ==              \* `default:` branch is taken only when nobody is parked on the channel
  /\ \A r \in Req : pc[r] # "offered"
  /\ ListReplyAny(p)

ListFault(p) ==              \* the list call fails (5xx / broken connection): IDs taken by it are lost
  /\ p \in AgentPoller /\ ps[p] \in {"first", "drain"}
  /\ faults < MaxFaults
  /\ \A k \in 1..Len(batch[p]) : pending[batch[p][k]] \in Victims
  /\ faults' = faults + 1
  /\ hit' = hit \cup {pending[batch[p][k]] : k \in 1..Len(batch[p])}
  /\ ps' = [ps EXCEPT ![p] = "idle"]
  /\ batch' = [batch EXCEPT ![p] = <<>>]
  /\ agent' = "idle"           \* agent.go:215-218: log, back off, list again
  /\ UNCHANGED <<pc, idOf, pending, cur, seen, w, wreq, wresp, plook, inflight, delivered, calls, handed>>

(* ------------------------------------------------------------------ *)
(* agent: pollForNewRequests, dedup against the LRU (agent.go:221-226)  *)
(* ------------------------------------------------------------------ *)
InSeq(s, x) == \E k \in 1..Len(s) : s[k] = x
Without(s, x) == SelectSeq(s, LAMBDA y : y # x)
Trunc(s) == IF Len(s) > LruCap THEN SubSeq(s, 1, LruCap) ELSE s

AgentDedupStep ==            \* one iteration of `for _, requestID := range requests`
  /\ agent = "proc" /\ cur # <<>>
  /\ LET i == Head(cur) IN
       IF InSeq(seen, i)
         THEN /\ seen' = <<i>> \o Without(seen, i)    \* lru.Get touches the entry
              /\ UNCHANGED w
         ELSE /\ seen' = Trunc(<<i>> \o seen)         \* lru.Add, evicting the oldest
              /\ w' = [w EXCEPT ![i] = "fetch"]       \* go processOneRequest(...)
  /\ cur' = Tail(cur)
  /\ agent' = IF Tail(cur) = <<>> THEN "idle" ELSE "proc"   \* last ID: back to the top of the poll loop
  /\ UNCHANGED <<pc, idOf, pending, ps, batch, wreq, wresp, plook, inflight, delivered, calls, handed, faults, hit>>

(* ------------------------------------------------------------------ *)
(* agent worker: processOneRequest                                      *)
(* ------------------------------------------------------------------ *)
WFetch(i) ==                 \* utils.ReadRequest -> proxy.handleAgentGetRequest
  /\ w[i] = "fetch"
  /\ IF pending[i] # None
       THEN /\ wreq' = [wreq EXCEPT ![i] = pending[i]]
            /\ w' = [w EXCEPT ![i] = "forward"]
       ELSE /\ w' = [w EXCEPT ![i] = "failed"] /\ UNCHANGED wreq
  /\ UNCHANGED <<pc, idOf, pending, ps, batch, agent, cur, seen, wresp, plook, inflight, delivered, calls, handed, faults, hit>>

WFetchFault(i) ==            \* fetch rejected, or its reply lost / garbled on the way back
  /\ w[i] \in {"fetch", "forward"} /\ faults < MaxFaults
  /\ pending[i] \in Victims
  /\ faults' = faults + 1
  /\ hit' = hit \cup {pending[i]}
  /\ w' = [w EXCEPT ![i] = "failed"]
  /\ UNCHANGED <<pc, idOf, pending, ps, batch, agent, cur, seen, wreq, wresp, plook, inflight, delivered, calls, handed>>

WForward(i) ==               \* hostProxy.ServeHTTP reaches the backend
  /\ w[i] = "forward"
  /\ calls' = [calls EXCEPT ![wreq[i]] = @ + 1]
  /\ w' = [w EXCEPT ![i] = "backend"]
  /\ UNCHANGED <<pc, idOf, pending, ps, batch, agent, cur, seen, wreq, wresp, plook, inflight, delivered, handed, faults, hit>>

LocalAnswer(i, kind) ==      \* the agent's handler chain answers without a backend response:
  /\ w[i] = "forward" /\ faults < MaxFaults    \* ReverseProxy's 502 on a connect failure, a 4xx/5xx of the
  /\ wreq[i] \in Victims                        \* websocket shim on malformed input
  /\ faults' = faults + 1
  /\ hit' = hit \cup {wreq[i]}
  /\ wresp' = [wresp EXCEPT ![i] = <<kind, wreq[i]>>]
  /\ w' = [w EXCEPT ![i] = "upload"]
  /\ UNCHANGED <<pc, idOf, pending, ps, batch, agent, cur, seen, wreq, plook, inflight, delivered, calls, handed>>

BackendDown(i) == LocalAnswer(i, "502")   \* connect failure: ReverseProxy synthesises 502

BackendReply(i) ==
  /\ w[i] = "backend"
  /\ wresp' = [wresp EXCEPT ![i] = <<"ok", wreq[i]>>]
  /\ w' = [w EXCEPT ![i] = "upload"]
  /\ UNCHANGED <<pc, idOf, pending, ps, batch, agent, cur, seen, wreq, plook, inflight, delivered, calls, handed, faults, hit>>

BackendBreaks(i) ==          \* backend closes / resets / garbles after it was invoked
  /\ w[i] = "backend" /\ faults < MaxFaults
  /\ wreq[i] \in Victims
  /\ faults' = faults + 1
  /\ hit' = hit \cup {wreq[i]}
  /\ \E k \in {"502", "trunc"} : wresp' = [wresp EXCEPT ![i] = <<k, wreq[i]>>]
  /\ w' = [w EXCEPT ![i] = "upload"]
  /\ UNCHANGED <<pc, idOf, pending, ps, batch, agent, cur, seen, wreq, plook, inflight, delivered, calls, handed>>

TransportRetry(i) ==         \* the backend closed a (reused keep-alive) connection before answering anything:
  /\ w[i] = "backend" /\ faults < MaxFaults      \* net/http's transport sends an idempotent request again on a
  /\ wreq[i] \in Victims                          \* fresh connection - same forwarding, no new ServeHTTP
  /\ faults' = faults + 1
  /\ hit' = hit \cup {wreq[i]}
  /\ w' = [w EXCEPT ![i] = "retry"]
  /\ UNCHANGED <<pc, idOf, pending, ps, batch, agent, cur, seen, wreq, wresp, plook, inflight, delivered, calls, handed>>

Resend(i) ==                 \* ... and the backend is invoked again for the same request
  /\ w[i] = "retry"
  /\ w' = [w EXCEPT ![i] = "backend"]
  /\ UNCHANGED <<pc, idOf, pending, ps, batch, agent, cur, seen, wreq, wresp, plook, inflight, delivered, calls, handed, faults, hit>>

PostLookup(i) ==             \* the upload POST is issued as soon as the forwarder exists
  /\ w[i] \in {"forward", "backend", "retry", "upload"}   \* (utils.go NewResponseForwarder); the proxy looks the
  /\ plook[i] = None                              \* waiter up when the POST's head arrives
  /\ plook' = [plook EXCEPT ![i] = IF pending[i] = None THEN "nf" ELSE pending[i]]
  /\ UNCHANGED <<pc, idOf, pending, ps, batch, agent, cur, seen, w, wreq, wresp, inflight, delivered, calls, handed, faults, hit>>

PostAborted(i) ==            \* an upload attempt of this request reached the proxy and died before its response head was
  /\ plook[i] # None /\ wreq[i] \in Victims   \* complete: the handler returns, the waiter keeps waiting, and the
  /\ w[i] \in {"forward", "backend", "retry", "upload"}   \* agent's next attempt looks the waiter up again
  /\ faults < MaxFaults
  /\ faults' = faults + 1 /\ hit' = hit \cup {wreq[i]}
  /\ plook' = [plook EXCEPT ![i] = None]
  /\ UNCHANGED <<pc, idOf, pending, ps, batch, agent, cur, seen, w, wreq, wresp, inflight, delivered, calls, handed>>

Handoff(i) ==                \* handleAgentPostResponse: response head parsed, respChan rendezvous
  /\ w[i] = "upload"
  /\ plook[i] \notin {None, "nf"}
  /\ pc[plook[i]] = "waiting"
  /\ inflight' = [inflight EXCEPT ![plook[i]] = wresp[i]]
  /\ pc' = [pc EXCEPT ![plook[i]] = "copying"]
  /\ w' = [w EXCEPT ![i] = "done"]
  /\ UNCHANGED <<idOf, pending, ps, batch, agent, cur, seen, wreq, wresp, plook, delivered, calls, handed, faults, hit>>

ClientDone(r) ==             \* ServeHTTP copied status, headers, body, trailers to the client
  /\ pc[r] = "copying"
  /\ delivered' = [delivered EXCEPT ![r] = inflight[r]]
  /\ pc' = [pc EXCEPT ![r] = "done"]
  /\ UNCHANGED <<idOf, pending, ps, batch, agent, cur, seen, w, wreq, wresp, plook, inflight, calls, handed, faults, hit>>

UploadBreaks(r) ==           \* the agent's POST breaks off while the proxy copies the body to the client (the agent's
                             \* --proxy-timeout covers the whole upload; agent or connection lost): the client's connection
  /\ pc[r] = "copying" /\ r \in Victims /\ faults < MaxFaults   \* is aborted, so it can tell - unless CleanCut
  /\ faults' = faults + 1 /\ hit' = hit \cup {r}
  /\ delivered' = [delivered EXCEPT ![r] = <<IF CleanCut THEN "ok-truncated" ELSE "aborted", inflight[r][2]>>]
  /\ pc' = [pc EXCEPT ![r] = "done"]
  /\ UNCHANGED <<idOf, pending, ps, batch, agent, cur, seen, w, wreq, wresp, plook, inflight, calls, handed>>

PostOrphan(i) ==             \* nobody waits on respChan any more (client cancelled / already served)
  /\ w[i] = "upload"
  /\ plook[i] # None
  /\ (plook[i] # "nf" => pc[plook[i]] \in {"copying", "done", "cancelled"})
  /\ w' = [w EXCEPT ![i] = "failed"]
  /\ UNCHANGED <<pc, idOf, pending, ps, batch, agent, cur, seen, wreq, wresp, plook, inflight, delivered, calls, handed, faults, hit>>

PostFault(i) ==              \* upload rejected, garbled or reset for this request
  /\ w[i] = "upload" /\ faults < MaxFaults
  /\ wreq[i] \in Victims
  /\ faults' = faults + 1
  /\ hit' = hit \cup {wreq[i]}
  /\ w' = [w EXCEPT ![i] = "failed"]
  /\ UNCHANGED <<pc, idOf, pending, ps, batch, agent, cur, seen, wreq, wresp, plook, inflight, delivered, calls, handed>>

Next ==
  \/ \E r \in Req, i \in IdPool : Register(r, i)
  \/ \E r \in Req : ClientCancel(r) \/ ClientDone(r) \/ UploadBreaks(r)
  \/ \E p \in Poller : ListStart(p) \/ ListReply(p) \/ ListFault(p) \/ ListTimeout(p)
  \/ \E p \in Poller, r \in Req : Recv(p, r)
  \/ AgentDedupStep
  \/ \E i \in IdPool : WFetch(i) \/ WFetchFault(i) \/ WForward(i) \/ BackendDown(i)
                       \/ BackendReply(i) \/ BackendBreaks(i) \/ TransportRetry(i) \/ Resend(i)
                       \/ PostLookup(i) \/ PostAborted(i) \/ Handoff(i)
                       \/ PostOrphan(i) \/ PostFault(i)

Fair ==
  /\ \A r \in Req : WF_vars(\E i \in IdPool : Register(r, i)) /\ WF_vars(ClientDone(r))
  /\ \A p \in Poller : WF_vars(ListStart(p)) /\ WF_vars(ListReply(p))
  /\ \A p \in Poller, r \in Req : SF_vars(Recv(p, r))
  /\ WF_vars(AgentDedupStep)
  /\ \A i \in IdPool : WF_vars(WFetch(i)) /\ WF_vars(WForward(i)) /\ WF_vars(BackendReply(i)) /\ WF_vars(Resend(i))
                       /\ WF_vars(PostLookup(i)) /\ WF_vars(Handoff(i))

Spec == Init /\ [][Next]_vars /\ Fair

(* ------------------------------------------------------------------ *)
(* properties                                                          *)
(* ------------------------------------------------------------------ *)
TypeOK ==
  /\ pc \in [Req -> {"new", "offered", "waiting", "copying", "done", "cancelled"}]
  /\ agent \in {"idle", "listing", "proc", "dead"}
  /\ Len(seen) <= LruCap

\* C01: what a client receives was produced by the backend for that client's own request
Correlation == \A r \in Req : delivered[r] # NoResp => delivered[r][2] = r
\* C01: each backend response reaches at most one client
OneClientPerResponse ==
  \A r1, r2 \in Req : (delivered[r1] # NoResp /\ delivered[r1] = delivered[r2]) => r1 = r2
\* C04: at most one backend invocation per client request
AtMostOnce == \A r \in Req : calls[r] <= 1
\* C04: each id is handed to at most one list reply
HandOffOnce == \A i \in IdPool : handed[i] <= 1
\* C07: a request not hit by a fault is never answered with an error
Isolation == \A r \in Req : (r \notin hit /\ delivered[r] # NoResp) => delivered[r] = <<"ok", r>>
\* C07: no per-request fault stops the agent loop
Survives == agent # "dead"
\* C07: an unreachable backend yields a 502 for that request, never another request's response
BadGateway == \A r \in Req : (delivered[r] # NoResp /\ delivered[r][1] = "502") => r \in hit

\* liveness (fault-free requests): every request that was not hit by a fault is answered OK
Answered == \A r \in Req : <>(r \in hit \/ delivered[r] = <<"ok", r>>)
\* C04: a served request was forwarded exactly once
ExactlyOnce == \A r \in Req : [](delivered[r] = <<"ok", r>> => calls[r] = 1)
\* C07 liveness: the agent keeps polling whatever happens to single requests
KeepsPolling == []<>(agent = "idle" \/ agent = "listing")

\* VIEW for exhaustive runs: counters that only observe are kept (they are small)
\* a response that did not arrive completely never looks like one that did
NoSilentTruncation == \A r \in Req : delivered[r][1] # "ok-truncated"
=============================================================================
