--------------------------- MODULE ReplayBufTrace ---------------------------
(* Calls recorded from the real bufferedReadSeeker (in-package test added with *)
(* go test -overlay) judged by ReplayBuf.  The stream consists of 16-bit       *)
(* counters, so every delivered slice of four or more bytes names its own      *)
(* stream offset (from) and whether it is one contiguous run (contig).         *)
EXTENDS TraceCommon, Integers
VARIABLES pos, hi, l
R == INSTANCE ReplayBuf WITH N <- 4096, StreamLen <- 1000000
Is(e) == l <= TLen /\ Trace[l].ev = e
E == Trace[l]
Step == l' = l + 1 /\ Mark(l)
TInit == R!RInit /\ l = 1 /\ HWMInit
TReset == Is("Reset") /\ pos' = 0 /\ hi' = 0
               /\ Step
\* Read(p) returned k bytes: the next k bytes of the stream, wherever they came from
TRead == Is("BrsCall") /\ E.op = "read" /\ E.k <= E.n /\ E.contig /\ (E.from >= 0 => E.from = pos) /\ R!RRead(E.k)
         /\ (E.k = 0 => E.eof)
               /\ Step
\* Seek(0): granted exactly while the bytes taken so far still fit
TSeek == Is("BrsCall") /\ E.op = "seek" /\ ((E.ok /\ R!RSeekOK) \/ (~E.ok /\ R!RSeekRefused))
               /\ Step
TNext == TReset \/ TRead \/ TSeek
TSpec == TInit /\ [][TNext]_<<pos, hi, l>>
=============================================================================
