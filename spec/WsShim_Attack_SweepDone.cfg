\* the session table is swept of sessions whose connection is done while messages of the backend are still unpolled:
\* a poll is answered "closed" although not everything was delivered - the observable behaviour is no longer one of
\* WsShimObs (rule of OAnswer for poll / 400)
CONSTANTS Q = 2 NClient = 1 NServer = 2 Calls = {k1, k2} CloseClosesChan = FALSE DrainByCount = FALSE SweepDone = TRUE
SPECIFICATION Spec
CHECK_DEADLOCK FALSE
PROPERTIES ImplementsObs
