INIT GInit
NEXT GNext
