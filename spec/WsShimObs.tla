----------------------------- MODULE WsShimObs -----------------------------
(***************************************************************************)
(* What the users of the websocket shim can observe, per shimmed session:  *)
(* the browser side (open / data / poll / close calls and their answers)   *)
(* and the backend websocket (messages received and sent, closes).         *)
(* Messages are numbered per session and direction; content equality is    *)
(* checked by the observer.  WsShim (the goroutine-level model of shim.go  *)
(* and connection.go) refines this module - checked by TLC - and recorded  *)
(* runs of the real shim are validated against it (WsShimTrace).           *)
(***************************************************************************)
EXTENDS Naturals, FiniteSets
CONSTANT Sess
VARIABLES osess,     \* [Sess -> "none" | "open" | "closed"]: closed once a close call was answered 200 or a poll reported the end
          oclosing,  \* [Sess -> a close call has been started]
          oann,      \* [Sess -> number of client messages handed to data calls so far]
          obrecv,    \* [Sess -> number of client messages the backend has received (in order)]
          obsent,    \* [Sess -> number of messages the backend has sent]
          ocrecv,    \* [Sess -> number of backend messages delivered to the client by polls]
          obclosed,  \* [Sess -> the backend closed the websocket itself]
          osaw,      \* [Sess -> the backend observed the close of the websocket]
          opolls,    \* [Sess -> number of poll calls in flight]
          oans       \* <<kind, status>> of the call answered most recently
ovars == <<osess, oclosing, oann, obrecv, obsent, ocrecv, obclosed, osaw, opolls, oans>>

OInitWith(st) == /\ osess = [s \in Sess |-> st] /\ oclosing = [s \in Sess |-> FALSE] /\ oann = [s \in Sess |-> 0]
                 /\ obrecv = [s \in Sess |-> 0] /\ obsent = [s \in Sess |-> 0] /\ ocrecv = [s \in Sess |-> 0]
                 /\ obclosed = [s \in Sess |-> FALSE] /\ osaw = [s \in Sess |-> FALSE] /\ opolls = [s \in Sess |-> 0] /\ oans = <<"none", 0>>

OkStatus(st) == st \in {200, 400, 408, 500}

OOpened(s) == osess[s] = "none" /\ osess' = [osess EXCEPT ![s] = "open"]
              /\ UNCHANGED <<oclosing, oann, obrecv, obsent, ocrecv, obclosed, osaw, opolls, oans>>
\* client messages from..to are handed to a data call
ODataBegin(s, from, to) == /\ osess[s] # "none" /\ from = oann[s] + 1 /\ to >= from
                           /\ oann' = [oann EXCEPT ![s] = to]
                           /\ UNCHANGED <<osess, oclosing, obrecv, obsent, ocrecv, obclosed, osaw, opolls, oans>>
OPollBegin(s) == opolls' = [opolls EXCEPT ![s] = @ + 1]
                 /\ UNCHANGED <<osess, oclosing, oann, obrecv, obsent, ocrecv, obclosed, osaw, oans>>
OCloseBegin(s) == oclosing' = [oclosing EXCEPT ![s] = TRUE]
                  /\ UNCHANGED <<osess, oann, obrecv, obsent, ocrecv, obclosed, osaw, opolls, oans>>
\* C11: the backend receives the client's messages once each, in order - never one that was not handed over
OBackendRecv(s, n) == /\ n = obrecv[s] + 1 /\ n <= oann[s]
                      /\ obrecv' = [obrecv EXCEPT ![s] = n]
                      /\ UNCHANGED <<osess, oclosing, oann, obsent, ocrecv, obclosed, osaw, opolls, oans>>
OBackendSend(s, n) == /\ n = obsent[s] + 1
                      /\ obsent' = [obsent EXCEPT ![s] = n]
                      /\ UNCHANGED <<osess, oclosing, oann, obrecv, ocrecv, obclosed, osaw, opolls, oans>>
OBackendClose(s) == obclosed' = [obclosed EXCEPT ![s] = TRUE]
                    /\ UNCHANGED <<osess, oclosing, oann, obrecv, obsent, ocrecv, osaw, opolls, oans>>
OBackendSawClose(s) == osaw' = [osaw EXCEPT ![s] = TRUE]
                       /\ UNCHANGED <<osess, oclosing, oann, obrecv, obsent, ocrecv, obclosed, opolls, oans>>
\* C12: a call on the session is answered.  kind in {"data","poll","close"}.  A poll answered 200 delivers `count`
\* messages the backend sent and no other poll delivered (which ones, and that a single poller gets them in order,
\* is checked by the observer).  A poll that reports the end of the session (400) comes either with / after a
\* close call, or - when the backend closed - only after everything the backend had sent was delivered, unless
\* another poll is in flight at that moment (it may be carrying the rest).
OAnswer(s, kind, status, count) ==
  /\ OkStatus(status)
  /\ IF kind = "poll" /\ status = 200
       THEN /\ count >= 1 /\ ocrecv[s] + count <= obsent[s]
            /\ ocrecv' = [ocrecv EXCEPT ![s] = @ + count]
       ELSE UNCHANGED ocrecv
  /\ (kind = "poll" => opolls[s] >= 1)
  /\ opolls' = IF kind = "poll" THEN [opolls EXCEPT ![s] = @ - 1] ELSE opolls
  /\ (kind = "poll" /\ status = 400 => \/ oclosing[s] \/ osess[s] = "closed"
                                        \/ (obclosed[s] /\ (ocrecv[s] = obsent[s] \/ opolls[s] > 1)))
  /\ (kind = "data" /\ status = 200 => osess[s] # "none")
  /\ osess' = IF (kind = "close" /\ status = 200) \/ (kind = "poll" /\ status = 400)
                THEN [osess EXCEPT ![s] = "closed"] ELSE osess
  /\ oans' = <<kind, status>>
  /\ UNCHANGED <<oclosing, oann, obrecv, obsent, obclosed, osaw>>

ONext == \E s \in Sess :
           \/ OOpened(s) \/ OCloseBegin(s) \/ OPollBegin(s) \/ OBackendClose(s) \/ OBackendSawClose(s)
           \/ \E n \in 1..8 : OBackendRecv(s, n) \/ OBackendSend(s, n) \/ ODataBegin(s, n, n)
           \/ \E k \in {"data", "poll", "close"}, st \in {200, 400, 408, 500}, c \in 0..8 : OAnswer(s, k, st, c)
OSpec == OInitWith("open") /\ [][ONext]_ovars

\* observable safety: both directions are prefixes
Prefixes == \A s \in Sess : obrecv[s] <= oann[s] /\ ocrecv[s] <= obsent[s]
\* judgement at the end of a quiescent scenario: everything handed over was delivered unless the backend went
\* away, and a session closed by the client reached the backend
Settled == /\ \A s \in Sess : osess[s] # "none" => (obrecv[s] = oann[s] \/ obclosed[s])
           /\ \A s \in Sess : (osess[s] = "closed" /\ ~obclosed[s]) => osaw[s]
=============================================================================
