-------------------------- MODULE AgentDedupBatches --------------------------
(* The list replies the adversarial lister may send (shared by the model and *)
(* by the generator of replay histories).                                    *)
EXTENDS Naturals, Sequences
CONSTANTS IdPool, MaxBatch, MaxLists
Batches == UNION {[1..n -> IdPool] : n \in 1..MaxBatch}
Histories == UNION {[1..n -> Batches] : n \in 1..MaxLists}
=============================================================================
