-------------------------- MODULE AgentDedupBatches --------------------------
(* The list replies the adversarial lister may send (shared by the model and *)
(* by the generator of replay histories).                                    *)
EXTENDS Naturals, Sequences
CONSTANTS IdPool, MaxBatch, MaxLists
Batches == UNION {[1..n -> IdPool] : n \in 1..MaxBatch}
\* a history is a sequence of list calls, each answered with a batch or failing (the empty sequence stands for a failed call)
Histories == UNION {[1..n -> Batches \cup {<<>>}] : n \in 1..MaxLists}
=============================================================================
