---------------------------- MODULE AppRelayTrace ----------------------------
(* Concurrent client requests and agent calls against the real App Engine app:   *)
(* the fake App Engine API logs every store operation at its linearisation point *)
(* (under the store's lock), the harness logs what clients and agents observed;  *)
(* together they must be a behaviour of AppRelay.                                *)
EXTENDS TraceCommon, FiniteSets

TReq == FieldSet("Routed", "r")
TBackend == FieldSet("Routed", "b")
RoutedTo(r) == Trace[CHOOSE k \in 1..TLen : Trace[k].ev = "Routed" /\ Trace[k].r = r].b
TBackendOf == [r \in TReq |-> RoutedTo(r)]

VARIABLES cst, stored, completed, response, listed, fetched, resp, got, old, seen, l
A == INSTANCE AppRelay WITH Req <- TReq, Backend <- TBackend, BackendOf <- TBackendOf, SharedResponseKey <- FALSE, ShortRetention <- FALSE, ResponseStartTimeUnset <- TRUE
av == <<cst, stored, completed, response, listed, fetched, resp, got, old, seen>>
Is(e) == l <= TLen /\ Trace[l].ev = e
E == Trace[l]
Step == l' = l + 1 /\ Mark(l)
Same == UNCHANGED av

TInit == A!InitWith(TRUE) /\ l = 1 /\ HWMInit     \* (the harness marks every backend as seen before a round)
TReset == Is("Reset") /\ Same
               /\ Step
TRouted == Is("Routed") /\ Same
               /\ Step
\* datastore Put of a request entity: the client's store (Completed = false) or the agent's completion mark
TPutReq == Is("DsPutReq") /\ E.r \in TReq /\ E.b = TBackendOf[E.r]
           /\ (IF E.completed THEN A!MarkCompleted(E.r) ELSE A!ClientStore(E.r))
               /\ Step
\* the response becomes readable: memcache Set (small responses) or datastore Put, whichever comes first
TRespVisible == Is("RespVisible") /\ E.r \in TReq
           /\ (IF resp[E.r] \in {"posting", "marked"} THEN A!WriteResponse(E.r) ELSE (resp[E.r] \in {"written", "done"} /\ Same))
               /\ Step
\* the pending query of an agent's list call, with exactly the IDs it returned
TQuery == Is("DsQueryPending") /\ E.b \in TBackend
           /\ (IF E.ids = <<>> THEN Same ELSE A!AgentList(E.b, {E.ids[k] : k \in DOMAIN E.ids}))
               /\ Step
TFetch == Is("AgentFetched") /\ E.same /\ A!AgentFetch(E.b, E.r)
               /\ Step
TRespondBegin == Is("RespondBegin") /\ A!RespondStart(E.b, E.r)
               /\ Step
TClientRecv == Is("ClientGot") /\ A!ClientPoll(E.r) /\ got'[E.r] = E.tok
               /\ Step
TOther == (Is("ClientSent") \/ Is("RespondEnd")) /\ Same
               /\ Step
\* at the end every client has been answered with its own response and nothing is pending
TFinal == Is("RelayFinal") /\ Same /\ (\A r \in TReq : cst[r] # "new" => (cst[r] = "done" /\ got[r] = r /\ resp[r] = "done"))
               /\ Step
\* many overlapping exchanges without per-operation events: every client got the answer to its own request
TStress == Is("RelayStress") /\ Same /\ E.requests > 0 /\ E.wrong = 0 /\ E.unanswered = 0
               /\ Step
\* retention replayed on the real app (beyond the listed properties; reported, not a verdict about C19)
TCron == /\ \/ (Is("CronRun") /\ E.status = 200)
            \/ (Is("CronLive") /\ E.ok)
            \/ (Is("CronCase") /\ A!CronOK(E.old, E.seen, E.had_req, E.had_resp, E.had_parts, E.req_survives, E.resp_survives, E.parts_survive))
         /\ Same
               /\ Step
TNext == TCron \/ TStress \/ TReset \/ TRouted \/ TPutReq \/ TRespVisible \/ TQuery \/ TFetch \/ TRespondBegin \/ TClientRecv \/ TOther \/ TFinal
TSpec == TInit /\ [][TNext]_<<av, l>>

FetchIsRequest == A!FetchIsRequest
ResponseIsOwn == A!ResponseIsOwn
OwnBackendOnly == A!OwnBackendOnly
=============================================================================
