\* a poll that drains by count: two polls in flight over-count the backlog; one of them blocks for ever
\* (Answered fails) or, once the backend has closed, receives nil and panics (NoPanic fails)
CONSTANTS Q = 2 NClient = 1 NServer = 2 Calls = {k1, k2} CloseClosesChan = FALSE DrainByCount = TRUE SweepDone = FALSE
SPECIFICATION Spec
CHECK_DEADLOCK FALSE
INVARIANTS NoPanic
