---------------------------- MODULE TraceCommon ----------------------------
(* Shared plumbing of all trace specifications: the recorded NDJSON trace,   *)
(* the position variable and the high-water-mark acceptance condition.       *)
EXTENDS Naturals, Sequences, TLC, Json, IOUtils

Trace == ndJsonDeserialize(IOEnv.VERIF_TRACE)
TLen == Len(Trace)

Has(e, f) == f \in DOMAIN e

\* set of the values of field f over all events named ev
FieldSet(ev, f) == {Trace[k][f] : k \in {j \in 1..TLen : Trace[j].ev = ev /\ f \in DOMAIN Trace[j]}}

\* TLCGet(1) is the highest trace index consumed so far (needs -workers 1)
Mark(l) == TLCSet(1, IF TLCGet(1) < l THEN l ELSE TLCGet(1))

HWMInit == TLCSet(1, 0)

\* POSTCONDITION: every event of the trace was consumed by some behaviour
Accepted == /\ PrintT(<<"HWM", TLCGet(1)>>)
            /\ TLCGet(1) >= TLen
=============================================================================
