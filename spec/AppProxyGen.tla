----------------------------- MODULE AppProxyGen -----------------------------
(* Case classes for the App Engine proxy enumerated by TLC: access-control       *)
(* combinations (C17), routing domains (C18), payload sizes and failing-write    *)
(* subsets (C19).                                                                *)
EXTENDS Naturals, Sequences, SequencesExt, FiniteSets, Json, IOUtils, TLC
Auth == [endpoint : {"pending", "request", "response"}, identity : {"absent", "wrong", "right", "other-backends-agent", "end-user",
                    \* near misses of the registered identity: it has to EQUAL the registered one
                    "near-prefix", "near-iam-prefix", "near-case", "near-suffix", "near-domain", "near-subaddress"},
         backend : {"own", "other", "unknown", "missing"}, rid : {"own", "other", "unknown", "none"}]
GPrefixes == {"", "/", "/a", "/a/", "/a/b", "/ab", "/b"}
GPaths == {"/", "/a", "/a/b", "/a/b/c", "/ab", "/abc", "/b", "/c"}
EndUsers == {"u1", "u2", "allUsers"}
Liveness == {"never", "stale", "borderline-stale", "borderline-fresh", "fresh"}
GSizes == {0, 1, 1000, 999999, 1000000, 1000001, 1999999, 2000000, 2000001, 3500000}
FailSets == SUBSET {"response", "request"}
VARIABLE x
GInit == x = 0
GNext == x' = x
ASSUME JsonSerialize(IOEnv.VERIF_OUT, [auth |-> SetToSeq(Auth), prefixes |-> SetToSeq(GPrefixes), paths |-> SetToSeq(GPaths), endusers |-> SetToSeq(EndUsers),
                                       liveness |-> SetToSeq(Liveness), sizes |-> SetToSeq(GSizes), failsets |-> SetToSeq({SetToSeq(s) : s \in FailSets})])
=============================================================================
