\* liveness under fairness: every request not hit by a fault is answered, the agent keeps polling
CONSTANTS
  Req = {r1, r2}
  IdPool = {i1, i2}
  Poller = {p1}
  AgentPoller = {p1}
  LruCap = 2
  MaxFaults = 1
  Victims = {r1}
  UniqueIds = TRUE
  CleanCut = FALSE
SPECIFICATION Spec
CHECK_DEADLOCK FALSE
PROPERTIES Answered KeepsPolling ExactlyOnce
