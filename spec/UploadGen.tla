------------------------------ MODULE UploadGen ------------------------------
(* Fault scripts for the upload endpoint, enumerated by TLC: per attempt either *)
(* an acknowledgement or a failure (kind x position).  A script ends with the   *)
(* first "ack" or after MaxAttempts failures - exactly the environment choices  *)
(* ProxyFail / ProxyAck of Upload.tla, with concrete kinds and positions.       *)
EXTENDS Naturals, Sequences, SequencesExt, Json, IOUtils, TLC
CONSTANTS MaxAttempts
Kinds == {"5xx-keep", "5xx-close", "reset", "close",
          "307-keep", "308-keep"}    \* the endpoint (or something in front of it) redirects the upload: a failed attempt like any other
Pos   == {"pre", "head", "body0", "early", "limit", "past", "end"}
Fails == {<<k, p>> : k \in Kinds, p \in Pos}
Ack   == <<"ack", "end">>
FailSeqs(n) == [1..n -> Fails]
Scripts == {<<Ack>>} \cup UNION {{Append(f, Ack) : f \in FailSeqs(n)} : n \in 1..(MaxAttempts - 1)}
                     \cup FailSeqs(MaxAttempts)
VARIABLE x
GInit == x = 0
GNext == x' = x
ASSUME JsonSerialize(IOEnv.VERIF_OUT, [scripts |-> SetToSeq(Scripts)])
=============================================================================
