\* a watchdog that is not disarmed between writes closes the pipe while the handler is quiet: the lock-step
\* producer's later pieces are never observed by the proxy
CONSTANTS M = 3 N = 2 MaxAttempts = 3 MaxFail = 0 StaleReader = FALSE LockStep = TRUE BufferAll = FALSE Timers = {"idle-cut"}
SPECIFICATION Spec
CHECK_DEADLOCK FALSE
PROPERTIES Streams
