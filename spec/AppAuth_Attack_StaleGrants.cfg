CONSTANTS StaleGrants = TRUE HistLen = 7
SPECIFICATION HSpec
CHECK_DEADLOCK FALSE
INVARIANTS GrantedOnlyToRegistered
