\* deviation: the agent forgets what it has seen when a list call fails -> an ID listed before and after the failure is forwarded twice
CONSTANTS IdPool = {a, b} LruCap = 2 MaxBatch = 2 MaxLists = 3 NoDedup = FALSE ForgetOnFailure = TRUE
INIT Init
NEXT Next
CHECK_DEADLOCK FALSE
INVARIANTS AtMostOnce
