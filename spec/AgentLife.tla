------------------------------ MODULE AgentLife ------------------------------
(***************************************************************************)
(* Agent process lifecycle (agent/agent.go:203-359) and poll back-off      *)
(* (agent/utils/utils.go:628-645).  C08, C20.                              *)
(*                                                                         *)
(* Back-off: Nominal/Lo/Hi give the delay bounds in microseconds for a     *)
(* retry count n; "Big" stands for every n >= 64 (2^32, 2^63, 2^64-1, ...).*)
(* Lifecycle: health gating, consecutive-failure counting, the poll loop   *)
(* as PollCheck / ListStart / ListReturn, signal handling with a grace     *)
(* period on a discrete clock, one in-flight request whose worker is       *)
(* independent of the polling context.                                     *)
(***************************************************************************)
EXTENDS Integers, Sequences, FiniteSets, TLC

(* ---------------- back-off (C08) ---------------- *)
CONSTANT ShiftUnguarded     \* deviation: 1 << n evaluated for every n (no cap check)
MaxShiftN == 11             \* uint(log2(3 s / 1 ms)) = 11
CapUs == 3000000
Pow2(n) == IF n = 0 THEN 1 ELSE IF n = 1 THEN 2 ELSE IF n = 2 THEN 4 ELSE IF n = 3 THEN 8 ELSE IF n = 4 THEN 16
           ELSE IF n = 5 THEN 32 ELSE IF n = 6 THEN 64 ELSE IF n = 7 THEN 128 ELSE IF n = 8 THEN 256
           ELSE IF n = 9 THEN 512 ELSE IF n = 10 THEN 1024 ELSE IF n = 11 THEN 2048 ELSE 4096
\* what the guarded code computes; n = -1 encodes "Big" (any count >= 64)
Nominal(n) == IF n = -1 \/ n > MaxShiftN THEN CapUs ELSE Pow2(n) * 1000
\* what an unguarded shift computes in 64-bit arithmetic: 0 for n >= 64, negative/huge in between
Unguarded(n) == IF n = -1 THEN 0 ELSE IF n > MaxShiftN THEN CapUs + 1000000000 ELSE Pow2(n) * 1000
Target(n) == IF ShiftUnguarded THEN Unguarded(n) ELSE Nominal(n)
Lo(n) == (Nominal(n) * 9) \div 10
Hi(n) == (Nominal(n) * 11) \div 10 + 1
RetryCounts == (0..70) \cup {-1}
\* lemmas about the reference bounds themselves
BoundsPositive == \A n \in RetryCounts : 0 < Lo(n) /\ Lo(n) <= Hi(n)
BoundsCapped == \A n \in RetryCounts : Hi(n) <= 3300001
BoundsDouble == \A n \in 0..10 : Nominal(n + 1) = 2 * Nominal(n)
BoundsStart == Nominal(0) = 1000
BoundsMonotone == \A n \in 0..69 : Nominal(n) <= Nominal(n + 1)
\* the code's target delay lies within the reference bounds for every retry count
TargetWithinBounds == \A n \in RetryCounts : Lo(n) <= Target(n) /\ Target(n) <= Hi(n)

(* ---------------- lifecycle (C20) ---------------- *)
CONSTANTS Threshold,        \* --health-check-unhealthy-threshold
          HealthEnabled,    \* health checks configured
          Grace,            \* graceful shutdown period in clock ticks (0 = disabled)
          MaxChecks,        \* bound on the number of health checks explored
          MaxLists,         \* bound on the number of list calls explored
          Latency,          \* backend latency of the in-flight request in ticks
          PollBeforeHealthy, NoReset, CancelWorkers   \* deviation switches

VARIABLES phase,     \* "waitHealthy" | "polling" | "draining" | "exited"
          checks,    \* health checks performed so far
          bad,       \* the agent's counter of failed periodic checks
          streak,    \* (history) failed periodic checks since the last passing one
          passed,    \* some health check has passed
          loop,      \* poll loop: "check" | "listing" | "stopped"
          lists,     \* list calls started
          listsAfterCancel,
          cancelled, \* polling context cancelled
          signalled,
          clock,     \* ticks since the signal
          req,       \* in-flight request: "none" | "listed" | "fetched" | "backend" | "uploading" | "answered" | "lost"
          reqAt,     \* ticks the backend still needs
          fwdBeforeSignal,
          retry,     \* consecutive list failures (C08 loop)
          slept,     \* the loop slept after the last failure
          exitCode

lvars == <<phase, checks, bad, streak, passed, loop, lists, listsAfterCancel, cancelled, signalled, clock, req, reqAt,
           fwdBeforeSignal, retry, slept, exitCode>>

LInit == /\ phase = IF HealthEnabled THEN "waitHealthy" ELSE "polling"
         /\ checks = 0 /\ bad = 0 /\ streak = 0 /\ passed = FALSE /\ loop = "check" /\ lists = 0 /\ listsAfterCancel = 0
         /\ cancelled = FALSE /\ signalled = FALSE /\ clock = 0 /\ req = "none" /\ reqAt = 0
         /\ fwdBeforeSignal = FALSE /\ retry = 0 /\ slept = TRUE /\ exitCode = -1

Alive == phase # "exited"

StartupCheck(ok) ==        \* waitForHealthy: blocks until the first passing check
  /\ phase = "waitHealthy" /\ checks < MaxChecks
  /\ checks' = checks + 1
  /\ IF ok THEN phase' = "polling" /\ passed' = TRUE ELSE UNCHANGED <<phase, passed>>
  /\ UNCHANGED <<bad, streak, loop, lists, listsAfterCancel, cancelled, signalled, clock, req, reqAt, fwdBeforeSignal, retry, slept, exitCode>>

EarlyPolling ==            \* deviation: polling starts before a health check has passed
  /\ PollBeforeHealthy /\ phase = "waitHealthy"
  /\ phase' = "polling"
  /\ UNCHANGED <<checks, bad, streak, passed, loop, lists, listsAfterCancel, cancelled, signalled, clock, req, reqAt, fwdBeforeSignal, retry, slept, exitCode>>

PeriodicCheck(ok) ==       \* runHealthChecks: one tick of the ticker
  /\ HealthEnabled /\ phase \in {"polling", "draining"} /\ checks < MaxChecks
  /\ checks' = checks + 1
  /\ LET b == IF ok THEN (IF NoReset THEN bad ELSE 0) ELSE bad + 1 IN
       /\ bad' = b
       /\ streak' = IF ok THEN 0 ELSE streak + 1
       /\ IF b >= Threshold THEN phase' = "exited" /\ exitCode' = 1 ELSE UNCHANGED <<phase, exitCode>>
  /\ passed' = (passed \/ ok)
  /\ UNCHANGED <<loop, lists, listsAfterCancel, cancelled, signalled, clock, req, reqAt, fwdBeforeSignal, retry, slept>>

PollCheck ==               \* select on pollingCtx.Done() at the top of the loop
  /\ Alive /\ phase \in {"polling", "draining"} /\ loop = "check" /\ slept /\ lists < MaxLists
  /\ loop' = IF cancelled THEN "stopped" ELSE "listing"
  /\ lists' = IF cancelled THEN lists ELSE lists + 1
  /\ listsAfterCancel' = listsAfterCancel          \* the check saw no cancellation: this list call is "the one in flight"
  /\ UNCHANGED <<phase, checks, bad, streak, passed, cancelled, signalled, clock, req, reqAt, fwdBeforeSignal, retry, slept, exitCode>>

ListReturn(ok, withReq) == \* the list call returns: failure -> back off; success -> reset, spawn workers
  /\ Alive /\ loop = "listing"
  /\ loop' = "check"
  /\ IF ok THEN /\ retry' = 0 /\ slept' = TRUE
                /\ req' = IF withReq /\ req = "none" THEN "listed" ELSE req
           ELSE /\ retry' = retry + 1 /\ slept' = FALSE /\ UNCHANGED req
  /\ UNCHANGED <<phase, checks, bad, streak, passed, lists, listsAfterCancel, cancelled, signalled, clock, reqAt, fwdBeforeSignal, exitCode>>

Sleep ==                   \* time.Sleep(ExponentialBackoffDuration(retry)) after a failed list call
  /\ Alive /\ ~slept /\ slept' = TRUE
  /\ UNCHANGED <<phase, checks, bad, streak, passed, loop, lists, listsAfterCancel, cancelled, signalled, clock, req, reqAt, fwdBeforeSignal, retry, exitCode>>

WorkerEnabled == (CancelWorkers => ~cancelled) /\ (req \in {"listed", "fetched", "uploading"} \/ (req = "backend" /\ reqAt = 0))

Worker ==                  \* processOneRequest: independent of the polling context
  /\ Alive /\ (CancelWorkers => ~cancelled)
  /\ \/ req = "listed" /\ req' = "fetched" /\ UNCHANGED <<reqAt, fwdBeforeSignal>>
     \/ req = "fetched" /\ req' = "backend" /\ reqAt' = Latency /\ fwdBeforeSignal' = ~signalled
     \/ req = "backend" /\ reqAt = 0 /\ req' = "uploading" /\ UNCHANGED <<reqAt, fwdBeforeSignal>>
     \/ req = "uploading" /\ req' = "answered" /\ UNCHANGED <<reqAt, fwdBeforeSignal>>
  /\ UNCHANGED <<phase, checks, bad, streak, passed, loop, lists, listsAfterCancel, cancelled, signalled, clock, retry, slept, exitCode>>

BackendTick ==             \* backend makes progress without the clock of the signal handler (before the signal)
  /\ Alive /\ ~signalled /\ req = "backend" /\ reqAt > 0
  /\ reqAt' = reqAt - 1
  /\ UNCHANGED <<phase, checks, bad, streak, passed, loop, lists, listsAfterCancel, cancelled, signalled, clock, req, fwdBeforeSignal, retry, slept, exitCode>>

Signal ==                  \* SIGINT / SIGTERM reaches main
  /\ Alive /\ ~signalled
  /\ signalled' = TRUE
  /\ IF Grace > 0 /\ phase # "waitHealthy"     \* (no handler is installed before the first healthy check)
       THEN /\ phase' = "draining" /\ UNCHANGED exitCode
       ELSE /\ phase' = "exited" /\ exitCode' = 0                 \* main returns / default signal action
  /\ UNCHANGED <<checks, bad, streak, passed, loop, lists, listsAfterCancel, cancelled, clock, req, reqAt, fwdBeforeSignal, retry, slept>>

CancelPolling ==           \* requestPollingCancel(): a separate step after the signal was received
  /\ phase = "draining" /\ ~cancelled
  /\ cancelled' = TRUE
  /\ UNCHANGED <<phase, checks, bad, streak, passed, loop, lists, listsAfterCancel, signalled, clock, req, reqAt, fwdBeforeSignal, retry, slept, exitCode>>

Tick ==                    \* one tick of the grace period; the backend works in the same time
  /\ phase = "draining" /\ cancelled /\ clock < Grace /\ ~WorkerEnabled
  /\ clock' = clock + 1
  /\ reqAt' = IF req = "backend" /\ reqAt > 0 THEN reqAt - 1 ELSE reqAt
  /\ UNCHANGED <<phase, checks, bad, streak, passed, loop, lists, listsAfterCancel, cancelled, signalled, req, fwdBeforeSignal, retry, slept, exitCode>>

GraceEnd ==                \* log.Fatal after the sleep: in-flight work that has not finished is lost
  /\ phase = "draining" /\ clock = Grace
  /\ ~WorkerEnabled            \* worker steps take no time compared with a tick: they happen first
  /\ phase' = "exited" /\ exitCode' = 1
  /\ req' = IF req \in {"listed", "fetched", "backend", "uploading"} THEN "lost" ELSE req
  /\ UNCHANGED <<checks, bad, streak, passed, loop, lists, listsAfterCancel, cancelled, signalled, clock, reqAt, fwdBeforeSignal, retry, slept>>

LNext == (\E ok \in BOOLEAN : StartupCheck(ok) \/ PeriodicCheck(ok)) \/ EarlyPolling \/ PollCheck
         \/ (\E ok, wr \in BOOLEAN : ListReturn(ok, wr)) \/ Sleep \/ Worker \/ BackendTick \/ Signal \/ CancelPolling \/ Tick \/ GraceEnd
LSpec == LInit /\ [][LNext]_lvars

\* C20 -------------------------------------------------------------------
NoListBeforeHealthy == (HealthEnabled /\ lists > 0) => passed
ExitAtThreshold == (HealthEnabled /\ streak >= Threshold) => phase = "exited"
\* the agent gives up on its own only after Threshold CONSECUTIVE failures (a pass resets the count)
ResetOnPass == (phase = "exited" /\ ~signalled) => streak >= Threshold
BadBounded == bad <= Threshold
\* a request forwarded to the backend before the signal whose backend finishes within the grace period is answered
InFlightAnswered == (phase = "exited" /\ signalled /\ Grace > 0 /\ fwdBeforeSignal /\ Latency < Grace) => req # "lost"
\* after the cancellation is visible to the loop no further list call starts
NoNewPolls == [][(cancelled /\ loop = "check") => lists' = lists]_lvars
\* C08 loop --------------------------------------------------------------
NoBusyLoop == [][(lists' = lists + 1) => slept]_lvars
ResetOnSuccess == [][(loop = "listing" /\ loop' = "check" /\ retry' # retry + 1) => retry' = 0]_lvars
=============================================================================
