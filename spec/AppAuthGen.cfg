CONSTANTS StaleGrants = FALSE HistLen = 4
INIT HInit
NEXT HNext
CHECK_DEADLOCK FALSE
