CONSTANTS Users = {"u1", "u2"} Urls = {"a", "b"} MaxSteps = 4 CacheHead = FALSE CacheFirst = FALSE
SPECIFICATION SpecH
PROPERTIES OwnOrCachedGet
CHECK_DEADLOCK FALSE
