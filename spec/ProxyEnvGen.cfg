CONSTANT MaxLen = 7
INIT GInit
NEXT GNext
