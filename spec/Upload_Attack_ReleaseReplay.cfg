\* the replay buffer is released after a while and a released buffer looks like a fresh one: a retry replays nothing,
\* the proxy acknowledges an attempt that lacks the beginning of the response
CONSTANTS M = 3 N = 3 MaxAttempts = 3 MaxFail = 2 StaleReader = FALSE LockStep = FALSE BufferAll = FALSE Timers = {"release-replay"}
SPECIFICATION Spec
CHECK_DEADLOCK FALSE
INVARIANTS AckedIntegrity
