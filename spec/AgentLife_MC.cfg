CONSTANTS ShiftUnguarded = FALSE Threshold = 2 HealthEnabled = TRUE Grace = 2 MaxChecks = 5 MaxLists = 4 Latency = 1
          PollBeforeHealthy = FALSE NoReset = FALSE CancelWorkers = FALSE
SPECIFICATION LSpec
CHECK_DEADLOCK FALSE
INVARIANTS NoListBeforeHealthy ExitAtThreshold ResetOnPass BadBounded InFlightAnswered BoundsPositive BoundsCapped BoundsDouble BoundsStart BoundsMonotone TargetWithinBounds
PROPERTIES NoNewPolls NoBusyLoop ResetOnSuccess
