----------------------------- MODULE HttpMsgGen -----------------------------
(* Abstract input classes of C02 / C03 / C09.  TLC writes the class domains   *)
(* and the number of class combinations; the orchestrator draws an each-class *)
(* sweep plus a seeded pairwise sample from the product, the harness fills   *)
(* every class with concrete bytes.                                          *)
EXTENDS Naturals, Sequences, SequencesExt, FiniteSets, Json, IOUtils, TLC

ReqDom == [
  method |-> {"GET", "POST", "PUT", "DELETE", "HEAD", "OPTIONS", "PATCH", "PROPFIND", "REPORT"},
  path   |-> {"plain", "pct2F", "pct20", "utf8", "dslash", "dots", "long", "semicolon-path", "trailing-slash", "pct-lowerhex", "colon-at"},
  query  |-> {"none", "empty", "simple", "repeated", "escaped", "plus", "valueless", "qmark-inside", "at-colon-slash"},
  host   |-> {"plain", "withport", "ip", "ipv6", "uppercase"},
  h1     |-> {"none", "custom", "custom2", "custom3", "emptyval", "longval", "cookie", "cookie2", "authorization",
              "hop-keep-alive", "hop-proxy-authorization", "hop-te", "hop-upgrade", "hop-proxy-authenticate", "hop-connection",
              "mixedcase", "accept-encoding", "user-agent", "accept", "content-type", "range", "many", "forwarded",
              \* body media types that net/http treats specially, and end-to-end names that look like hop-by-hop ones
              "ct-form", "ct-form-charset", "ct-multipart", "ct-json", "hop-lookalike"},
  h2     |-> {"none", "custom", "custom2", "cookie", "hop-te", "hop-keep-alive", "if-none-match", "origin"},
  body   |-> {"none", "len0", "len1", "len-small", "len-4095", "len-4096", "len-4097", "len-32768", "len-32769", "len-100k",
              "chunked-small", "chunked-multi", "chunked-1byte-first", "chunked-64k-plus-1", "chunked-big", "big"} ]

RespDom == [
  status  |-> {200, 201, 202, 204, 206, 207, 301, 302, 303, 304, 307, 308, 400, 401, 403, 404, 405, 409, 410, 418, 429, 451, 500, 501, 502, 503, 504, 599},
  method  |-> {"GET", "HEAD", "POST"},
  h1      |-> {"none", "custom", "custom2", "setcookie2", "setcookie3", "content-type", "cache-control", "location",
               "www-authenticate", "longval", "hop-connection", "hop-keep-alive", "hop-proxy-authenticate", "hop-upgrade", "etag", "vary",
               "date", "server", "link", "via", "age", "emptyval", "mixedcase"},
  h2      |-> {"none", "custom", "setcookie2", "hop-keep-alive", "content-encoding", "x-frame-options", "hop-lookalike"},
  framing |-> {"length", "chunked", "close"},
  body    |-> {"empty", "len1", "one1-then-rest", "single-small", "single-4096", "multi", "len-32769", "len-100k", "big"},
  declared   |-> {0, 1, 2, 3, 9},     \* (nine: more names in one Trailer value than a small fixed limit would hold)
  undeclared |-> {0, 1, 2},
  interim |-> {"none", "103", "103x2", "100", "102"} ]

IdDom == [
  fwd    |-> BOOLEAN,
  strip  |-> BOOLEAN,
  forged |-> {"none", "canonical", "lower", "mixed", "two", "canonical+lower", "asserted-first", "asserted-last", "empty-first", "asserted-only"},
  auth   |-> {"none", "basic", "bearer", "two", "lower"},
  kind   |-> {"get", "post", "shim-open", "shim-open-userinfo"},   \* (userinfo: the websocket URL itself carries "user:password@")
  asserted |-> {"email", "empty"},       \* what the proxy asserts: an identity, or none (the stand-alone proxy never has one)
  shim   |-> BOOLEAN,
  sessions |-> BOOLEAN ]

Card(dom) == LET ks == DOMAIN dom IN ks
Size(dom) == [k \in DOMAIN dom |-> Cardinality(dom[k])]
AsSeq(dom) == [k \in DOMAIN dom |-> SetToSeq(dom[k])]
VARIABLE x
GInit == x = 0
GNext == x' = x
ASSUME JsonSerialize(IOEnv.VERIF_OUT, [req |-> AsSeq(ReqDom), resp |-> AsSeq(RespDom), id |-> AsSeq(IdDom)])
=============================================================================
