------------------------------ MODULE UploadObs ------------------------------
(* Observable behaviour of the response upload (postResponseWithRetries,     *)
(* agent/utils/utils.go:357-384) as seen by the proxy endpoint and by the     *)
(* caller of Close: attempts, their outcome, whether an acknowledged attempt *)
(* carried the complete serialised response, and whether a retry was still   *)
(* allowed.  Upload.tla refines this module (checked by TLC); recorded runs   *)
(* of the real forwarder are validated against it (UploadTrace).             *)
EXTENDS Naturals, FiniteSets
CONSTANT MaxAttempts
Att == 1..MaxAttempts
VARIABLES ocur,    \* current attempt
          oreply,  \* [Att -> "none" | "fail" | "ack"]
          ook,     \* [Att -> BOOLEAN] the proxy has received exactly the full stream on that attempt
          opost,   \* "doing" | "ok" | "fail"
          oseek    \* the replay buffer has not overflowed: Seek(0) still succeeds
ovars == <<ocur, oreply, ook, opost, oseek>>

OInit == /\ ocur = 1 /\ oreply = [a \in Att |-> "none"] /\ ook \in [Att -> BOOLEAN]
         /\ opost = "doing" /\ oseek = TRUE

OFail(a) == /\ a = ocur /\ opost = "doing" /\ oreply[a] = "none"
            /\ oreply' = [oreply EXCEPT ![a] = "fail"]
            /\ UNCHANGED <<ocur, ook, opost, oseek>>
OAck(a) ==  /\ a = ocur /\ opost = "doing" /\ oreply[a] = "none"
            /\ ook[a]                         \* AckedIntegrity: only a complete, uncorrupted stream is acknowledged
            /\ oreply' = [oreply EXCEPT ![a] = "ack"] /\ opost' = "ok"
            /\ UNCHANGED <<ocur, ook, oseek>>
OWire ==    /\ ook' \in [Att -> BOOLEAN]      \* bytes arrive: completeness of unacknowledged attempts may change
            /\ \A a \in Att : oreply[a] = "ack" => ook'[a] = ook[a]
            /\ UNCHANGED <<ocur, oreply, opost, oseek>>
OOverflow == /\ oseek /\ oseek' = FALSE /\ UNCHANGED <<ocur, oreply, ook, opost>>
ORetry ==   /\ opost = "doing" /\ oreply[ocur] = "fail"
            /\ IF oseek /\ ocur < MaxAttempts
                 THEN /\ ocur' = ocur + 1 /\ UNCHANGED opost
                 ELSE /\ opost' = "fail" /\ UNCHANGED ocur
            /\ UNCHANGED <<oreply, ook, oseek>>
ONext == (\E a \in Att : OFail(a) \/ OAck(a)) \/ OWire \/ OOverflow \/ ORetry
       \/ (OWire /\ TRUE)
OSpec == OInit /\ [][ONext \/ (ORetry /\ TRUE)]_ovars

AckedIntegrity == \A a \in Att : oreply[a] = "ack" => ook[a]
AtMostThree == ocur <= MaxAttempts
RetryOnlyIfReplayable == [][ocur' # ocur => (oseek /\ oreply[ocur] = "fail")]_ovars
=============================================================================
