INIT Init
NEXT Next
