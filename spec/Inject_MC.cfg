INIT Init
NEXT Next
INVARIANTS Lemmas
