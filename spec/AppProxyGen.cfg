INIT GInit
NEXT GNext
