\* attack: newID may repeat an ID -> Correlation / OneClientPerResponse must break
CONSTANTS
  Req = {r1, r2}
  IdPool = {i1, i2}
  Poller = {p1}
  AgentPoller = {p1}
  LruCap = 2
  MaxFaults = 0
  Victims = {}
  UniqueIds = FALSE
  CleanCut = FALSE
INIT Init
NEXT Next
CHECK_DEADLOCK FALSE
INVARIANTS Correlation OneClientPerResponse HandOffOnce
