---------------------------- MODULE TcpBridgeGen ----------------------------
(* Connection histories for the bridge: who closes first, with how much data   *)
(* in flight in either direction, and the write/read size classes.             *)
EXTENDS Naturals, Sequences, SequencesExt, FiniteSets, Json, IOUtils, TLC
Dom == [ closer |-> {"client", "server", "client-then-server", "server-then-client", "client-abort", "server-abort",
                        "client-half-reply", "server-half-reply"},
         up     |-> {"none", "small", "in-flight-large"},
         down   |-> {"none", "small", "in-flight-large"},
         wseg   |-> {"1", "small", "1024", "1025", "64k"},
         rbuf   |-> {"1", "7", "1024", "4096", "64k"},
         pace   |-> {"prompt", "slow-reader"} ]        \* a peer that reads slowly keeps data queued in the bridge when closes arrive
\* paces of the quiet stage (not sampled with the others: each costs its quiet period; the harness runs them side
\* by side on one bridge): the reply after a half-close keeps flowing for longer than common time-outs / nothing
\* happens for that long before the close.  Periods: 5.5 s in every run, 31 s and 62 s in the thorough tier.
QuietPaces == {"long-reply", "idle-before-close"}
VARIABLE x
GInit == x = 0
GNext == x' = x
ASSUME JsonSerialize(IOEnv.VERIF_OUT, [k \in DOMAIN Dom |-> SetToSeq(Dom[k])])
=============================================================================
