CONSTANTS ErrSlots = 2
SPECIFICATION MSpec
CHECK_DEADLOCK FALSE
PROPERTIES NoHang
