INIT GInit
NEXT GNext
