\* the code before the fix: an upload that breaks off while the body is copied ends the client's response cleanly
\* exhaustive: 3 requests, 3 ids, agent poller + one foreign poller, one fault on r1
CONSTANTS
  Req = {r1, r2, r3}
  IdPool = {i1, i2, i3}
  Poller = {p1, p2}
  AgentPoller = {p1}
  LruCap = 2
  MaxFaults = 1
  Victims = {r1}
  UniqueIds = TRUE
  CleanCut = TRUE
INIT Init
NEXT Next
CHECK_DEADLOCK FALSE
INVARIANT NoSilentTruncation

