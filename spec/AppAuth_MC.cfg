CONSTANTS StaleGrants = FALSE HistLen = 7
SPECIFICATION HSpec
CHECK_DEADLOCK FALSE
INVARIANTS GrantedOnlyToRegistered
