------------------------------- MODULE Sessions -------------------------------
(***************************************************************************)
(* Agent-side session tracking (agent/sessions/sessions.go), C10.          *)
(* Sessions are identified by the value of the agent's session cookie; the *)
(* cache maps a session ID to a cookie jar (LRU of capacity L).  Cookies   *)
(* are abstract <<name, tag>> pairs; the tag names the session whose       *)
(* response set the cookie, which makes isolation checkable.               *)
(* A request is served in the steps of the code: extract the session ID,   *)
(* look the jar up (creating one if absent), restore cookies, call the     *)
(* backend, and on WriteHeader strip Set-Cookie, issue a session cookie if *)
(* none was presented, look the jar up again and store the new cookies.    *)
(***************************************************************************)
EXTENDS Naturals, Sequences, FiniteSets, TLC

CONSTANTS Client,          \* clients; each keeps the session cookie it was given
          Names,           \* cookie names the backend may set
          L,               \* cache capacity (--session-cookie-cache-limit)
          MaxReq,          \* requests per client
          UnlockedLookup,  \* deviation: cache lookup and insert are unsynchronised separate steps
          StripSetCookie,  \* TRUE (the code): WriteHeader removes the backend's Set-Cookie headers from the client's response
          StripSessionCookie \* TRUE (the code): restoreSession removes the agent's own session cookie before the backend sees the request

NoSid == <<"nosid">>
Sids == {<<"sid", c, k>> : c \in Client, k \in 1..MaxReq}   \* fresh IDs: issued for client c's k-th request

VARIABLES cookie,      \* [Client -> Sids \cup {NoSid}] session cookie the client holds
          sent,        \* [Client -> Nat] requests issued
          lru,         \* sequence of session IDs, most recently used first
          jar,         \* [Sids \cup {NoSid} -> set of <<name, tag>>]   (NoSid: the jar cached under "")
          pc,          \* [Client -> request phase]
          rsid,        \* [Client -> session ID the request in flight works with]
          rjar,        \* [Client -> jar (session ID) found by the request]
          seen,        \* [Client -> set of cookies the backend saw on the request in flight]
          leaked,      \* set of <<client, name>>: backend cookies that reached a client as Set-Cookie
          issued,      \* [Client -> number of session cookies issued to the client]
          fatal        \* the runtime detected an unsynchronised map access
vars == <<cookie, sent, lru, jar, pc, rsid, rjar, seen, leaked, issued, fatal>>

AllSids == Sids \cup {NoSid}
Init == /\ cookie = [c \in Client |-> NoSid] /\ sent = [c \in Client |-> 0] /\ lru = <<>>
        /\ jar = [s \in AllSids |-> {}] /\ pc = [c \in Client |-> <<"idle", {}>>]
        /\ rsid = [c \in Client |-> NoSid] /\ rjar = [c \in Client |-> NoSid] /\ seen = [c \in Client |-> {}]
        /\ leaked = {} /\ issued = [c \in Client |-> 0] /\ fatal = FALSE

InLru(s) == \E k \in 1..Len(lru) : lru[k] = s
Touch(s) == <<s>> \o SelectSeq(lru, LAMBDA x : x # s)
Evicted(l2) == IF Len(l2) > L THEN {l2[k] : k \in (L + 1)..Len(l2)} ELSE {}
Trunc(l2) == IF Len(l2) > L THEN SubSeq(l2, 1, L) ELSE l2
\* some other request is between its unsynchronised lookup and insert
Racing(c) == \E d \in Client \ {c} : pc[d][1] \in {"lookedUp", "lookedUp2"}

Begin(c) ==                  \* ServeHTTP: extractSessionID
  /\ pc[c][1] = "idle" /\ sent[c] < MaxReq
  /\ sent' = [sent EXCEPT ![c] = @ + 1]
  /\ rsid' = [rsid EXCEPT ![c] = cookie[c]]
  /\ pc' = [pc EXCEPT ![c] = <<"begin", {}>>]
  /\ UNCHANGED <<cookie, lru, jar, rjar, seen, leaked, issued, fatal>>

\* cachedCookieJar(sid): hit -> touch; miss -> new empty jar added (oldest evicted, its jar dropped)
Lookup(c, next) ==
  /\ LET s == rsid[c] IN
       IF InLru(s)
         THEN /\ lru' = Touch(s) /\ UNCHANGED jar
         ELSE /\ lru' = Trunc(<<s>> \o lru)
              /\ jar' = [x \in AllSids |-> IF x = s \/ x \in Evicted(<<s>> \o lru) THEN {} ELSE jar[x]]
  /\ rjar' = [rjar EXCEPT ![c] = rsid[c]]
  /\ pc' = [pc EXCEPT ![c] = <<next, {}>>]

CacheGet(c) ==               \* the lookup of ServeHTTP
  /\ pc[c][1] = "begin"
  /\ IF UnlockedLookup
       THEN /\ pc' = [pc EXCEPT ![c] = <<"lookedUp", {}>>]     \* lru.Get outside the mutex ...
            /\ fatal' = (fatal \/ Racing(c))            \* ... races with another request's Get/Add
            /\ UNCHANGED <<lru, jar, rjar>>
       ELSE /\ Lookup(c, "restored") /\ UNCHANGED fatal
  /\ UNCHANGED <<cookie, sent, rsid, seen, leaked, issued>>
CacheAdd(c) ==               \* second half of an unsynchronised lookup
  /\ pc[c][1] = "lookedUp" /\ Lookup(c, "restored")
  /\ UNCHANGED <<cookie, sent, rsid, seen, leaked, issued, fatal>>

Backend(c, sets) ==          \* restoreSession + backend: sees the jar's cookies, answers with Set-Cookie ops
  /\ pc[c][1] = "restored"
  /\ seen' = [seen EXCEPT ![c] = jar[rjar[c]] \cup (IF StripSessionCookie \/ cookie[c] = NoSid THEN {} ELSE {<<"SESSION", cookie[c]>>})]
  /\ pc' = [pc EXCEPT ![c] = <<"header", sets>>]
  /\ UNCHANGED <<cookie, sent, lru, jar, rsid, rjar, leaked, issued, fatal>>

Header(c) ==                 \* sessionResponseWriter.WriteHeader: strip Set-Cookie, issue a session cookie if none
  /\ pc[c][1] = "header"
  /\ IF rsid[c] = NoSid
       THEN /\ rsid' = [rsid EXCEPT ![c] = <<"sid", c, sent[c]>>]
            /\ issued' = [issued EXCEPT ![c] = @ + 1]
            /\ cookie' = [cookie EXCEPT ![c] = <<"sid", c, sent[c]>>]
       ELSE UNCHANGED <<rsid, issued, cookie>>
  /\ pc' = [pc EXCEPT ![c] = <<"store", pc[c][2]>>]
  /\ leaked' = IF StripSetCookie THEN leaked ELSE leaked \cup {<<c, n>> : n \in pc[c][2]}
  /\ UNCHANGED <<sent, lru, jar, rjar, seen, fatal>>

Store(c) ==                  \* second lookup + jar.SetCookies: cookies are tagged with the session they belong to
  /\ pc[c][1] = "store"
  /\ LET s == rsid[c]
         sets == pc[c][2]
         l2 == IF InLru(s) THEN Touch(s) ELSE <<s>> \o lru
         base == [x \in AllSids |-> IF x \in Evicted(l2) \/ (x = s /\ ~InLru(s)) THEN {} ELSE jar[x]]
     IN /\ lru' = Trunc(l2)
        /\ jar' = [base EXCEPT ![s] = {p \in @ : p[1] \notin sets} \cup {<<n, s>> : n \in sets}]
        /\ fatal' = (fatal \/ (UnlockedLookup /\ Racing(c)))
  /\ pc' = [pc EXCEPT ![c] = <<"idle", {}>>]
  /\ UNCHANGED <<cookie, sent, rsid, rjar, seen, leaked, issued>>

Next == \E c \in Client : Begin(c) \/ CacheGet(c) \/ CacheAdd(c) \/ Header(c) \/ Store(c)
                         \/ (\E sets \in SUBSET Names : Backend(c, sets))
Spec == Init /\ [][Next]_vars

\* C10 --------------------------------------------------------------------
\* cookies set by the backend never reach a client (Header strips them unconditionally)
NoLeak == leaked = {}
\* a client is issued a session cookie only when it presented none
IssuedOnce == \A c \in Client : issued[c] <= 1
\* the backend only ever sees cookies that were set in the session the request belongs to
Isolation == \A c \in Client : \A p \in seen[c] : p[1] # "SESSION" => (p[2] = rjar[c] /\ (rjar[c] = NoSid => seen[c] = {}))
\* the agent's own session cookie is never shown to the backend
SessionCookieHidden == \A c \in Client : \A p \in seen[c] : p[1] # "SESSION"
\* the first request of a client (no session cookie yet) sees an empty jar
NoFatal == ~fatal
=============================================================================
