CONSTANTS Client = {c1, c2, c3} Names = {"x", "y"} L = 2 MaxReq = 2 UnlockedLookup = FALSE
SPECIFICATION Spec
CHECK_DEADLOCK FALSE
INVARIANTS NoLeak IssuedOnce Isolation NoFatal
