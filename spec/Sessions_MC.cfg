CONSTANTS Client = {c1, c2, c3} Names = {"x", "y"} L = 2 MaxReq = 2 UnlockedLookup = FALSE StripSetCookie = TRUE StripSessionCookie = TRUE
SPECIFICATION Spec
CHECK_DEADLOCK FALSE
INVARIANTS NoLeak IssuedOnce Isolation NoFatal SessionCookieHidden
