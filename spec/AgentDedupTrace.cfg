SPECIFICATION TSpec
CHECK_DEADLOCK FALSE
INVARIANTS AtMostOnce OneWorker
POSTCONDITION Accepted
