---------------------------- MODULE SessionsTrace ----------------------------
(* Recorded requests through the real sessions.SessionHandler are judged against *)
(* the session rules of C10: what the backend saw (compared with an independent  *)
(* net/http/cookiejar per session kept by the harness), what the client saw,     *)
(* which session ID belongs to which client, and isolation by value tags.        *)
EXTENDS TraceCommon, FiniteSets, Bags

VARIABLES sidOf,    \* [session label -> session ID issued to it, "" if none yet]
          used,     \* session IDs issued so far
          l
Labels == FieldSet("SessReq", "label")
Is(e) == l <= TLen /\ Trace[l].ev = e
E == Trace[l]
Step == l' = l + 1 /\ Mark(l)

TInit == sidOf = [x \in Labels |-> ""] /\ used = {} /\ l = 1 /\ HWMInit
TReset == Is("Reset") /\ sidOf' = [x \in Labels |-> ""] /\ used' = {}
               /\ Step

SeqBag(s) == LET idx == DOMAIN s IN [x \in {s[k] : k \in idx} |-> Cardinality({k \in idx : s[k] = x})]
NamesOf(s) == {s[k][1] : k \in DOMAIN s}

TSessReq == Is("SessReq")
  \* session cookie: issued exactly when none was presented, fresh, with the stated attributes
  /\ (IF E.presented = ""
        THEN /\ E.client_setcookie = <<E.cookie_name>>
             /\ E.new_sid # "" /\ E.new_sid \notin used
             /\ E.sc.httponly /\ E.sc.path = "/" /\ (E.sc.secure = ~E.disable_ssl) /\ E.sc.ttl_ok
             /\ sidOf' = [sidOf EXCEPT ![E.label] = E.new_sid] /\ used' = used \cup {E.new_sid}
        ELSE /\ E.client_setcookie = <<>>              \* backend cookies never reach the client
             /\ (E.known => E.presented = sidOf[E.label])
             /\ UNCHANGED <<sidOf, used>>)
  \* the session cookie itself is never shown to the backend
  /\ E.cookie_name \notin NamesOf(E.saw)
  \* isolation: every tagged value the backend saw was set in this very session
  /\ (\A k \in DOMAIN E.tags : E.tags[k] = E.label)
  \* the backend sees exactly the cookies of the session's jar for this URL plus the client's own
  /\ (E.mode = "sequential" => SeqBag(E.saw) = SeqBag(E.expected \o E.extra))
               /\ Step
TOther == (Is("BurstDone")) /\ UNCHANGED <<sidOf, used>> /\ E.ok
               /\ Step
\* tight concurrent stress (8 sessions, 4 goroutines each): no request saw another session's cookie, the session
\* cookie was never shown to the backend, no backend cookie reached a client
TStress == Is("SessStress") /\ UNCHANGED <<sidOf, used>>
           /\ E.ok /\ E.requests > 0 /\ E.mixed = 0 /\ E.session_cookie_shown = 0 /\ E.setcookie_leaked = 0
               /\ Step
TNext == TReset \/ TSessReq \/ TOther \/ TStress
TSpec == TInit /\ [][TNext]_<<sidOf, used, l>>
=============================================================================
