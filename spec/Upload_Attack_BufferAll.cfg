\* C05 non-vacuity: a serialiser that waits for the whole body deadlocks against a lock-step producer
CONSTANTS M = 3 N = 2 MaxAttempts = 3 MaxFail = 0 StaleReader = FALSE LockStep = TRUE BufferAll = TRUE Timers = {}
SPECIFICATION Spec
CHECK_DEADLOCK FALSE
PROPERTIES Streams
