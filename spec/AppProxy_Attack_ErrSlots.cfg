CONSTANTS ErrSlots = 1
SPECIFICATION MSpec
CHECK_DEADLOCK FALSE
PROPERTIES NoHang
