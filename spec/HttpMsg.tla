------------------------------- MODULE HttpMsg -------------------------------
(***************************************************************************)
(* Message transformation along client -> proxy -> agent -> ReverseProxy   *)
(* -> backend and back (C02, C03, C09).                                    *)
(*                                                                         *)
(* Part 1: reference semantics, written from the property statements:      *)
(*   ReqOK(in, out)   - what the backend must receive for client request in*)
(*   RespOK(in, out)  - what the client must receive for backend response  *)
(*   IdentityOK / CredsOK - identity and credential headers at the backend *)
(* These operators judge recorded cases (HttpMsgTrace).                    *)
(*                                                                         *)
(* Part 2: the pipeline as the code implements it, stage by stage, over an *)
(* abstract message; TLC checks that the composition of the stages meets  *)
(* the reference semantics for every abstract message, and that each       *)
(* deviation switch breaks it.                                             *)
(***************************************************************************)
EXTENDS Naturals, Sequences, FiniteSets, TLC

(* ---------------- Part 1: reference semantics ---------------- *)
\* header lists are sequences of <<CanonicalName, value>> in wire order

\* fixed hop-by-hop names (server/server.go:197-204, agent/utils/utils.go:95-107)
HopByHop == {"Connection", "Keep-Alive", "Proxy-Authenticate", "Proxy-Authorization", "Te", "Trailer",
             "Transfer-Encoding", "Upgrade", "Proxy-Connection"}
\* framing fields: the path may re-frame the body
Framing == {"Content-Length", "Transfer-Encoding", "Trailer"}
\* fields a proxy maintains itself (appended to, never merely copied); not generated, not judged
ProxyOwned == {"X-Forwarded-For", "Via", "Forwarded"}

Names(h) == {h[k][1] : k \in 1..Len(h)}
Values(h, n) == LET s == SelectSeq(h, LAMBDA p : p[1] = n) IN [k \in 1..Len(s) |-> s[k][2]]

UserIDHeader == "X-Inverting-Proxy-User-Id"

\* C02: the request the backend receives (out) for the client's request (in)
ReqOK(in, out) ==
  /\ out.method = in.method
  /\ out.target = in.target                       \* request target exactly as sent
  /\ out.host = in.host
  /\ out.body = in.body                           \* <<length, digest>>
  /\ \A n \in Names(in.hdrs) \ (HopByHop \cup Framing \cup ProxyOwned \cup {UserIDHeader}) :
        Values(out.hdrs, n) = Values(in.hdrs, n)  \* every end-to-end field: same values, same order
  /\ \A n \in Names(in.hdrs) \cap (HopByHop \ Framing) : n \notin Names(out.hdrs)   \* hop-by-hop not forwarded

\* Configurations of the agent that put a net/http ServeMux in front of the relay (--inject-banner, --shim-path:
\* agent/banner/banner.go Proxy, agent/websockets/shim.go Proxy).  A ServeMux answers a request whose path is not
\* in canonical form (empty, "." or ".." segments) with a 301 to the cleaned path, and that request never reaches
\* the backend.  This is what the code does in front of the relay path that C02 is anchored in; it is modelled as
\* a named step so that the configuration sweep (AgentConfig.tla) can judge every other request under those
\* configurations (DESIGN.md, "Observations beyond the listed properties").
\*   muxInFront: the configuration has a banner or a shim path;  canonical: path.Clean leaves the decoded path alone
ReqOKUnder(muxInFront, canonical, in, out, clientStatus) ==
  IF muxInFront /\ ~canonical THEN out.method = "NONE" /\ clientStatus \in {301, 0}   \* (0: the redirect came while the client was
                                                                                     \*  still sending a large body, and its write failed)
  ELSE ReqOK(in, out)

\* C03: the response the client receives (out) for the backend's response (in)
NoBody(in) == in.reqMethod = "HEAD" \/ in.status = 204 \/ in.status = 304
EntityHeaders == {"Content-Type", "Content-Length", "Content-Encoding", "Content-Language", "Content-Range"}
RespOK(in, out) ==
  /\ out.status = in.status                       \* the FINAL status, whatever interim responses preceded it
  /\ \A n \in Names(in.hdrs) \ (HopByHop \cup Framing \cup {"Date"}) :
        \/ Values(out.hdrs, n) = Values(in.hdrs, n)
        \/ (NoBody(in) /\ n \in EntityHeaders /\ n \notin Names(out.hdrs))
  /\ \A n \in Names(in.hdrs) \cap (HopByHop \ Framing) : n \notin Names(out.hdrs)
  /\ IF NoBody(in) THEN out.body[1] = 0 ELSE out.body = in.body
  /\ \A n \in Names(in.trailers) \ HopByHop : Values(out.trailers, n) = Values(in.trailers, n)
  /\ \A n \in Names(in.trailers) \ HopByHop : n \notin Names(out.hdrs)   \* delivered as trailers, not as headers

\* C09: sawUser / sawAuth are the value sequences the backend saw
IdentityOK(fwd, asserted, sawUser) == fwd => sawUser = <<asserted>>
CredsOK(strip, sawAuth) == strip => sawAuth = <<>>

(* ---------------- Part 2: the pipeline, abstractly ---------------- *)
CONSTANTS NameClass,        \* abstract header names, partitioned below
          Hop,              \* subset: fixed hop-by-hop names
          IdentityAdd,      \* deviation: the asserted user is ADDED after client-supplied values
          JoinedTrailerNames, \* deviation: "Trailer: A, B" is treated as one name
          LatchInterim      \* deviation: a 1xx WriteHeader latches the response writers

VARIABLES stage, msg, kind, input
pvars == <<stage, msg, kind, input>>

\* abstract request: hdrs = sequence of <<name class, value token>>; uid = asserted user;
\* forged = client-supplied identity values (someone else's, the value the proxy asserts itself, or empty);
\* auth = client-supplied Authorization values
ValTok == {"v1", "v2"}
HdrLists == UNION {[1..n -> NameClass \X ValTok] : n \in 0..2}
ReqInputs == [hdrs : HdrLists, forged : UNION {[1..n -> {"evil", "asserted", ""}] : n \in 0..2}, auth : {<<>>, <<"secret">>},
              fwd : BOOLEAN, strip : BOOLEAN]
\* abstract response: declared trailer names, interim responses, final status
RespInputs == [hdrs : HdrLists, declared : {<<>>, <<"A">>, <<"A", "B">>}, interim : {<<>>, <<103>>, <<103, 103>>},
               status : {200, 204, 500}]

FilterHop(h) == SelectSeq(h, LAMBDA p : p[1] \notin Hop)

PInit == /\ stage = "start"
         /\ \/ (kind = "req" /\ input \in ReqInputs)
            \/ (kind = "resp" /\ input \in RespInputs)
         /\ msg = input

\* --- request direction ---
ProxyFilter ==       \* server.go:214-218 drops hop-by-hop request headers
  /\ kind = "req" /\ stage = "start"
  /\ msg' = [msg EXCEPT !.hdrs = FilterHop(@)] /\ stage' = "proxied"
  /\ UNCHANGED <<kind, input>>
AgentIdentity ==     \* agent.go:153-158
  /\ kind = "req" /\ stage = "proxied"
  /\ msg' = [msg EXCEPT
        !.forged = IF msg.fwd THEN (IF IdentityAdd THEN Append(@, "asserted") ELSE <<"asserted">>) ELSE @,
        !.auth = IF msg.strip THEN <<>> ELSE @]
  /\ stage' = "identified" /\ UNCHANGED <<kind, input>>
ReverseProxyOut ==   \* httputil.ReverseProxy: hop-by-hop removed again, defaults added
  /\ kind = "req" /\ stage = "identified"
  /\ msg' = [msg EXCEPT !.hdrs = FilterHop(@)] /\ stage' = "done"
  /\ UNCHANGED <<kind, input>>

\* --- response direction ---
\* trailer names the streaming writer pre-declares from the Trailer header ReverseProxy wrote
Predeclared(d) == IF JoinedTrailerNames /\ Len(d) > 1 THEN <<"A, B">> ELSE d
WriterHeader ==      \* streamingResponseWriter.WriteHeader: interim responses, snapshot, filter
  /\ kind = "resp" /\ stage = "start"
  /\ LET latched == LatchInterim /\ msg.interim # <<>> IN
       msg' = [msg EXCEPT !.status = IF latched THEN msg.interim[1] ELSE @,
                          !.hdrs = FilterHop(@),
                          !.declared = Predeclared(@)]
  /\ stage' = "written" /\ UNCHANGED <<kind, input>>
WriterClose ==       \* Close collects trailer values for the pre-declared names: a name that was not
  /\ kind = "resp" /\ stage = "written"        \* declared as itself finds no value under its own key
  /\ msg' = [msg EXCEPT !.declared = SelectSeq(@, LAMBDA n : n \in {"A", "B"})]
  /\ stage' = "done" /\ UNCHANGED <<kind, input>>

PNext == ProxyFilter \/ AgentIdentity \/ ReverseProxyOut \/ WriterHeader \/ WriterClose
PSpec == PInit /\ [][PNext]_pvars

\* the composition of the stages meets the reference semantics
ReqPipelineOK ==
  (kind = "req" /\ stage = "done") =>
     /\ msg.hdrs = FilterHop(input.hdrs)
     /\ IdentityOK(input.fwd, "asserted", msg.forged)
     /\ CredsOK(input.strip, msg.auth)
     /\ (~input.fwd => msg.forged = input.forged) /\ (~input.strip => msg.auth = input.auth)
RespPipelineOK ==
  (kind = "resp" /\ stage = "done") =>
     /\ msg.status = input.status
     /\ msg.hdrs = FilterHop(input.hdrs)
     /\ msg.declared = input.declared
=============================================================================
