--------------------------- MODULE AgentLifeTrace ---------------------------
(* Recorded runs of the real agent binary (scripted health endpoint, fake      *)
(* proxy, signals) must be behaviours of AgentLife; recorded back-off delays   *)
(* must lie within the bounds Lo/Hi of AgentLife.                              *)
EXTENDS TraceCommon, FiniteSets, Integers

VARIABLES phase, checks, bad, streak, passed, loop, lists, listsAfterCancel, cancelled, signalled, clock, req, reqAt,
          fwdBeforeSignal, retry, slept, exitCode,
          cfg,        \* scenario configuration (Cfg event)
          lastFail,   \* time (us) at which the fake proxy answered the last failing list call, -1 if none pending
          lastN,      \* retry count the pending back-off was computed for
          answered,   \* the in-flight request's response was uploaded completely
          arrAfter,   \* 1 once a list call has returned to the loop (ListOK / ListFail) after the polling context was cancelled
          l

\* the instance constants that vary per scenario are read from the state (cfg) by the trace actions;
\* the instance itself is only used for the bounds and for actions that do not depend on them
A == INSTANCE AgentLife WITH ShiftUnguarded <- FALSE, Threshold <- 1000000, HealthEnabled <- TRUE, Grace <- 1, MaxChecks <- 1000000,
                             MaxLists <- 1000000, Latency <- 0, PollBeforeHealthy <- FALSE, NoReset <- FALSE, CancelWorkers <- FALSE
avars == <<phase, checks, bad, streak, passed, loop, lists, listsAfterCancel, cancelled, signalled, clock, req, reqAt,
           fwdBeforeSignal, retry, slept, exitCode>>
xvars == <<cfg, lastFail, lastN, answered, arrAfter>>
Is(e) == l <= TLen /\ Trace[l].ev = e
E == Trace[l]
Step == l' = l + 1 /\ Mark(l)
Same == UNCHANGED avars /\ UNCHANGED xvars

NoCfg == [threshold |-> 2, health |-> FALSE, grace_ms |-> 0, latency_ms |-> 0]
TInit == /\ A!LInit /\ cfg = NoCfg /\ lastFail = -1 /\ lastN = 0 /\ answered = FALSE /\ arrAfter = 0 /\ l = 1 /\ HWMInit

TReset == Is("Reset") /\ UNCHANGED <<avars, xvars>>
               /\ Step
\* scenario configuration: resets the lifecycle state for a fresh agent process
TCfg == Is("Cfg")
        /\ cfg' = [threshold |-> E.threshold, health |-> E.health, grace_ms |-> E.grace_ms, latency_ms |-> E.latency_ms]
        /\ phase' = (IF E.health THEN "waitHealthy" ELSE "polling")
        /\ checks' = 0 /\ bad' = 0 /\ streak' = 0 /\ passed' = FALSE /\ loop' = "check" /\ lists' = 0 /\ listsAfterCancel' = 0
        /\ cancelled' = FALSE /\ signalled' = FALSE /\ clock' = 0 /\ req' = "none" /\ reqAt' = 0 /\ fwdBeforeSignal' = FALSE
        /\ retry' = 0 /\ slept' = TRUE /\ exitCode' = -1 /\ lastFail' = -1 /\ lastN' = 0 /\ answered' = FALSE /\ arrAfter' = 0
               /\ Step

\* a health probe was answered by the backend: startup check or periodic check
THealthReply == Is("HealthReply") /\ UNCHANGED xvars /\ cfg.health
        /\ (IF phase = "exited" THEN UNCHANGED avars       \* a probe that was in flight when the process died
            ELSE IF phase = "waitHealthy"
              THEN /\ checks' = checks + 1
                   /\ (IF E.ok THEN phase' = "polling" /\ passed' = TRUE ELSE UNCHANGED <<phase, passed>>)
                   /\ UNCHANGED <<bad, streak, loop, lists, listsAfterCancel, cancelled, signalled, clock, req, reqAt, fwdBeforeSignal, retry, slept, exitCode>>
              ELSE /\ phase \in {"polling", "draining"}
                   /\ checks' = checks + 1
                   /\ streak' = (IF E.ok THEN 0 ELSE streak + 1)
                   /\ bad' = (IF E.ok THEN 0 ELSE bad + 1)
                   /\ passed' = (passed \/ E.ok)
                   /\ (IF streak' >= cfg.threshold THEN phase' = "exited" /\ exitCode' = 1 ELSE UNCHANGED <<phase, exitCode>>)
                   /\ UNCHANGED <<loop, lists, listsAfterCancel, cancelled, signalled, clock, req, reqAt, fwdBeforeSignal, retry, slept>>)
               /\ Step
\* hook after waitForHealthy returned: the first health check has passed (or checks are disabled)
THealthy == Is("Healthy") /\ Same /\ phase = "polling" /\ (cfg.health => passed)
               /\ Step
\* hook after each periodic check: the agent's own counter equals the number of consecutive failures
THealth == Is("Health") /\ Same /\ E.bad = streak
               /\ Step
TProbe == Is("HealthProbe") /\ Same
               /\ Step
\* poll loop, context not cancelled: a list call starts.  Never before the agent is healthy, never
\* after the cancellation, never without the back-off sleep after a failed call
TPollCheck == Is("PollCheck") /\ UNCHANGED xvars
        /\ phase \in {"polling", "draining"} /\ loop = "check" /\ ~cancelled /\ slept
        /\ loop' = "listing" /\ lists' = lists + 1
        /\ UNCHANGED <<phase, checks, bad, streak, passed, listsAfterCancel, cancelled, signalled, clock, req, reqAt, fwdBeforeSignal, retry, slept, exitCode>>
               /\ Step
TPollStop == Is("PollStop") /\ UNCHANGED xvars /\ cancelled /\ loop = "check"
        /\ loop' = "stopped"
        /\ UNCHANGED <<phase, checks, bad, streak, passed, lists, listsAfterCancel, cancelled, signalled, clock, req, reqAt, fwdBeforeSignal, retry, slept, exitCode>>
               /\ Step
\* the fake proxy received a list call: not before the pending back-off delay has elapsed
\* ... and once the call that was in flight at the cancellation has returned to the loop - however it returned -
\* no list call reaches the proxy any more (C20).  (Several arrivals may belong to ONE call of the loop: net/http
\* re-sends a GET whose connection was closed under it; what counts is the loop's own ListOK / ListFail.)
TListArrive == Is("ListArrive") /\ Same
        /\ arrAfter = 0
        /\ (lastFail >= 0 => E.t_us - lastFail >= A!Lo(lastN))
               /\ Step
TListAnswer == Is("ListAnswer") /\ UNCHANGED avars /\ UNCHANGED <<cfg, lastN, answered, arrAfter>>
        /\ lastFail' = (IF E.ok THEN -1 ELSE E.t_us)
               /\ Step
\* (the agent may take a list call for a success only if the proxy answered it successfully: lastFail = -1)
TListOK == Is("ListOK") /\ UNCHANGED <<cfg, lastN, answered>> /\ lastFail = -1 /\ lastFail' = -1
        /\ arrAfter' = (IF cancelled THEN 1 ELSE arrAfter)
        /\ loop = "listing" /\ loop' = "check" /\ retry' = 0 /\ slept' = TRUE
        /\ req' = (IF E.ids # <<>> /\ req = "none" THEN "listed" ELSE req)
        /\ UNCHANGED <<phase, checks, bad, streak, passed, lists, listsAfterCancel, cancelled, signalled, clock, reqAt, fwdBeforeSignal, exitCode>>
               /\ Step
\* a failed list call: the hook reports the loop's retry counter, which must equal the number of
\* consecutive failures since the last success
TListFail == Is("ListFail") /\ UNCHANGED <<cfg, lastFail, answered>>
        /\ arrAfter' = (IF cancelled THEN 1 ELSE arrAfter)
        /\ loop = "listing" /\ E.retry = retry
        /\ loop' = "check" /\ retry' = retry + 1 /\ slept' = FALSE /\ lastN' = retry
        /\ UNCHANGED <<phase, checks, bad, streak, passed, lists, listsAfterCancel, cancelled, signalled, clock, req, reqAt, fwdBeforeSignal, exitCode>>
               /\ Step
\* the back-off delay the loop is about to sleep: computed for the right count, strictly positive,
\* within +-10% of min(2^n ms, 3 s)
TBackoff == Is("Backoff") /\ UNCHANGED xvars
        /\ ~slept /\ E.n = retry - 1
        /\ A!Lo(E.n) <= E.d_us /\ E.d_us <= A!Hi(E.n) /\ E.d_us > 0
        /\ slept' = TRUE
        /\ UNCHANGED <<phase, checks, bad, streak, passed, loop, lists, listsAfterCancel, cancelled, signalled, clock, req, reqAt, fwdBeforeSignal, retry, exitCode>>
               /\ Step
\* direct calls of the back-off function over the whole argument range (n = -1 stands for Big)
TBackoffFn == Is("BackoffFn") /\ Same
        /\ 0 < E.min_us /\ A!Lo(E.n) <= E.min_us /\ E.max_us <= A!Hi(E.n)
               /\ Step
\* in-flight request of the signal scenarios
TFetch == Is("FakeFetch") /\ UNCHANGED xvars /\ req = "listed" /\ req' = "fetched"
        /\ UNCHANGED <<phase, checks, bad, streak, passed, loop, lists, listsAfterCancel, cancelled, signalled, clock, reqAt, fwdBeforeSignal, retry, slept, exitCode>>
               /\ Step
TBackend == Is("BackendHandle") /\ UNCHANGED xvars /\ req = "fetched" /\ req' = "backend" /\ fwdBeforeSignal' = ~signalled
        /\ UNCHANGED <<phase, checks, bad, streak, passed, loop, lists, listsAfterCancel, cancelled, signalled, clock, reqAt, retry, slept, exitCode>>
               /\ Step
TPost == Is("FakePost") /\ UNCHANGED <<cfg, lastFail, lastN, arrAfter>> /\ req = "backend" /\ req' = "answered" /\ answered' = E.ok
        /\ UNCHANGED <<phase, checks, bad, streak, passed, loop, lists, listsAfterCancel, cancelled, signalled, clock, reqAt, fwdBeforeSignal, retry, slept, exitCode>>
               /\ Step
\* the signal reached main (hook); cancellation and end of the grace period are separate hooks
TSignal == Is("Signal") /\ UNCHANGED xvars /\ phase \in {"polling"} /\ ~signalled /\ E.grace_ms = cfg.grace_ms
        /\ signalled' = TRUE
        /\ (IF cfg.grace_ms > 0 THEN phase' = "draining" /\ UNCHANGED exitCode ELSE phase' = "exited" /\ exitCode' = 0)
        /\ UNCHANGED <<checks, bad, streak, passed, loop, lists, listsAfterCancel, cancelled, clock, req, reqAt, fwdBeforeSignal, retry, slept>>
               /\ Step
TCancel == Is("Cancel") /\ UNCHANGED xvars /\ phase = "draining" /\ ~cancelled /\ cancelled' = TRUE
        /\ UNCHANGED <<phase, checks, bad, streak, passed, loop, lists, listsAfterCancel, signalled, clock, req, reqAt, fwdBeforeSignal, retry, slept, exitCode>>
               /\ Step
TGraceEnd == Is("GraceEnd") /\ UNCHANGED xvars /\ phase = "draining" /\ cancelled
        /\ phase' = "exited" /\ exitCode' = 1
        /\ UNCHANGED <<checks, bad, streak, passed, loop, lists, listsAfterCancel, cancelled, signalled, clock, req, reqAt, fwdBeforeSignal, retry, slept>>
               /\ Step
TSignalSent == Is("SignalSent") /\ Same
               /\ Step
\* the process has terminated: only a behaviour of AgentLife that reached "exited" explains that.
\* after_ms is measured from the signal: promptly without a grace period, at the end of it otherwise;
\* a request forwarded before the signal whose backend finishes within the grace period was answered
TExit == Is("Exit") /\ Same /\ phase = "exited"
        /\ (signalled /\ cfg.grace_ms = 0 => E.after_ms <= 2000)
        /\ (signalled /\ cfg.grace_ms > 0 => (E.after_ms >= cfg.grace_ms - 50 /\ E.after_ms <= cfg.grace_ms + 2000))
        /\ (signalled /\ cfg.grace_ms > 0 /\ fwdBeforeSignal /\ cfg.latency_ms + 500 < cfg.grace_ms => answered)
        \* a signal that arrived before the agent was healthy: gone by the end of the period at the latest
        /\ (("early" \in DOMAIN E /\ E.early) => E.after_ms <= cfg.grace_ms + 2000)
               /\ Step
\* the harness observed the process still running at the end of the scenario
TStillAlive == Is("StillAlive") /\ Same /\ phase # "exited"
               /\ Step
\* a signal was delivered before the handler exists (agent still waiting for a healthy backend)
TKilledEarly == Is("KilledEarly") /\ UNCHANGED xvars /\ phase = "waitHealthy" /\ phase' = "exited" /\ exitCode' = 0
        /\ UNCHANGED <<checks, bad, streak, passed, loop, lists, listsAfterCancel, cancelled, signalled, clock, req, reqAt, fwdBeforeSignal, retry, slept>>
               /\ Step
\* end of a scripted sequence of list-call outcomes: every delay is bounded by Hi (3.3 s), so an agent that is still
\* running has made all the calls of the sequence long before the harness stops waiting (C08: no unbounded delay)
TPatternEnd == Is("PatternEnd") /\ Same /\ (E.reached \/ phase = "exited")
               /\ Step
TOther == (Is("Dedup") \/ Is("Spawn") \/ Is("WForward") \/ Is("WServed") \/ Is("WClosed") \/ Is("Final")) /\ Same
               /\ Step

TNext == TReset \/ TCfg \/ THealthReply \/ THealthy \/ THealth \/ TProbe \/ TPollCheck \/ TPollStop \/ TListArrive \/ TListAnswer
         \/ TListOK \/ TListFail \/ TBackoff \/ TBackoffFn \/ TFetch \/ TBackend \/ TPost \/ TSignal \/ TCancel \/ TGraceEnd
         \/ TSignalSent \/ TExit \/ TStillAlive \/ TKilledEarly \/ TOther \/ TPatternEnd
TSpec == TInit /\ [][TNext]_<<avars, xvars, l>>

NoListBeforeHealthy == (cfg.health /\ lists > 0) => passed
=============================================================================
