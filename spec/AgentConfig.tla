----------------------------- MODULE AgentConfig -----------------------------
(***************************************************************************)
(* The agent's documented command-line configuration (agent/agent.go, flag *)
(* block) as classes, and for each property the flags its reference        *)
(* semantics does NOT depend on.  "The property holds" is a statement      *)
(* about every configuration a user may run; the drivers therefore repeat  *)
(* their cases under the configurations enumerated here: the default, and  *)
(* every configuration that differs from it in one or two flags that are   *)
(* neutral for the property.  A flag that is not neutral for a property    *)
(* (e.g. session tracking for request fidelity: it rewrites Cookie) is a   *)
(* dimension of that property's own model instead (HttpMsg, Sessions,      *)
(* Inject), not of this module.                                            *)
(***************************************************************************)
EXTENDS Naturals, FiniteSets, Sequences

\* flag classes; the first element of each tuple is the default
Flag == [
  timeout  |-> <<"default", "none", "long", "1s">>,   \* --proxy-timeout: 60s / 0 (no client timeout) / 5m / 1s
  shim     |-> <<"off", "path-only", "on", "on-opts">>, \* --shim-path / + --shim-websockets / + --rewrite-websocket-host --enable-websockets-injection
  banner   |-> <<"off", "on", "favicon">>,             \* --inject-banner / + --favicon-url (relative) --banner-height=10%
  sessions |-> <<"off", "on", "small">>,               \* --session-cookie-name / + --session-cookie-cache-limit=5
  health   |-> <<"off", "on">>,                        \* --health-check-interval-seconds=1 --health-check-unhealthy-threshold=3
  debug    |-> <<"off", "on">>,                        \* --debug
  grace    |-> <<"off", "on">>,                        \* --graceful-shutdown-timeout=2s
  vmid     |-> <<"off", "on">>,                        \* without --disable-gce-vm-header: X-Inverting-Proxy-VM-ID on the agent's calls
  ids      |-> <<"off", "fwd", "strip", "both">> ]     \* --forward-user-id / --strip-credentials

Flags == DOMAIN Flag
Values(f) == {Flag[f][i] : i \in DOMAIN Flag[f]}
Default == [f \in Flags |-> Flag[f][1]]
NonDefault(c) == {f \in Flags : c[f] # Default[f]}
\* flags that must not change what the property's model says
Neutral == [
  C01 |-> {"timeout", "shim", "banner", "sessions", "debug", "grace", "vmid", "ids"},      \* request / response correlation of the relay
  C02 |-> {"timeout", "shim", "banner", "health", "debug", "grace", "vmid"},      \* request fidelity (not sessions / ids: they rewrite Cookie, identity, Authorization)
  C03 |-> {"timeout", "health", "debug", "grace", "vmid", "ids"},                  \* response fidelity (not shim / banner: HTML; not sessions: Set-Cookie)
  C04 |-> {"timeout", "shim", "banner", "sessions", "debug", "grace", "vmid", "ids"}, \* de-duplication
  C08 |-> {"timeout", "shim", "banner", "sessions", "debug", "grace", "vmid", "ids"}  \* back-off of the poll loop
]
\* a time-out of 1 s is neutral only where nothing legitimately takes longer (no megabyte bodies, no held calls)
TimeoutOK == [C01 |-> {"default", "none", "long"}, C02 |-> {"default", "none", "long"}, C03 |-> {"default", "none", "long"}, C04 |-> {"default", "none", "long"},
              C08 |-> {"default", "none", "long", "1s"}]

\* the default, and everything within two neutral flags of it
OKValues(p, f) == IF f = "timeout" THEN TimeoutOK[p] ELSE Values(f)
FV(p) == {fv \in Neutral[p] \X UNION {Values(f) : f \in Flags} : fv[2] \in OKValues(p, fv[1]) /\ fv[2] # Default[fv[1]]}
With(c, fv) == [c EXCEPT ![fv[1]] = fv[2]]
ConfigsFor(p) == {Default} \cup {With(Default, a) : a \in FV(p)}
                 \cup {With(With(Default, ab[1]), ab[2]) : ab \in {q \in FV(p) \X FV(p) : q[1][1] # q[2][1]}}

\* sanity: every class of every neutral flag occurs for the property, and so does every pair of classes
EveryClass(p) == \A f \in Neutral[p] : \A v \in OKValues(p, f) : \E c \in ConfigsFor(p) : c[f] = v
EveryPair(p) == \A a \in FV(p), b \in FV(p) : a[1] # b[1] => \E c \in ConfigsFor(p) : c[a[1]] = a[2] /\ c[b[1]] = b[2]
OnlyNeutral(p) == \A c \in ConfigsFor(p) : NonDefault(c) \subseteq Neutral[p] /\ Cardinality(NonDefault(c)) <= 2
Props == DOMAIN Neutral
VARIABLE x
Init == x = 0
Next == x' = x
Sane == \A p \in Props : EveryClass(p) /\ EveryPair(p) /\ OnlyNeutral(p) /\ Default \in ConfigsFor(p)
=============================================================================
