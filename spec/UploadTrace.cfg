SPECIFICATION TSpec
CHECK_DEADLOCK FALSE
INVARIANTS AckedIntegrity AtMostThree
POSTCONDITION Accepted
