------------------------------- MODULE AppProxy -------------------------------
(***************************************************************************)
(* App Engine proxy (app/proxy.go, app/store/store.go, app/cache/cache.go) *)
(* C17 access control, C18 routing, C19 relay through the store.           *)
(*                                                                         *)
(* Part 1: reference semantics as operators (they judge recorded cases of  *)
(* the real app binaries running against a fake App Engine API).           *)
(* Part 2: a model of the agent's response call with failing store writes  *)
(* and the error channel (C19 "storage errors never leave a call hanging").*)
(***************************************************************************)
EXTENDS Naturals, Sequences, FiniteSets, TLC

AllUsers == "allUsers"

(* ---------------- C18: routing ---------------- *)
\* backends: set of records [id, endUser, prefixes (set of sequences of characters), live (BOOLEAN)]
IsPrefix(p, s) == Len(p) <= Len(s) /\ \A k \in 1..Len(p) : p[k] = s[k]
Matching(b, path) == {p \in b.prefixes : IsPrefix(p, path)}
MaxLen(S) == IF S = {} THEN 0 ELSE CHOOSE n \in {Len(p) : p \in S} : \A m \in {Len(q) : q \in S} : m <= n
\* best prefix length of backend b for the path (-1 encoded as no match: use Matching # {})
Candidates(bs, path) == {b \in bs : Matching(b, path) # {}}
Winners(bs, path) == LET c == Candidates(bs, path)
                         best == MaxLen(UNION {Matching(b, path) : b \in c})
                     IN {b \in c : MaxLen(Matching(b, path)) = best}
\* the set of acceptable answers ("404" or a backend id) for user u and path
RouteAnswers(backends, u, path) ==
  LET own == {b \in backends : b.endUser = u}
      pool == IF Candidates(own, path) # {} THEN own ELSE {b \in backends : b.endUser = AllUsers}
      w == Winners(pool, path)
  IN IF w = {} THEN {"404"}
     ELSE {b.id : b \in {x \in w : x.live}} \cup (IF \E x \in w : ~x.live THEN {"404"} ELSE {})
RouteOK(backends, u, path, got) == got \in RouteAnswers(backends, u, path)
\* C17: an end user is only ever routed to a backend registered for that user or for allUsers
UserRoutingOK(backends, u, got) == got = "404" \/ \E b \in backends : b.id = got /\ b.endUser \in {u, AllUsers}

(* ---------------- C17: agent and admin access control ---------------- *)
\* call: [endpoint ("pending"|"request"|"response"), oauth (identity or ""), backend (id named, "" if none),
\*        rid ("own" | "other" | "unknown" | "none")];  backendUser: function id -> identity ("" if unregistered)
Authorised(call, backendUser) == call.oauth # "" /\ call.backend # "" /\ backendUser[call.backend] # "" /\ call.oauth = backendUser[call.backend]
ExpectedAgentStatus(call, backendUser) ==
  IF ~Authorised(call, backendUser) THEN {401}
  ELSE IF call.endpoint = "pending" THEN {200}
  ELSE IF call.rid = "none" THEN {400}
  ELSE IF call.rid = "own" THEN {200} ELSE {404}
\* obs: [status, leaked (reply contains request bytes / IDs it must not reveal), changed (store contents changed)]
AgentCallOK(call, backendUser, obs) ==
  /\ obs.status \in ExpectedAgentStatus(call, backendUser)
  /\ (obs.status # 200 => ~obs.leaked /\ ~obs.changed)         \* rejected calls learn nothing and touch nothing
  /\ (obs.status = 200 => obs.own_only)                        \* successful calls touch only that backend's requests
AdminCallOK(isAdmin, status) == (status \in {200} => isAdmin) /\ (~isAdmin => status = 403)

(* ---------------- C19: blobs ---------------- *)
FieldLimit == 1000000
\* number of blob parts the store writes for a payload of n bytes
Parts(n) == IF n < FieldLimit THEN 0 ELSE ((n - FieldLimit) \div FieldLimit) + 1
BlobOK(n, parts, same) == same /\ parts = Parts(n)

(* ---------------- Part 2: the agent's response call with failing writes ---------------- *)
CONSTANTS ErrSlots          \* capacity of the error channel of responseHandler (1 before the fix)
VARIABLES wr,               \* [{"response", "request"} -> "todo" | "ok" | "failed" | "blocked" | "reported"]
          errs,             \* number of errors sitting in the channel
          handler           \* "waiting" | "answered"
mvars == <<wr, errs, handler>>
Writes == {"response", "request"}
MInit == wr = [x \in Writes |-> "todo"] /\ errs = 0 /\ handler = "waiting"
WriteOK(x) == wr[x] = "todo" /\ wr' = [wr EXCEPT ![x] = "ok"] /\ UNCHANGED <<errs, handler>>
WriteFails(x) == wr[x] = "todo" /\ wr' = [wr EXCEPT ![x] = "failed"] /\ UNCHANGED <<errs, handler>>
Report(x) ==        \* errChan <- err : blocks while the channel is full
  /\ wr[x] = "failed" /\ errs < ErrSlots
  /\ errs' = errs + 1 /\ wr' = [wr EXCEPT ![x] = "reported"] /\ UNCHANGED handler
Answer ==           \* wg.Wait() returned: both goroutines are done
  /\ handler = "waiting" /\ \A x \in Writes : wr[x] \in {"ok", "reported"}
  /\ handler' = "answered" /\ UNCHANGED <<wr, errs>>
MNext == (\E x \in Writes : WriteOK(x) \/ WriteFails(x) \/ Report(x)) \/ Answer
MSpec == MInit /\ [][MNext]_mvars /\ WF_mvars(MNext)
\* C19: storage errors never leave the call hanging
NoHang == <>(handler = "answered")
=============================================================================
