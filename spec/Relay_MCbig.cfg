\* thorough: 3 requests, 4 ids, two foreign pollers next to the agent's, two faults on two victims
CONSTANTS
  Req = {r1, r2, r3}
  IdPool = {i1, i2, i3}
  Poller = {p1, p2, p3}
  AgentPoller = {p1}
  LruCap = 2
  MaxFaults = 2
  Victims = {r1, r2}
  UniqueIds = TRUE
  CleanCut = FALSE
INIT Init
NEXT Next
CHECK_DEADLOCK FALSE
INVARIANTS TypeOK Correlation OneClientPerResponse AtMostOnce HandOffOnce Isolation Survives BadGateway NoSilentTruncation
