------------------------------- MODULE AppRelay -------------------------------
(***************************************************************************)
(* App Engine proxy: relay of requests and responses through the store     *)
(* (app/proxy.go proxyHandler / pendingHandler / requestHandler /          *)
(* responseHandler over app/store and app/cache), C19 (and the "touches    *)
(* only that backend's requests" half of C17) under concurrency.           *)
(*                                                                         *)
(* Requests are stored under (backend, request ID); responses under the    *)
(* request ID alone (store.go) and, in memcache, under (backend, ID).      *)
(* The client handler polls the store for its response; the agent lists    *)
(* the uncompleted requests of its backend, fetches them and posts the     *)
(* responses, whose handler writes the response and marks the request      *)
(* completed in two separate store writes.                                 *)
(***************************************************************************)
EXTENDS Naturals, Sequences, FiniteSets, TLC

CONSTANTS Req,            \* client requests (= their tokens); BackendOf gives the backend each is routed to
          Backend,
          BackendOf,      \* [Req -> Backend]
          SharedResponseKey, \* deviation: responses are keyed by something shared (not the request ID)
          ShortRetention,   \* deviation: the retention period is shorter than the time a client may wait
          ResponseStartTimeUnset \* TRUE = the code as it is: newStoredResponse never sets StartTime, so every stored
                            \* response looks older than two minutes to the cron handler, however fresh it is

None == "none"
\* routing used by the model-checking configurations: r3 goes to backend b2, everything else to b1
MCBackendOf == [r \in Req |-> IF r = "r3" THEN "b2" ELSE "b1"]
VARIABLES cst,        \* [Req -> "new" | "waiting" | "done" | "timeout"]
          stored,     \* [Req -> BOOLEAN] request entity written (key = <<BackendOf[r], r>>)
          completed,  \* [Req -> BOOLEAN]
          response,   \* [Req -> token of the stored response, None if none]  (key: request ID)
          listed,     \* [Req -> some list reply carried it]
          fetched,    \* [Req -> token the agent fetched for it (None before)]
          resp,       \* [Req -> "none" | "posting" | "written" | "marked" | "done"] progress of the response call
          got,        \* [Req -> token of the response the client received]
          old,        \* set of requests whose entities are older than two minutes
          seen        \* [Backend -> the backend's agent was seen within the last hour (backendTracker.LastSeen)]
avars == <<cst, stored, completed, response, listed, fetched, resp, got, old, seen>>

InitWith(live) ==
        /\ cst = [r \in Req |-> "new"] /\ stored = [r \in Req |-> FALSE] /\ completed = [r \in Req |-> FALSE]
        /\ response = [r \in Req |-> None] /\ listed = [r \in Req |-> FALSE] /\ fetched = [r \in Req |-> None]
        /\ resp = [r \in Req |-> "none"] /\ got = [r \in Req |-> None]
        /\ old = {} /\ seen = [b \in Backend |-> live]
Init == InitWith(FALSE)

ClientStore(r) ==        \* proxyHandler: LookupBackend (only backends seen recently are candidates), serialise, WriteRequest
  /\ cst[r] = "new" /\ seen[BackendOf[r]]
  /\ stored' = [stored EXCEPT ![r] = TRUE] /\ cst' = [cst EXCEPT ![r] = "waiting"]
  /\ UNCHANGED <<completed, response, listed, fetched, resp, got, old, seen>>

AgentList(b, ids) ==     \* pendingHandler: the uncompleted requests of backend b (here: any non-empty subset, the query has a limit)
  /\ ids # {} /\ ids \subseteq {r \in Req : BackendOf[r] = b /\ stored[r] /\ ~completed[r]}
  /\ listed' = [r \in Req |-> listed[r] \/ r \in ids]
  /\ seen' = [seen EXCEPT ![b] = TRUE]            \* registerBackendAsSeen
  /\ UNCHANGED <<cst, stored, completed, response, fetched, resp, got, old>>

AgentListEmpty(b) ==     \* a list call that finds nothing still registers the backend as seen
  /\ seen' = [seen EXCEPT ![b] = TRUE]
  /\ UNCHANGED <<cst, stored, completed, response, listed, fetched, resp, got, old>>

AgentFetch(b, r) ==      \* requestHandler: ReadRequest(b, id) - only under the validated backend
  /\ stored[r] /\ BackendOf[r] = b
  /\ fetched' = [fetched EXCEPT ![r] = r]
  /\ UNCHANGED <<cst, stored, completed, response, listed, resp, got, old, seen>>

\* responseHandler = ReadRequest, then WriteResponse and WriteRequest(completed) in either order
RespondStart(b, r) == /\ resp[r] = "none" /\ stored[r] /\ BackendOf[r] = b /\ fetched[r] # None
                      /\ resp' = [resp EXCEPT ![r] = "posting"]
                      /\ UNCHANGED <<cst, stored, completed, response, listed, fetched, got, old, seen>>
\* the key the response is stored under: the request ID - or, with the deviation, one shared slot
Slot(r) == IF SharedResponseKey THEN CHOOSE x \in Req : TRUE ELSE r
WriteResponse(r) == /\ resp[r] \in {"posting", "marked"}
                    /\ response' = [response EXCEPT ![Slot(r)] = fetched[r]]     \* the backend answered what it was sent
                    /\ resp' = [resp EXCEPT ![r] = IF resp[r] = "posting" THEN "written" ELSE "done"]
                    /\ UNCHANGED <<cst, stored, completed, listed, fetched, got, old, seen>>
MarkCompleted(r) == /\ resp[r] \in {"posting", "written"}
                    /\ completed' = [completed EXCEPT ![r] = TRUE]
                    /\ resp' = [resp EXCEPT ![r] = IF resp[r] = "posting" THEN "marked" ELSE "done"]
                    /\ UNCHANGED <<cst, stored, response, listed, fetched, got, old, seen>>

ClientPoll(r) ==         \* waitForResponse: ReadResponse(backend, id) every 100 ms
  /\ cst[r] = "waiting" /\ response[Slot(r)] # None
  /\ got' = [got EXCEPT ![r] = response[Slot(r)]] /\ cst' = [cst EXCEPT ![r] = "done"]
  /\ UNCHANGED <<stored, completed, response, listed, fetched, resp, old, seen>>
ClientTimeout(r) ==      \* 30 s without a response: 504
  /\ cst[r] = "waiting" /\ response[Slot(r)] = None
  /\ cst' = [cst EXCEPT ![r] = "timeout"]
  /\ UNCHANGED <<stored, completed, response, listed, fetched, resp, got, old, seen>>

(* ---- retention: /cron/delete (deleteHandler -> DeleteOldBackends, DeleteOldRequests) ---- *)
Ages(r) ==               \* two minutes pass.  A client waits at most 30 s (responseWaitTimeout), so an entity
  /\ r \notin old /\ (ShortRetention \/ cst[r] \in {"done", "timeout"})   \* that old belongs to an exchange that is over
  /\ old' = old \cup {r}
  /\ UNCHANGED <<cst, stored, completed, response, listed, fetched, resp, got, seen>>
GoesQuiet(b) ==          \* the backend's agent has not listed for an hour (a request is only routed to a backend seen
  /\ seen[b] /\ \A r \in Req : BackendOf[r] = b => cst[r] # "waiting"   \* within minutes, and a client waits 30 s)
  /\ seen' = [seen EXCEPT ![b] = FALSE]
  /\ UNCHANGED <<cst, stored, completed, response, listed, fetched, resp, got, old>>
Cron ==                  \* DeleteOldBackends: a backend quiet for an hour goes with ALL of its requests (DeleteBackend);
                         \* DeleteOldRequests: old requests of the remaining backends, old responses
  /\ stored' = [r \in Req |-> stored[r] /\ seen[BackendOf[r]] /\ r \notin old]
  /\ response' = [r \in Req |-> IF r \in old \/ ResponseStartTimeUnset THEN None ELSE response[r]]
  /\ UNCHANGED <<cst, completed, listed, fetched, resp, got, old, seen>>

Next == \/ \E r \in Req : ClientStore(r) \/ WriteResponse(r) \/ MarkCompleted(r) \/ ClientPoll(r) \/ ClientTimeout(r)
        \/ \E b \in Backend : \E r \in Req : AgentFetch(b, r) \/ RespondStart(b, r)
        \/ \E b \in Backend : \E ids \in SUBSET Req : AgentList(b, ids)
        \/ Cron \/ (\E r \in Req : Ages(r)) \/ (\E b \in Backend : GoesQuiet(b) \/ AgentListEmpty(b))
Spec == Init /\ [][Next]_avars
        /\ \A r \in Req : WF_avars(WriteResponse(r)) /\ WF_avars(MarkCompleted(r)) /\ WF_avars(ClientPoll(r))

\* C19: what the agent fetches for an ID is that client's request
FetchIsRequest == \A r \in Req : fetched[r] \in {None, r}
\* C19: the client receives the response posted under its own ID, never another request's
ResponseIsOwn == \A r \in Req : got[r] \in {None, r}
\* C19: once the response call has finished, the request is not listed any more
CompletedNotListed == [][\A b \in Backend : \A ids \in SUBSET Req : AgentList(b, ids) => \A r \in ids : resp[r] # "done"]_avars
\* C17: an agent is only ever handed requests of its own backend
OwnBackendOnly == \A r \in Req : listed[r] => cst[r] # "new"
\* retention never touches an exchange that is still going on: the request and the response of a waiting
\* client survive every run of the cron handler (30 s of waiting against two minutes of retention)
CronSparesWaiting == [][\A r \in Req : cst[r] = "waiting" => ((stored[r] => stored'[r]) /\ (response[r] # None => response'[r] # None))]_avars
\* the retention step as a reference operator for recorded runs of /cron/delete (one exchange): the request entity
\* stays iff its backend was seen within the hour and it is younger than two minutes; the response entity goes iff
\* it looks old (always, while its StartTime is never set); blob parts carry the request's time and go iff old
CronOK(isOld, backendSeen, hadReq, hadResp, hadParts, reqSurvives, respSurvives, partsSurvive) ==
  /\ (hadReq => (reqSurvives <=> (backendSeen /\ ~isOld)))
  /\ (hadResp => (respSurvives <=> ~(isOld \/ ResponseStartTimeUnset)))
  /\ (hadParts => (partsSurvive <=> ~isOld))
\* every response call that started finishes
RespondCompletes == \A r \in Req : (resp[r] = "posting") ~> (resp[r] = "done")
=============================================================================
