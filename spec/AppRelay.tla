------------------------------- MODULE AppRelay -------------------------------
(***************************************************************************)
(* App Engine proxy: relay of requests and responses through the store     *)
(* (app/proxy.go proxyHandler / pendingHandler / requestHandler /          *)
(* responseHandler over app/store and app/cache), C19 (and the "touches    *)
(* only that backend's requests" half of C17) under concurrency.           *)
(*                                                                         *)
(* Requests are stored under (backend, request ID); responses under the    *)
(* request ID alone (store.go) and, in memcache, under (backend, ID).      *)
(* The client handler polls the store for its response; the agent lists    *)
(* the uncompleted requests of its backend, fetches them and posts the     *)
(* responses, whose handler writes the response and marks the request      *)
(* completed in two separate store writes.                                 *)
(***************************************************************************)
EXTENDS Naturals, Sequences, FiniteSets, TLC

CONSTANTS Req,            \* client requests (= their tokens); BackendOf gives the backend each is routed to
          Backend,
          BackendOf,      \* [Req -> Backend]
          SharedResponseKey \* deviation: responses are keyed by something shared (not the request ID)

None == "none"
\* routing used by the model-checking configurations: r3 goes to backend b2, everything else to b1
MCBackendOf == [r \in Req |-> IF r = "r3" THEN "b2" ELSE "b1"]
VARIABLES cst,        \* [Req -> "new" | "waiting" | "done" | "timeout"]
          stored,     \* [Req -> BOOLEAN] request entity written (key = <<BackendOf[r], r>>)
          completed,  \* [Req -> BOOLEAN]
          response,   \* [Req -> token of the stored response, None if none]  (key: request ID)
          listed,     \* [Req -> some list reply carried it]
          fetched,    \* [Req -> token the agent fetched for it (None before)]
          resp,       \* [Req -> "none" | "posting" | "written" | "marked" | "done"] progress of the response call
          got         \* [Req -> token of the response the client received]
avars == <<cst, stored, completed, response, listed, fetched, resp, got>>

Init == /\ cst = [r \in Req |-> "new"] /\ stored = [r \in Req |-> FALSE] /\ completed = [r \in Req |-> FALSE]
        /\ response = [r \in Req |-> None] /\ listed = [r \in Req |-> FALSE] /\ fetched = [r \in Req |-> None]
        /\ resp = [r \in Req |-> "none"] /\ got = [r \in Req |-> None]

ClientStore(r) ==        \* proxyHandler: LookupBackend, serialise, WriteRequest
  /\ cst[r] = "new"
  /\ stored' = [stored EXCEPT ![r] = TRUE] /\ cst' = [cst EXCEPT ![r] = "waiting"]
  /\ UNCHANGED <<completed, response, listed, fetched, resp, got>>

AgentList(b, ids) ==     \* pendingHandler: the uncompleted requests of backend b (here: any non-empty subset, the query has a limit)
  /\ ids # {} /\ ids \subseteq {r \in Req : BackendOf[r] = b /\ stored[r] /\ ~completed[r]}
  /\ listed' = [r \in Req |-> listed[r] \/ r \in ids]
  /\ UNCHANGED <<cst, stored, completed, response, fetched, resp, got>>

AgentFetch(b, r) ==      \* requestHandler: ReadRequest(b, id) - only under the validated backend
  /\ stored[r] /\ BackendOf[r] = b
  /\ fetched' = [fetched EXCEPT ![r] = r]
  /\ UNCHANGED <<cst, stored, completed, response, listed, resp, got>>

\* responseHandler = ReadRequest, then WriteResponse and WriteRequest(completed) in either order
RespondStart(b, r) == /\ resp[r] = "none" /\ stored[r] /\ BackendOf[r] = b /\ fetched[r] # None
                      /\ resp' = [resp EXCEPT ![r] = "posting"]
                      /\ UNCHANGED <<cst, stored, completed, response, listed, fetched, got>>
\* the key the response is stored under: the request ID - or, with the deviation, one shared slot
Slot(r) == IF SharedResponseKey THEN CHOOSE x \in Req : TRUE ELSE r
WriteResponse(r) == /\ resp[r] \in {"posting", "marked"}
                    /\ response' = [response EXCEPT ![Slot(r)] = fetched[r]]     \* the backend answered what it was sent
                    /\ resp' = [resp EXCEPT ![r] = IF resp[r] = "posting" THEN "written" ELSE "done"]
                    /\ UNCHANGED <<cst, stored, completed, listed, fetched, got>>
MarkCompleted(r) == /\ resp[r] \in {"posting", "written"}
                    /\ completed' = [completed EXCEPT ![r] = TRUE]
                    /\ resp' = [resp EXCEPT ![r] = IF resp[r] = "posting" THEN "marked" ELSE "done"]
                    /\ UNCHANGED <<cst, stored, response, listed, fetched, got>>

ClientPoll(r) ==         \* waitForResponse: ReadResponse(backend, id) every 100 ms
  /\ cst[r] = "waiting" /\ response[Slot(r)] # None
  /\ got' = [got EXCEPT ![r] = response[Slot(r)]] /\ cst' = [cst EXCEPT ![r] = "done"]
  /\ UNCHANGED <<stored, completed, response, listed, fetched, resp>>
ClientTimeout(r) ==      \* 30 s without a response: 504
  /\ cst[r] = "waiting" /\ response[Slot(r)] = None
  /\ cst' = [cst EXCEPT ![r] = "timeout"]
  /\ UNCHANGED <<stored, completed, response, listed, fetched, resp, got>>

Next == \/ \E r \in Req : ClientStore(r) \/ WriteResponse(r) \/ MarkCompleted(r) \/ ClientPoll(r) \/ ClientTimeout(r)
        \/ \E b \in Backend : \E r \in Req : AgentFetch(b, r) \/ RespondStart(b, r)
        \/ \E b \in Backend : \E ids \in SUBSET Req : AgentList(b, ids)
Spec == Init /\ [][Next]_avars
        /\ \A r \in Req : WF_avars(WriteResponse(r)) /\ WF_avars(MarkCompleted(r)) /\ WF_avars(ClientPoll(r))

\* C19: what the agent fetches for an ID is that client's request
FetchIsRequest == \A r \in Req : fetched[r] \in {None, r}
\* C19: the client receives the response posted under its own ID, never another request's
ResponseIsOwn == \A r \in Req : got[r] \in {None, r}
\* C19: once the response call has finished, the request is not listed any more
CompletedNotListed == [][\A b \in Backend : \A ids \in SUBSET Req : AgentList(b, ids) => \A r \in ids : resp[r] # "done"]_avars
\* C17: an agent is only ever handed requests of its own backend
OwnBackendOnly == \A r \in Req : listed[r] => stored[r]
\* every response call that started finishes
RespondCompletes == \A r \in Req : (resp[r] = "posting") ~> (resp[r] = "done")
=============================================================================
