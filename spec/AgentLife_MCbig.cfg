CONSTANTS ShiftUnguarded = FALSE Threshold = 3 HealthEnabled = TRUE Grace = 3 MaxChecks = 6 MaxLists = 4 Latency = 2
          PollBeforeHealthy = FALSE NoReset = FALSE CancelWorkers = FALSE
SPECIFICATION LSpec
CHECK_DEADLOCK FALSE
INVARIANTS NoListBeforeHealthy ExitAtThreshold ResetOnPass BadBounded InFlightAnswered BoundsPositive BoundsCapped BoundsDouble BoundsStart BoundsMonotone TargetWithinBounds
PROPERTIES NoNewPolls NoBusyLoop ResetOnSuccess
