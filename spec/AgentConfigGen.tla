---------------------------- MODULE AgentConfigGen ----------------------------
EXTENDS AgentConfig, SequencesExt, Json, IOUtils, TLC
ASSUME Sane
ASSUME JsonSerialize(IOEnv.VERIF_OUT, [p \in Props |-> SetToSeq(ConfigsFor(p))])
=============================================================================
