CONSTANTS Q = 2 NClient = 1 NServer = 2 Calls = {k1, k2} CloseClosesChan = FALSE DrainByCount = TRUE SweepDone = FALSE
SPECIFICATION Spec
CHECK_DEADLOCK FALSE
PROPERTIES Answered
