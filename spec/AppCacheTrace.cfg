SPECIFICATION TSpec
CHECK_DEADLOCK FALSE
POSTCONDITION Accepted
