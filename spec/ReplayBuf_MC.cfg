CONSTANTS N = 4 StreamLen = 7
SPECIFICATION RSpec
CHECK_DEADLOCK FALSE
INVARIANTS PosWithinHi
PROPERTIES SeekOnlyWhileReplayable
