---------------------------- MODULE ReplayBufGen ----------------------------
(* Call schedules for the real bufferedReadSeeker: every sequence of up to    *)
(* MaxOps calls over reads of five buffer sizes and Seek(0), against sources  *)
(* that hand out the stream in pieces of the given sizes.                     *)
EXTENDS Naturals, Sequences, SequencesExt, FiniteSets, Json, IOUtils, TLC
CONSTANT MaxOps
Ops == {"r1", "r7", "r100", "r3000", "r5000", "seek"}
Schedules == UNION {[1..k -> Ops] : k \in 1..MaxOps}
Interesting(s) == \E i \in 1..Len(s) : s[i] = "seek"
PieceSizes == {<<1>>, <<7, 100>>, <<1000>>, <<4095, 1, 1>>, <<5000>>, <<100, 3996, 1>>}
VARIABLE x
GInit == x = 0
GNext == x' = x
ASSUME JsonSerialize(IOEnv.VERIF_OUT, [schedules |-> SetToSeq({s \in Schedules : Interesting(s)}), pieces |-> SetToSeq(PieceSizes)])
=============================================================================
