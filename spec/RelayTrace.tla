----------------------------- MODULE RelayTrace -----------------------------
(* Trace specification: a recorded execution of the real proxy + agent +     *)
(* harness backend/clients must be a behaviour of Relay.  Events come from   *)
(* verifhook.Emit calls in server/server.go and agent/agent.go (src proxy /  *)
(* agent) and from the harness (clients, backend).  All invariants of Relay  *)
(* are evaluated after every consumed event.                                 *)
EXTENDS TraceCommon, FiniteSets

TReq    == FieldSet("ClientSend", "r")
TIds    == FieldSet("Register", "id") \cup FieldSet("Dedup", "id") \cup FieldSet("Fetch", "id") \cup FieldSet("PostLookup", "id")
TPoller == FieldSet("ListStart", "p")
TAgentPoller == {Trace[k].p : k \in {j \in 1..TLen : Trace[j].ev = "ListReply" /\ Trace[j].backend = "agent"}}
TVictims == FieldSet("Fault", "r")

VARIABLES pc, idOf, pending, ps, batch, agent, cur, seen, w, wreq, wresp, plook,
          inflight, delivered, calls, handed, faults, hit, l

R == INSTANCE Relay WITH Req <- TReq, IdPool <- TIds, Poller <- TPoller, AgentPoller <- TAgentPoller,
                         LruCap <- 1000, MaxFaults <- 1000000, Victims <- TVictims, UniqueIds <- FALSE, CleanCut <- FALSE

rvars == <<pc, idOf, pending, ps, batch, agent, cur, seen, w, wreq, wresp, plook, inflight, delivered, calls, handed, faults, hit>>

Is(e)  == l <= TLen /\ Trace[l].ev = e
E      == Trace[l]
Step   == l' = l + 1 /\ Mark(l)
Stutter == UNCHANGED rvars

Seq2(ids) == ids   \* the orchestrator normalises a JSON null (nil Go slice) to []

TInit == R!Init /\ l = 1 /\ HWMInit

TReset      == Is("Reset")
               /\ pc' = [r \in TReq |-> "new"] /\ idOf' = [r \in TReq |-> "none"]
               /\ pending' = [i \in TIds |-> "none"] /\ ps' = [p \in TPoller |-> "idle"]
               /\ batch' = [p \in TPoller |-> <<>>] /\ agent' = "idle" /\ cur' = <<>> /\ seen' = <<>>
               /\ w' = [i \in TIds |-> "none"] /\ wreq' = [i \in TIds |-> "none"]
               /\ wresp' = [i \in TIds |-> <<"none", "none">>] /\ plook' = [i \in TIds |-> "none"] /\ inflight' = [r \in TReq |-> <<"none", "none">>]
               /\ delivered' = [r \in TReq |-> <<"none", "none">>] /\ calls' = [r \in TReq |-> 0]
               /\ handed' = [i \in TIds |-> 0] /\ faults' = 0 /\ hit' = {}
               /\ Step
TClientSend == Is("ClientSend") /\ pc[E.r] = "new" /\ Stutter
               /\ Step
TRegister   == Is("Register") /\ E.uri \in TReq /\ R!Register(E.uri, E.id)
               /\ Step
TListStart  == Is("ListStart") /\ R!ListStart(E.p)
               /\ Step
TRecv       == Is("Recv") /\ pending[E.id] # "none" /\ idOf[pending[E.id]] = E.id
               /\ R!Recv(E.p, pending[E.id])
               /\ Step
TListReply  == Is("ListReply")
               /\ (IF Seq2(E.ids) = <<>>
                    THEN R!ListTimeout(E.p) \/ (ps[E.p] = "idle" /\ Stutter)
                    ELSE batch[E.p] = E.ids /\ R!ListReplyAny(E.p))
               /\ Step
\* agent side of the list call: the loop sees exactly the batch the proxy replied with
TListOK     == Is("ListOK") /\ Stutter
               /\ (IF Seq2(E.ids) = <<>> THEN cur = <<>> ELSE (cur = E.ids /\ agent = "proc"))
               /\ Step
TDedup      == Is("Dedup") /\ cur # <<>> /\ Head(cur) = E.id /\ R!AgentDedupStep
               /\ Step
TSpawn      == Is("Spawn") /\ w[E.id] = "fetch" /\ Stutter
               /\ Step
TFetch      == Is("Fetch") /\ (E.found <=> pending[E.id] # "none")
               /\ R!WFetch(E.id)
               /\ Step
TWForward   == Is("WForward") /\ w[E.id] = "forward" /\ Stutter
               /\ Step
TBackend    == Is("BackendHandle")
               /\ (\E i \in TIds : wreq[i] = E.tok /\ ((w[i] = "forward" /\ R!WForward(i)) \/ (w[i] = "retry" /\ R!Resend(i))))
               /\ Step
TBackendReply == Is("BackendReply")
               /\ (\E i \in TIds : w[i] = "backend" /\ wreq[i] = E.tok /\ R!BackendReply(i))
               /\ Step
TBackendFault == Is("BackendFault")
               /\ \E i \in TIds : /\ wreq[i] = E.tok
                                  /\ \/ (E.kind = "down" /\ R!BackendDown(i))
                                     \/ (E.kind # "down" /\ R!BackendBreaks(i))
                                     \/ (E.kind = "be-close" /\ R!TransportRetry(i))   \* (idempotent request, nothing answered)
               /\ Step
TPostLookup == Is("PostLookup") /\ (E.found <=> pending[E.id] # "none") /\ R!PostLookup(E.id)
               /\ Step
\* another upload attempt of a victim reaches the proxy: the previous one was aborted (PostAborted ; PostLookup,
\* composed by hand) - the waiter found is the same one
\* (the harness's report of the first cut and the proxy's look-up for that same attempt are written by two processes
\* with nothing ordering them: the look-up may also be the first one, arriving after the report)
TPostRelookup == Is("PostLookup") /\ (plook[E.id] # "none" \/ w[E.id] = "failed") /\ wreq[E.id] \in TVictims
               /\ w[E.id] \in {"forward", "backend", "retry", "upload", "failed"}   \* ("failed": the harness reports the fault at the first cut)
               /\ (E.found <=> pending[E.id] # "none")
               /\ plook' = [plook EXCEPT ![E.id] = IF pending[E.id] = "none" THEN "nf" ELSE pending[E.id]]
               /\ faults' = faults + 1 /\ hit' = hit \cup {wreq[E.id]}
               /\ UNCHANGED <<pc, idOf, pending, ps, batch, agent, cur, seen, w, wreq, wresp, inflight, delivered, calls, handed>>
               /\ Step
\* hand-composition LocalAnswer ; Handoff (TLC has no action composition): the agent answered
\* without the backend (502 of ReverseProxy, 4xx of the shim) and the proxy hands that over
KindOf(st) == IF st = 502 THEN "502" ELSE "status" \o ToString(st)
LocalHandoff(i, st) ==
  /\ w[i] = "forward" /\ wreq[i] \in TVictims    \* (any status: the shim answers its own calls, 200 included)
  /\ plook[i] \notin {"none", "nf"} /\ pc[plook[i]] = "waiting"
  /\ inflight' = [inflight EXCEPT ![plook[i]] = <<KindOf(st), wreq[i]>>]
  /\ wresp' = [wresp EXCEPT ![i] = <<KindOf(st), wreq[i]>>]
  /\ pc' = [pc EXCEPT ![plook[i]] = "copying"]
  /\ w' = [w EXCEPT ![i] = "done"]
  /\ hit' = hit \cup {wreq[i]} /\ faults' = faults + 1
  /\ UNCHANGED <<idOf, pending, ps, batch, agent, cur, seen, wreq, plook, delivered, calls, handed>>
TClientResp == Is("ClientResp") /\ (R!Handoff(E.id) \/ LocalHandoff(E.id, E.status))
               /\ Step
\* the logged response must be the one Relay derives through the chain, and (OneClientPerResponse,
\* checked incrementally here because the quantifier over all pairs is quadratic in the trace) no
\* other client has received the same backend response
TClientRecv == Is("ClientRecv") /\ R!ClientDone(E.r) /\ delivered'[E.r] = <<E.kind, E.tok>>
               /\ (\A r2 \in TReq : (r2 # E.r /\ E.kind = "ok") => delivered[r2] # <<E.kind, E.tok>>)
               /\ Step
TClientCancel == Is("ClientCancel") /\ pending[E.id] # "none" /\ R!ClientCancel(pending[E.id])
               /\ Step
\* a victim's client gave up waiting (its request was hit by an injected fault)
TClientGaveUp == Is("ClientGaveUp") /\ E.r \in hit \cup TVictims /\ Stutter
               /\ Step
TFault      == Is("Fault") /\ Stutter
               /\ Step
TWServed    == Is("WServed") /\ Stutter
               /\ Step
TWClosed    == Is("WClosed") /\ Stutter
               /\ Step
TPostFault  == Is("PostFault") /\ R!PostFault(E.id)
               /\ Step
TFetchFault == Is("FetchFault") /\ R!WFetchFault(E.id)
               /\ Step
TOther      == (Is("PollCheck") \/ Is("Healthy") \/ Is("Backoff") \/ Is("ListFail") \/ Is("HealthProbe")
                \/ Is("SWHeader") \/ Is("SWWrite") \/ Is("SWClose") \/ Is("SerStart") \/ Is("SerDone")
                \/ Is("Attempt") \/ Is("AttemptStatus") \/ Is("AttemptErr") \/ Is("BrsRead") \/ Is("BrsSeek"))
               /\ Stutter
               /\ Step
\* volume scenarios run without per-request events: their summary says that every request got its own response
\* (judged by the harness from the tokens) and that both processes are still there
TVolume     == (Is("RelayVolume") \/ Is("FaultVolume")) /\ Stutter
               /\ E.wrong = 0 /\ E.unanswered = 0 /\ E.other = 0 /\ E.agent_alive /\ E.proxy_alive
               /\ Step
\* after a series of refused websocket-shim calls a healthy shim exchange (open, data, poll, close on a new session)
\* is served: isolation holds for the requests the agent answers itself, too
TShimHealthy == Is("ShimHealthy") /\ Stutter /\ E.ok
               /\ Step
\* end of a scenario: every client that was not hit by a fault has its own OK response, and
\* both processes are still running (no action of Relay ever stops the agent)
TFinal      == Is("Final") /\ Stutter
               /\ E.agent_alive /\ E.proxy_alive
               /\ (\A r \in TReq : (pc[r] # "new" /\ r \notin TVictims) => delivered[r] = <<"ok", r>>)
               /\ Step
TNext == TReset \/ TClientSend \/ TRegister \/ TListStart \/ TRecv \/ TListReply \/ TListOK \/ TDedup
         \/ TSpawn \/ TFetch \/ TWForward \/ TBackend \/ TBackendReply \/ TBackendFault \/ TPostLookup \/ TPostRelookup
         \/ TClientResp \/ TClientRecv \/ TClientCancel \/ TClientGaveUp \/ TFault \/ TWServed
         \/ TWClosed \/ TPostFault \/ TFetchFault \/ TOther \/ TFinal \/ TVolume \/ TShimHealthy

TSpec == TInit /\ [][TNext]_<<rvars, l>>

Correlation == R!Correlation
OneClientPerResponse == R!OneClientPerResponse
AtMostOnce == R!AtMostOnce
HandOffOnce == R!HandOffOnce
Isolation == R!Isolation
BadGateway == R!BadGateway
=============================================================================
