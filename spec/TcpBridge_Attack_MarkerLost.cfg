\* the CloseWrite marker goes out under the deadline of the last data write and is lost after a quiet period:
\* the close never reaches the other peer (ClosePropagates fails)
CONSTANTS N = 2 MaxSeg = 2 Marker = TRUE Timers = {"marker-write"}
SPECIFICATION Spec
CHECK_DEADLOCK FALSE
PROPERTIES ClosePropagates
