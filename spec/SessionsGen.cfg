INIT GInit
NEXT GNext
