---------------------------- MODULE HttpMsgTrace ----------------------------
(* Every recorded case (what one end sent, what the other end received through *)
(* the real proxy + agent) is judged by the reference semantics of HttpMsg.    *)
EXTENDS TraceCommon, FiniteSets

VARIABLES stage, msg, kind, input, l
H == INSTANCE HttpMsg WITH NameClass <- {"e2e"}, Hop <- {}, IdentityAdd <- FALSE, JoinedTrailerNames <- FALSE, LatchInterim <- FALSE
hv == <<stage, msg, kind, input>>
Is(e) == l <= TLen /\ Trace[l].ev = e
E == Trace[l]
Step == l' = l + 1 /\ Mark(l)

TInit == stage = "trace" /\ msg = 0 /\ kind = "trace" /\ input = 0 /\ l = 1 /\ HWMInit
TReset    == Is("Reset") /\ UNCHANGED hv
               /\ Step
TReqCase  == Is("ReqCase") /\ UNCHANGED hv /\ H!ReqOKUnder(E.mux, E.canon, E.in, E.out, E.client_status)
               /\ Step
TRespCase == Is("RespCase") /\ UNCHANGED hv /\ H!RespOK(E.in, E.out)
               /\ Step
\* an exchange that is cut short (the agent's call to the proxy runs into its time-out while the backend is still
\* producing the body): whatever reaches the client without any error must be the backend's response - a partial
\* body must not be dressed up as a complete one
TCutCase  == Is("CutCase") /\ UNCHANGED hv /\ (E.clean => H!RespOK(E.in, E.out))
               /\ Step
\* C10 through the agent's own handler chain, session tracking together with the websocket shim: the handshake of a
\* websocket opened in a session carries the cookies the backend set in that session for its path plus the client's own,
\* never the session cookie; the session cookie reaches the backend on no later request either
TSessShim == Is("SessShim") /\ UNCHANGED hv
             /\ E.session_started /\ E.handshake_reached_backend
             /\ E.handshake_has_backend_cookie /\ E.handshake_has_client_cookie /\ ~E.handshake_has_session_cookie
             /\ ~E.later_request_has_session_cookie /\ ~E.other_path_has_scoped_cookie
               /\ Step
TIdCase   == Is("IdCase") /\ UNCHANGED hv
             /\ H!IdentityOK(E.fwd, E.asserted, E.saw_user) /\ H!CredsOK(E.strip, E.saw_auth)
             /\ (~E.fwd => E.saw_user = E.sent_user) /\ (~E.strip => E.saw_auth = E.sent_auth)
               /\ Step
TNext == TReset \/ TReqCase \/ TRespCase \/ TCutCase \/ TSessShim \/ TIdCase
TSpec == TInit /\ [][TNext]_<<hv, l>>
=============================================================================
