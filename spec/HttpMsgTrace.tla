---------------------------- MODULE HttpMsgTrace ----------------------------
(* Every recorded case (what one end sent, what the other end received through *)
(* the real proxy + agent) is judged by the reference semantics of HttpMsg.    *)
EXTENDS TraceCommon, FiniteSets

VARIABLES stage, msg, kind, input, l
H == INSTANCE HttpMsg WITH NameClass <- {"e2e"}, Hop <- {}, IdentityAdd <- FALSE, JoinedTrailerNames <- FALSE, LatchInterim <- FALSE
hv == <<stage, msg, kind, input>>
Is(e) == l <= TLen /\ Trace[l].ev = e
E == Trace[l]
Step == l' = l + 1 /\ Mark(l)

TInit == stage = "trace" /\ msg = 0 /\ kind = "trace" /\ input = 0 /\ l = 1 /\ HWMInit
TReset    == Is("Reset") /\ UNCHANGED hv
               /\ Step
TReqCase  == Is("ReqCase") /\ UNCHANGED hv /\ H!ReqOKUnder(E.mux, E.canon, E.in, E.out, E.client_status)
               /\ Step
TRespCase == Is("RespCase") /\ UNCHANGED hv /\ H!RespOK(E.in, E.out)
               /\ Step
\* an exchange that is cut short (the agent's call to the proxy runs into its time-out while the backend is still
\* producing the body): whatever reaches the client without any error must be the backend's response - a partial
\* body must not be dressed up as a complete one
TCutCase  == Is("CutCase") /\ UNCHANGED hv /\ (E.clean => H!RespOK(E.in, E.out))
               /\ Step
TIdCase   == Is("IdCase") /\ UNCHANGED hv
             /\ H!IdentityOK(E.fwd, E.asserted, E.saw_user) /\ H!CredsOK(E.strip, E.saw_auth)
             /\ (~E.fwd => E.saw_user = E.sent_user) /\ (~E.strip => E.saw_auth = E.sent_auth)
               /\ Step
TNext == TReset \/ TReqCase \/ TRespCase \/ TCutCase \/ TIdCase
TSpec == TInit /\ [][TNext]_<<hv, l>>
=============================================================================
