----------------------------- MODULE SessionsGen -----------------------------
(* Request / cookie-operation classes for C10 histories, exported by TLC.      *)
EXTENDS Naturals, Sequences, SequencesExt, FiniteSets, Json, IOUtils, TLC
Dom == [
  session |-> {"S1", "S2", "S3", "N"},                 \* N: a client that never keeps the session cookie
  host    |-> {"h1.example.com", "sub.h1.example.com", "h2.example.com", "tenant-a.example.co.uk", "tenant-b.other.co.uk"},
  path    |-> {"/", "/a", "/a/b", "/other"},
  op      |-> {"none", "set", "overwrite", "delete-maxage", "delete-expires", "path-scoped", "domain-scoped", "secure", "httponly",
               "two-cookies", "same-name-other-path",
               \* Domain attributes a compliant jar has to refuse or scope: a public suffix, a foreign domain, a parent domain
               "domain-public-suffix", "domain-foreign", "domain-parent", "samesite", "expires-future", "maxage-zero-then-set",
               \* the same name and value as in an earlier response of the session, with other attributes: what a jar does
               \* with a cookie depends on what it already holds (deleting by re-sending, re-scoping, refreshing)
               "same-set", "same-delete-maxage", "same-delete-expires", "same-path-a", "same-path-root", "same-refresh"},
  extra   |-> {"none", "one", "two", "same-name-as-jar",
               "two-lines", "three-lines-session-last"} ]      \* the client's cookies spread over several Cookie header lines
SameOps == {"same-set", "same-delete-maxage", "same-delete-expires", "same-path-a", "same-path-root", "same-refresh"}
VARIABLE x
GInit == x = 0
GNext == x' = x
ASSUME JsonSerialize(IOEnv.VERIF_OUT, [k \in DOMAIN Dom |-> SetToSeq(Dom[k])] @@ [sameop |-> SetToSeq(SameOps)])
=============================================================================
