SPECIFICATION TSpec
CHECK_DEADLOCK FALSE
INVARIANTS Correlation AtMostOnce HandOffOnce Isolation BadGateway
POSTCONDITION Accepted
