CONSTANTS StaleGrants = FALSE HistLen = 5
INIT HInit
NEXT HNext
CHECK_DEADLOCK FALSE
