INIT Init
NEXT Next
