CONSTANTS NameClass = {"e2e", "e2e2", "hop"} Hop = {"hop"} IdentityAdd = FALSE JoinedTrailerNames = TRUE LatchInterim = FALSE
SPECIFICATION PSpec
CHECK_DEADLOCK FALSE
INVARIANTS ReqPipelineOK RespPipelineOK
