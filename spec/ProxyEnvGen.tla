----------------------------- MODULE ProxyEnvGen -----------------------------
(***************************************************************************)
(* Schedules of the proxy's ENVIRONMENT (clients, the agent's list / fetch *)
(* / post calls, a foreign poller, client disconnects) for two client      *)
(* requests, enumerated by TLC: every well-formed sequence of up to MaxLen *)
(* environment steps.  They are the external actions of Relay (Register is *)
(* triggered by Send, Recv/ListReply by List, WFetch by Fetch, PostLookup/ *)
(* Handoff by Post, ClientCancel by Cancel); the harness performs them one *)
(* by one against the real proxy binary, playing the agent itself.         *)
(***************************************************************************)
EXTENDS Naturals, Sequences, SequencesExt, FiniteSets, Json, IOUtils, TLC
CONSTANT MaxLen
Reqs == {"A", "B"}
Alphabet == [op : {"Send", "Cancel", "Fetch", "Post"}, r : Reqs] \cup {[op |-> "List", r |-> "-"], [op |-> "ForeignList", r |-> "-"]}

Idx(s, op, r) == {k \in 1..Len(s) : s[k].op = op /\ s[k].r = r}
Has(s, op, r) == Idx(s, op, r) # {}
First(s, op, r) == CHOOSE k \in Idx(s, op, r) : \A j \in Idx(s, op, r) : k <= j
ListIdx(s) == {k \in 1..Len(s) : s[k].op \in {"List", "ForeignList"}}
\* r was offered (sent, not cancelled) when list step k ran, and no earlier list step had taken it
TakenAt(s, r) == {k \in ListIdx(s) : Has(s, "Send", r) /\ First(s, "Send", r) < k
                                    /\ (Has(s, "Cancel", r) => k < First(s, "Cancel", r))}
Taken(s, r) == TakenAt(s, r) # {}
TakenBy(s, r) == LET k == CHOOSE x \in TakenAt(s, r) : \A y \in TakenAt(s, r) : x <= y IN s[k].op
Offered(s) == {r \in Reqs : Has(s, "Send", r) /\ ~Has(s, "Cancel", r) /\ ~Taken(s, r)}

\* may step a follow the schedule s?
OK(s, a) ==
  CASE a.op = "Send"   -> ~Has(s, "Send", a.r)
    [] a.op = "Cancel" -> Has(s, "Send", a.r) /\ ~Has(s, "Cancel", a.r) /\ ~Has(s, "Post", a.r)
    [] a.op \in {"List", "ForeignList"} -> Offered(s) # {}               \* so that the call returns at once
    [] a.op = "Fetch"  -> Taken(s, a.r) /\ TakenBy(s, a.r) = "List" /\ ~Has(s, "Fetch", a.r)
    [] a.op = "Post"   -> Has(s, "Fetch", a.r) /\ ~Has(s, "Post", a.r)
    [] OTHER -> FALSE

\* only well-formed extensions survive
RECURSIVE WF(_)
WF(n) == IF n = 0 THEN {<<>>}
         ELSE LET P == WF(n - 1) IN P \cup UNION {{Append(s, a) : a \in {b \in Alphabet : OK(s, b)}} : s \in {x \in P : Len(x) = n - 1}}
\* complete schedules: nothing useful is left to do (every sent request was taken or cancelled, every
\* request the agent took was fetched and posted) - plus all schedules of maximal length
Complete(s) == \A r \in Reqs : Has(s, "Send", r) =>
                  \/ (Taken(s, r) /\ TakenBy(s, r) = "ForeignList")
                  \/ (Taken(s, r) /\ Has(s, "Post", r))
                  \/ (Has(s, "Cancel", r) /\ (Taken(s, r) => Has(s, "Post", r) \/ ~Has(s, "Fetch", r)))
Schedules == {s \in WF(MaxLen) : Len(s) >= 3 /\ (Complete(s) \/ Len(s) = MaxLen)}
VARIABLE x
GInit == x = 0
GNext == x' = x
ASSUME JsonSerialize(IOEnv.VERIF_OUT, [schedules |-> SetToSeq(Schedules)])
=============================================================================
