-------------------------- MODULE AgentDedupTrace --------------------------
(* A recorded run of the real agent binary against the scripted fake proxy    *)
(* must be a behaviour of AgentDedup.  FakeList / FakeFetch / FakePost /      *)
(* BackendHandle are harness observables, ListOK / Dedup / Spawn agent hooks. *)
EXTENDS TraceCommon, FiniteSets

TIds == FieldSet("Dedup", "id") \cup FieldSet("FakeFetch", "id") \cup FieldSet("BackendHandle", "id") \cup FieldSet("FakePost", "id") \cup FieldSet("FakePostFail", "id")

VARIABLES lists, agent, cur, seen, w, calls, served, lost, l

D == INSTANCE AgentDedup WITH IdPool <- TIds, LruCap <- 1000, MaxBatch <- 0, MaxLists <- 0, NoDedup <- FALSE, ForgetOnFailure <- FALSE

dvars == <<lists, agent, cur, seen, w, calls, served, lost>>
Is(e) == l <= TLen /\ Trace[l].ev = e
E == Trace[l]
Step == l' = l + 1 /\ Mark(l)
Stutter == UNCHANGED dvars

TInit == D!Init /\ l = 1 /\ HWMInit

\* a new scenario uses fresh IDs against the same agent: the window of earlier scenarios cannot
\* interfere (the driver restarts the agent before 1000 IDs have been used)
TReset == Is("Reset") /\ lists' = 0 /\ agent' = "idle" /\ cur' = <<>> /\ seen' = <<>>
          /\ w' = [i \in TIds |-> <<>>] /\ calls' = [i \in TIds |-> 0] /\ served' = [i \in TIds |-> 0] /\ lost' = FALSE

               /\ Step
\* the environment action: the fake proxy replies to the agent's list call
TFakeList == Is("FakeList")
             /\ (IF E.ids = <<>> THEN agent = "idle" /\ Stutter
                ELSE /\ agent = "idle" /\ lists' = lists + 1 /\ cur' = E.ids /\ agent' = "proc" /\ lost' = FALSE
                     /\ UNCHANGED <<seen, w, calls, served>>)
               /\ Step
\* the fake proxy fails the agent's list call (5xx / connection closed): AgentDedup's EnvListFail - nothing is forgotten
TFakeListFail == Is("FakeListFail") /\ agent = "idle" /\ lists' = lists + 1 /\ lost' = TRUE
                 /\ UNCHANGED <<agent, cur, seen, w, calls, served>>
               /\ Step
TListOK   == Is("ListOK") /\ Stutter /\ cur = E.ids
               /\ Step
TDedup    == Is("Dedup") /\ cur # <<>> /\ Head(cur) = E.id /\ D!DedupStep
               /\ Step
TSpawn    == Is("Spawn") /\ Stutter /\ Len(w[E.id]) > 0 /\ w[E.id][Len(w[E.id])] = "fetch"
               /\ Step
TFetch    == Is("FakeFetch") /\ (\E k \in 1..Len(w[E.id]) : w[E.id][k] = "fetch" /\ D!WStep(E.id, k))
               /\ Step
TBackend  == Is("BackendHandle") /\ (\E k \in 1..Len(w[E.id]) : w[E.id][k] = "forward" /\ D!WStep(E.id, k))
               /\ Step
\* the proxy hung up on an upload attempt: nothing changes yet (up to three attempts); the worker gives up when
\* the harness reports the last hang-up
TPostFail == Is("FakePostFail") /\ (IF E.final THEN (\E k \in 1..Len(w[E.id]) : D!WUploadFails(E.id, k)) ELSE Stutter)
               /\ Step
TPost     == Is("FakePost") /\ E.ok /\ (\E k \in 1..Len(w[E.id]) : w[E.id][k] = "upload" /\ D!WStep(E.id, k))
               /\ Step
\* the same response uploaded once more after it had been received completely (an upload attempt repeated by the
\* agent's retry logic): the uploads are C06's concern; for de-duplication this changes nothing
TPostAgain == Is("FakePost") /\ E.ok /\ (\E k \in 1..Len(w[E.id]) : w[E.id][k] = "done")
              /\ ~(\E k \in 1..Len(w[E.id]) : w[E.id][k] = "upload") /\ Stutter
               /\ Step
TOther    == (Is("PollCheck") \/ Is("Healthy") \/ Is("WForward") \/ Is("WServed") \/ Is("WClosed")
              \/ Is("SWHeader") \/ Is("SWWrite") \/ Is("SWClose") \/ Is("SerStart") \/ Is("SerDone")
              \/ Is("Attempt") \/ Is("AttemptStatus") \/ Is("AttemptErr") \/ Is("BrsRead") \/ Is("BrsSeek")
              \/ Is("Backoff") \/ Is("ListFail") \/ Is("HealthProbe"))
             /\ Stutter
               /\ Step
\* end of a history: everything that was listed has been forwarded exactly once and served once
TFinal    == Is("Final") /\ Stutter /\ E.agent_alive
             /\ (\A i \in TIds : Len(w[i]) > 0 => (calls[i] = 1 /\ (served[i] = 1 \/ \E k \in 1..Len(w[i]) : w[i][k] = "failed")))
               /\ Step
TNext == TReset \/ TFakeList \/ TFakeListFail \/ TListOK \/ TDedup \/ TSpawn \/ TFetch \/ TBackend \/ TPost \/ TPostAgain \/ TPostFail \/ TOther \/ TFinal
TSpec == TInit /\ [][TNext]_<<dvars, l>>

AtMostOnce == D!AtMostOnce
OneWorker == D!OneWorker
=============================================================================
