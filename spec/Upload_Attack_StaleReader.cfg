CONSTANTS M = 3 N = 3 MaxAttempts = 3 MaxFail = 2 StaleReader = TRUE LockStep = FALSE BufferAll = FALSE Timers = {}
INIT Init
NEXT Next
CHECK_DEADLOCK FALSE
INVARIANTS AckedIntegrity
