\* the property's side condition: no more distinct IDs than the window holds
CONSTANTS IdPool = {a, b} LruCap = 2 MaxBatch = 3 MaxLists = 4 NoDedup = FALSE ForgetOnFailure = FALSE
SPECIFICATION Spec
CHECK_DEADLOCK FALSE
INVARIANTS AtMostOnce OneWorker
PROPERTIES ExactlyOnce
