CONSTANTS NameClass = {"e2e", "e2e2", "hop"} Hop = {"hop"} IdentityAdd = FALSE JoinedTrailerNames = FALSE LatchInterim = TRUE
SPECIFICATION PSpec
CHECK_DEADLOCK FALSE
INVARIANTS ReqPipelineOK RespPipelineOK
