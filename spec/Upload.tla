------------------------------- MODULE Upload -------------------------------
(* Response forwarder of the agent, agent/utils/utils.go:315-384,548-626, at token grain
   (C05 streaming, C06 retried uploads).
   The serialised response is the token sequence 1..M followed by EOF.
   upload pipe = synchronous one-slot hand-off (io.Pipe).
   bufferedReadSeeker.Read = three steps: serve-from-buffer, blocking source
   read, bookkeeping; tokens reach the wire only when Read returns.          *)
EXTENDS Naturals, Sequences, FiniteSets, TLC

CONSTANTS M,            \* tokens in the serialised response
          N,            \* replay buffer capacity (4096 in the code)
          MaxAttempts,  \* 1 + maxWriteResponseRetryCount = 3
          MaxFail,      \* how many attempts the proxy may fail
          StaleReader,  \* TRUE: a failed attempt's reader parked in the source read survives the retry
          LockStep,     \* TRUE: producer emits token k+1 only after the proxy observed token k (C05)
          BufferAll,    \* deviation switch: the serialiser waits for the whole body before uploading
          Timers        \* deviations that turn a quiet period into an event (the code has none: {})
                        \*   "release-replay": the replay buffer is given back after a while; Seek(0) still succeeds
                        \*   "idle-cut": the pipe is closed when the handler has been quiet for a while

EOF == 0
Att == 1..MaxAttempts

VARIABLES
  made,     \* tokens the backend-facing handler has produced so far
  nextTok,  \* next token the serialiser will hand to the pipe (M+1 = all handed)
  closed,   \* serialiser closed the pipe writer
  slot,     \* token parked in the pipe, or -1... use 0 for empty: tokens are 1..M so EOF/empty = 0
  buf, wh, rh,
  rd,       \* [Att -> "none" | "idle" | "blocked" | "booking" | "dead"]
  held,     \* [Att -> Seq] tokens served from the buffer in step A of the current Read
  got,      \* [Att -> Seq] tokens (or <<EOF>>) returned by the source read, awaiting bookkeeping
  conn,     \* [Att -> "none" | "open" | "closed"]
  wire,     \* [Att -> Seq] what the proxy received on that attempt
  reply,    \* [Att -> "none" | "5xx" | "2xx"]
  cur,      \* current attempt
  post,     \* "doing" | "ok" | "fail"
  fails,
  producerStuck \* set when the producer's pipe write fails (pipe reader closed)

vars == <<made, nextTok, closed, slot, buf, wh, rh, rd, held, got, conn, wire, reply, cur, post, fails, producerStuck>>

Full == [k \in 1..M |-> k] \o <<EOF>>

Init ==
  /\ made = 0 /\ nextTok = 1 /\ closed = FALSE /\ slot = 0
  /\ buf = <<>> /\ wh = 0 /\ rh = 0
  /\ rd = [a \in Att |-> IF a = 1 THEN "idle" ELSE "none"]
  /\ held = [a \in Att |-> <<>>] /\ got = [a \in Att |-> <<>>]
  /\ conn = [a \in Att |-> IF a = 1 THEN "open" ELSE "none"]
  /\ wire = [a \in Att |-> <<>>]
  /\ reply = [a \in Att |-> "none"]
  /\ cur = 1 /\ post = "doing" /\ fails = 0 /\ producerStuck = FALSE

Observed(k) == \E a \in Att : \E j \in 1..Len(wire[a]) : wire[a][j] = k

(* ---- serialiser writing into the upload pipe ---- *)
Produce ==            \* the handler writes the next piece (lock-step: only after the previous one was observed)
  /\ post = "doing" /\ made < M
  /\ (LockStep => (made = 0 \/ Observed(made)))
  /\ made' = made + 1
  /\ UNCHANGED <<nextTok, closed, slot, buf, wh, rh, rd, held, got, conn, wire, reply, cur, post, fails, producerStuck>>

Hand ==               \* the serialiser hands a produced piece to the upload pipe
  /\ post = "doing" /\ slot = 0 /\ nextTok <= made
  /\ (BufferAll => made = M)
  /\ slot' = nextTok /\ nextTok' = nextTok + 1
  /\ UNCHANGED <<made, closed, buf, wh, rh, rd, held, got, conn, wire, reply, cur, post, fails, producerStuck>>

ClosePipe ==
  /\ ~closed /\ slot = 0 /\ nextTok = M + 1
  /\ closed' = TRUE
  /\ UNCHANGED <<made, nextTok, slot, buf, wh, rh, rd, held, got, conn, wire, reply, cur, post, fails, producerStuck>>

ProducerReleased ==   \* poster gave up: proxyReader.Close() makes further pipe writes fail
  /\ post = "fail" /\ ~producerStuck
  /\ producerStuck' = TRUE   \* name is historical: TRUE = producer got its error and returned
  /\ UNCHANGED <<made, nextTok, closed, slot, buf, wh, rh, rd, held, got, conn, wire, reply, cur, post, fails>>

(* ---- bufferedReadSeeker.Read, per reader (= per attempt's transport write loop) ---- *)
ReadA(a) ==           \* copy(p, buf[rh:wh]); rh += n   -- then falls into the source read
  /\ rd[a] = "idle" /\ conn[a] = "open"
  /\ held' = [held EXCEPT ![a] = SubSeq(buf, rh + 1, wh)]
  /\ rh' = IF rh > wh THEN rh ELSE wh
  /\ rd' = [rd EXCEPT ![a] = "blocked"]
  /\ UNCHANGED <<made, nextTok, closed, slot, buf, wh, got, conn, wire, reply, cur, post, fails, producerStuck>>

ReadB(a) ==           \* b.r.Read: blocks until the pipe has a piece or is closed
  /\ rd[a] = "blocked"
  /\ \/ /\ slot # 0
        /\ got' = [got EXCEPT ![a] = <<slot>>]
        /\ slot' = 0
     \/ /\ slot = 0 /\ closed
        /\ got' = [got EXCEPT ![a] = <<EOF>>]
        /\ slot' = slot
  /\ rd' = [rd EXCEPT ![a] = "booking"]
  /\ UNCHANGED <<made, nextTok, closed, buf, wh, rh, held, conn, wire, reply, cur, post, fails, producerStuck>>

ReadC(a) ==           \* record into the buffer, advance both heads, return; transport writes to its conn
  /\ rd[a] = "booking"
  /\ LET data == SelectSeq(got[a], LAMBDA t : t # EOF)
         room == IF wh < N THEN N - wh ELSE 0
         rec  == IF Len(data) <= room THEN data ELSE SubSeq(data, 1, room)
     IN /\ buf' = buf \o rec
        /\ wh' = wh + Len(rec)
        /\ rh' = rh + Len(rec)
        /\ IF conn[a] = "open"
             THEN /\ wire' = [wire EXCEPT ![a] = @ \o held[a] \o got[a]]
                  /\ rd' = [rd EXCEPT ![a] = IF got[a] = <<EOF>> THEN "dead" ELSE "idle"]
             ELSE /\ wire' = wire                       \* write on a closed conn fails: write loop ends
                  /\ rd' = [rd EXCEPT ![a] = "dead"]
  /\ held' = [held EXCEPT ![a] = <<>>] /\ got' = [got EXCEPT ![a] = <<>>]
  /\ UNCHANGED <<made, nextTok, closed, slot, conn, reply, cur, post, fails, producerStuck>>

StaleIdleDies(a) ==   \* a reader between Reads on a closed conn: its next conn write fails
  /\ rd[a] = "idle" /\ conn[a] = "closed"
  /\ rd' = [rd EXCEPT ![a] = "dead"]
  /\ UNCHANGED <<made, nextTok, closed, slot, buf, wh, rh, held, got, conn, wire, reply, cur, post, fails, producerStuck>>

(* ---- proxy (environment) ---- *)
ProxyFail(a) ==       \* 5xx or broken connection at any position of attempt a
  /\ a = cur /\ post = "doing" /\ reply[a] = "none" /\ fails < MaxFail
  /\ reply' = [reply EXCEPT ![a] = "5xx"]
  /\ fails' = fails + 1
  /\ UNCHANGED <<made, nextTok, closed, slot, buf, wh, rh, rd, held, got, conn, wire, cur, post, producerStuck>>

ProxyAck(a) ==        \* 2xx only after the proxy read the request body to its end
  /\ a = cur /\ post = "doing" /\ reply[a] = "none"
  /\ Len(wire[a]) > 0 /\ wire[a][Len(wire[a])] = EOF
  /\ reply' = [reply EXCEPT ![a] = "2xx"]
  /\ post' = "ok"
  /\ UNCHANGED <<made, nextTok, closed, slot, buf, wh, rh, rd, held, got, conn, wire, cur, fails, producerStuck>>

(* ---- poster: postResponseWithRetries ---- *)
Retry ==              \* sees the failure, closes the response body (conn dies), Seek(0), next attempt
  /\ post = "doing" /\ reply[cur] = "5xx"
  /\ (StaleReader \/ rd[cur] # "booking")   \* idealised fix: taken data always lands in the buffer first
  /\ LET canRetry == wh < N /\ cur < MaxAttempts
         killed == [rd EXCEPT ![cur] = IF StaleReader THEN @ ELSE "dead"]
     IN /\ conn' = IF canRetry THEN [conn EXCEPT ![cur] = "closed", ![cur + 1] = "open"]
                               ELSE [conn EXCEPT ![cur] = "closed"]
        /\ rd' = IF canRetry THEN [killed EXCEPT ![cur + 1] = "idle"] ELSE killed
        /\ rh' = IF canRetry THEN 0 ELSE rh
        /\ cur' = IF canRetry THEN cur + 1 ELSE cur
        /\ post' = IF canRetry THEN post ELSE "fail"
  /\ UNCHANGED <<made, nextTok, closed, slot, buf, wh, held, got, wire, reply, fails, producerStuck>>

TimerReleasesBuffer ==   \* (deviation) the replay buffer is released some time after the first byte: it looks like a fresh one
  /\ "release-replay" \in Timers /\ post = "doing" /\ wh > 0
  /\ buf' = <<>> /\ wh' = 0 /\ rh' = 0
  /\ UNCHANGED <<made, nextTok, closed, slot, rd, held, got, conn, wire, reply, cur, post, fails, producerStuck>>

TimerCutsStream ==       \* (deviation) a watchdog closes the pipe while the handler is merely quiet between two pieces
  /\ "idle-cut" \in Timers /\ post = "doing" /\ ~closed /\ slot = 0 /\ nextTok > 1 /\ nextTok <= M
  /\ closed' = TRUE /\ made' = M /\ nextTok' = M + 1     \* nothing produced later is relayed any more
  /\ UNCHANGED <<slot, buf, wh, rh, rd, held, got, conn, wire, reply, cur, post, fails, producerStuck>>

Next ==
  \/ Produce \/ Hand \/ ClosePipe \/ ProducerReleased \/ Retry \/ TimerReleasesBuffer \/ TimerCutsStream
  \/ \E a \in Att : ReadA(a) \/ ReadB(a) \/ ReadC(a) \/ StaleIdleDies(a) \/ ProxyFail(a) \/ ProxyAck(a)

Fair == /\ WF_vars(Produce) /\ WF_vars(Hand) /\ WF_vars(ClosePipe) /\ WF_vars(ProducerReleased) /\ WF_vars(Retry)
        /\ \A a \in Att : WF_vars(ReadA(a)) /\ WF_vars(ReadB(a)) /\ WF_vars(ReadC(a)) /\ WF_vars(ProxyAck(a))

Spec == Init /\ [][Next]_vars /\ Fair

(* ---- properties ---- *)
AckedIntegrity == \A a \in Att : reply[a] = "2xx" => wire[a] = Full
AtMostThree == cur <= MaxAttempts
RetryOnlyIfReplayable == [][cur' # cur => wh < N]_vars
Done == <>(post \in {"ok", "fail"})
HandlerReleased == (post = "fail") ~> producerStuck
Streams == <>(\A k \in 1..M : Observed(k))

(* ---- refinement: the forwarder implements the observable poster behaviour UploadObs ---- *)
Obs == INSTANCE UploadObs WITH
         ocur <- cur,
         oreply <- [a \in Att |-> IF reply[a] = "2xx" THEN "ack" ELSE IF reply[a] = "none" THEN "none" ELSE "fail"],
         ook <- [a \in Att |-> wire[a] = Full],
         opost <- post,
         oseek <- (wh < N)
ImplementsObs == Obs!OSpec
=============================================================================
