\* C05: lock-step producer, no faults: the stream makes progress chunk by chunk
CONSTANTS M = 4 N = 2 MaxAttempts = 3 MaxFail = 0 StaleReader = FALSE LockStep = TRUE BufferAll = FALSE Timers = {}
SPECIFICATION Spec
CHECK_DEADLOCK FALSE
INVARIANTS AckedIntegrity
PROPERTIES Streams Done
