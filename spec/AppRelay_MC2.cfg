CONSTANTS Req = {"r1", "r2"} Backend = {"b1", "b2"} SharedResponseKey = FALSE ShortRetention = FALSE ResponseStartTimeUnset = FALSE
CONSTANT BackendOf <- MCBackendOf
SPECIFICATION Spec
CHECK_DEADLOCK FALSE
INVARIANTS FetchIsRequest ResponseIsOwn OwnBackendOnly
PROPERTIES CompletedNotListed RespondCompletes CronSparesWaiting
