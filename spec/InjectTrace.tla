----------------------------- MODULE InjectTrace -----------------------------
(* Every recorded (request classes, observed alteration) pair of the real      *)
(* banner + shim handler chain is judged by Inject!InjectOK.                   *)
EXTENDS TraceCommon
VARIABLES x, l
I == INSTANCE Inject
Is(e) == l <= TLen /\ Trace[l].ev = e
E == Trace[l]
Step == l' = l + 1 /\ Mark(l)
TInit == x = 0 /\ l = 1 /\ HWMInit
TReset == Is("Reset") /\ UNCHANGED x
               /\ Step
\* (whatever the classes - also the ones C14 leaves unjudged - the chain answers; a panic in it is no answer)
TCase == Is("InjectCase") /\ UNCHANGED x /\ I!InjectOK(E.c, E.out) /\ E.out.kind # "panic"
               /\ Step
TNext == TReset \/ TCase
TSpec == TInit /\ [][TNext]_<<x, l>>
=============================================================================
