CONSTANTS IdPool = {a, b} LruCap = 2 MaxBatch = 2 MaxLists = 2 NoDedup = TRUE ForgetOnFailure = FALSE
INIT Init
NEXT Next
CHECK_DEADLOCK FALSE
INVARIANTS AtMostOnce
