CONSTANTS Q = 2 NClient = 2 NServer = 1 Calls = {k1, k2} CloseClosesChan = TRUE DrainByCount = FALSE SweepDone = FALSE
INIT Init
NEXT Next
CHECK_DEADLOCK FALSE
INVARIANTS NoPanic
