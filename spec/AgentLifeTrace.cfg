SPECIFICATION TSpec
CHECK_DEADLOCK FALSE
INVARIANTS NoListBeforeHealthy
POSTCONDITION Accepted
