CONSTANTS N = 3 MaxSeg = 2 Marker = FALSE Timers = {}
SPECIFICATION Spec
CHECK_DEADLOCK FALSE
INVARIANTS Integrity NoLossOnClose
PROPERTIES ClosePropagates
