CONSTANTS N = 3 MaxSeg = 2 WaitBoth = TRUE
SPECIFICATION Spec
CHECK_DEADLOCK FALSE
INVARIANTS Integrity NoLossOnClose
PROPERTIES ClosePropagates
