INIT GInit
NEXT GNext
