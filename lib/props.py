#!/usr/bin/env python3
"""Per-property check definitions. usage: props.py <ID> [quick|thorough]"""
import json, os, sys
sys.path.insert(0, os.path.dirname(os.path.abspath(__file__)))
from vlib import *


def int_fields(events, fields=("n",)):
    """Hook fields logged as decimal strings (to keep 64-bit counts out of JSON numbers) become
    integers again; counts that do not fit TLC's 32-bit integers become -1 ("Big")."""
    out = []
    for e in events:
        if e.get("ev") == "Backoff":
            e = dict(e)
            for f in fields:
                if isinstance(e.get(f), str):
                    v = int(e[f])
                    e[f] = v if v < 64 else -1
        out.append(e)
    return out


def normalise(events):
    """Lossless normalisation of recorded events for TLC: JSON null (a nil Go slice) becomes an
    empty list for list-valued fields and is dropped otherwise."""
    out = []
    for e in events:
        d = {}
        for k, v in e.items():
            if v is None:
                if k in ("ids",):
                    d[k] = []
                continue
            d[k] = v
        out.append(d)
    return out


NOISE = {"PollCheck", "Healthy", "SWHeader", "SWWrite", "SWClose", "SerStart", "SerDone", "Attempt", "AttemptStatus",
         "AttemptErr", "BrsRead", "BrsSeek", "Backoff", "ListFail", "HealthProbe", "WServed", "WClosed", "WForward", "ListFault",
         "ShimSession", "WsStore", "WsDelete"}


def project(events, drop):
    """Projection of a trace onto a module's alphabet: events that the trace specification treats
    as pure stuttering are removed before validation (keeps TLC's input small)."""
    return [e for e in events if e.get("ev") not in drop]


def drive(ctx, driver, mode="", cases=None, name=None, env=None, timeout=1500, vdrive="vdrive"):
    """Run one driver; returns (events, result)."""
    name = name or (driver + ("-" + mode if mode else ""))
    trace = os.path.join(ctx.scratch, "trace_%s.ndjson" % name)
    out = os.path.join(ctx.scratch, "result_%s.json" % name)
    for p in (trace, out):
        if os.path.exists(p):
            os.remove(p)
    args = [os.path.join(ctx.bindir, vdrive), "-out", out]
    if mode:
        args += ["-mode", mode]
    if cases:
        args += ["-cases", cases]
    args.append(driver)
    e = {"VERIF_TRACE": trace, "VERIF_SRC": "harness"}
    if env:
        e.update(env)
    run_driver(ctx, args, env=e, timeout=timeout, name=name)
    res = json.load(open(out))
    if res.get("inconclusive"):
        raise Inconclusive("driver %s: %s" % (name, "; ".join(res["inconclusive"][:3])))
    events = normalise(read_ndjson(trace)) if os.path.exists(trace) else []
    ctx.evaluations += res.get("evaluations", 0)
    for k in res.get("distinct") or []:
        ctx.distinct.add(name + ":" + k)
    for s in (res.get("samples") or [])[:3]:
        ctx.samples.append({"driver": name, "case": s})
    for n in (res.get("notes") or [])[:5]:
        ctx.notes.append("%s: %s" % (name, n[:2000]))
    if res.get("extra"):
        ctx.extra.setdefault("driver_extra", {})[name] = res["extra"]
    return events, res


def agent_configs(ctx, prop, pairs=8, quick_cap=None, thorough_pairs=True):
    """Configurations of the agent for `prop` enumerated by TLC from spec/AgentConfig.tla (the default and everything
    within two neutral flags of it).  quick: the default, every single-flag deviation and a seeded sample of the
    two-flag ones; thorough: all.  Returns the environment for the driver."""
    import random
    gen = tlc_generate(ctx, "AgentConfigGen", "AgentConfigGen.cfg", "agent_configs.json")
    allc = json.load(open(gen))[prop]
    def nd(c):
        return sum(1 for f, v in c.items() if v not in ("off", "default"))
    allc.sort(key=lambda c: (nd(c), json.dumps(c, sort_keys=True)))
    chosen = [c for c in allc if nd(c) <= 1]
    two = [c for c in allc if nd(c) == 2]
    rnd = random.Random(ctx.seed * 7919 + 11)
    if ctx.tier == "thorough":
        chosen += two if thorough_pairs else rnd.sample(two, min(4 * pairs, len(two)))
    else:
        chosen += rnd.sample(two, min(pairs, len(two)))
        if quick_cap and len(chosen) > quick_cap + 1:
            # expensive scenarios: the default and a seeded sample (another seed, another sample)
            chosen = chosen[:1] + rnd.sample(chosen[1:], quick_cap)
    path = os.path.join(ctx.scratch, "agent_configs_%s.json" % prop)
    json.dump(chosen, open(path, "w"))
    ctx.extra["agent_configurations"] = {"enumerated_by_tlc": len(allc), "run": len(chosen)}
    return {"VERIF_AGENT_CONFIGS": path}


def build_relay_bins(ctx, race=False):
    go_build_repo(ctx, "./server", "proxy")
    go_build_repo(ctx, "./agent", "agent")
    if race:
        go_build_repo(ctx, "./server", "proxy-race", race=True)
        go_build_repo(ctx, "./agent", "agent-race", race=True)


def decisive(seg, idx):
    ev = seg[min(max(idx, 0), len(seg) - 1)]
    finals = [e for e in seg if e.get("ev") == "Final"]
    if finals and any(finals[-1].get(p + "_report") or not finals[-1].get(p + "_alive", True) for p in ("proxy", "agent")):
        ev = finals[-1]
    return ev


def relay_describe(seg, idx, inv):
    ev = decisive(seg, idx)
    if ev.get("ev") == "Final":
        bits = []
        for k in ("agent_alive", "proxy_alive", "agent_report", "proxy_report", "agent_exit", "proxy_exit"):
            if k in ev:
                bits.append("%s=%s" % (k, ev[k]))
        return "scenario %r ended in a state the specification does not allow (%s): a process died, or a client that was not hit by a fault did not get its own OK response" % (seg[0].get("seg"), ", ".join(bits))
    return None


def relay_sig(seg, idx, inv):
    """signature of a rejected Relay segment: scenario kind + the failing observable"""
    ev = decisive(seg, idx)
    base = seg[0].get("sig", "relay")
    if ev.get("ev") == "Final":
        for proc in ("proxy", "agent"):
            if ev.get(proc + "_report"):
                return "%s:%s-%s-report" % (base, proc, ev[proc + "_report"])
            if not ev.get(proc + "_alive", True):
                return "%s:%s-died" % (base, proc)
        return base + ":final-not-all-answered"
    if inv:
        return "%s:%s" % (base, inv)
    return "%s:%s" % (base, ev.get("ev"))


def uniquify_pollers(events):
    """The proxy hook names a list call by the address of its request context, which the Go
    allocator may reuse for a later call; give every ListStart its own incarnation number (an
    address cannot be reused while its call is still running, so this renaming is unambiguous)."""
    inc = {}
    out = []
    for e in events:
        if "p" in e and e.get("ev") in ("ListStart", "Recv", "ListReply"):
            key = (e.get("pid"), e["p"])
            if e["ev"] == "ListStart":
                inc[key] = inc.get(key, 0) + 1
            e = dict(e)
            e["p"] = "%s@%s#%d" % (e["p"], e.get("pid"), inc.get(key, 0))
        out.append(e)
    return out


def relay_validate(ctx, events):
    segs = split_segments(uniquify_pollers(project(events, NOISE - {"WForward"})))
    # a scenario is observed up to its Final event; what the processes still log while the harness takes the
    # scenario down (connections being closed one by one, calls being cancelled) is not part of it
    dropped = 0
    for seg in segs:
        last = max([i for i, e in enumerate(seg) if e.get("ev") in ("Final", "RelayVolume", "FaultVolume")] or [len(seg) - 1])
        dropped += len(seg) - 1 - last
        del seg[last + 1:]
    if dropped:
        ctx.extra["events_after_final_dropped"] = ctx.extra.get("events_after_final_dropped", 0) + dropped
    fails = validate_segments(ctx, "RelayTrace", "RelayTrace.cfg", segs, max_events=6000)
    for seg, idx, out, inv in fails:
        sig = relay_sig(seg, idx, inv)
        ev = seg[min(max(idx, 0), len(seg) - 1)]
        what = relay_describe(seg, idx, inv) or ("scenario %r: event #%d %s is not explained by Relay%s" % (
            seg[0].get("seg"), idx + 1, json.dumps(ev, sort_keys=True)[:300], (" (invariant %s)" % inv) if inv else ""))
        report_failure(ctx, sig, what, seg=seg, tlc_out=out[-6000:])
    return fails


def selftest(ctx, module, cfg, seg, mutations):
    """Binding demonstration: a recorded, accepted segment is corrupted in one field / one event;
    TLC has to reject every corrupted copy, otherwise the trace specification does not bind the
    code and the check is inconclusive."""
    import copy
    n = 0
    for name, fn in mutations:
        s2 = copy.deepcopy(seg)
        if not fn(s2):
            continue
        saved = (ctx.traces_validated, ctx.events_validated)
        fails = validate_segments(ctx, module, cfg, [s2])
        ctx.traces_validated, ctx.events_validated = saved
        if not fails:
            raise Inconclusive("self-test: corrupted trace (%s) was accepted by %s - trace spec does not bind" % (name, module))
        n += 1
    ctx.extra["selftest_corrupted_traces_rejected"] = ctx.extra.get("selftest_corrupted_traces_rejected", 0) + n
    if n == 0:
        raise Inconclusive("self-test: no mutation applicable to the recorded segment")


def relay_mutations():
    def swap_tokens(seg):
        rec = [e for e in seg if e.get("ev") == "ClientRecv" and e.get("kind") == "ok"]
        if len(rec) < 2:
            return False
        rec[0]["tok"], rec[-1]["tok"] = rec[-1]["tok"], rec[0]["tok"]
        return True

    def dup_backend(seg):
        for i, e in enumerate(seg):
            if e.get("ev") == "BackendHandle":
                seg.insert(i + 1, dict(e))
                return True
        return False

    def drop_reply(seg):
        for i, e in enumerate(seg):
            if e.get("ev") == "ClientRecv":
                del seg[i]
                return True
        return False

    def double_list(seg):
        for i, e in enumerate(seg):
            if e.get("ev") == "ListReply" and e.get("ids"):
                for j in range(i + 1, len(seg)):
                    if seg[j].get("ev") == "ListReply" and seg[j].get("ids"):
                        seg[j]["ids"] = seg[j]["ids"] + [e["ids"][0]]
                        return True
        return False
    return [("swap-delivered-tokens", swap_tokens), ("duplicate-backend-call", dup_backend),
            ("drop-client-reply", drop_reply), ("id-in-two-list-replies", double_list)]


def proxy_env_phase(ctx, nquick, nthorough):
    """TLC-enumerated schedules of the proxy's environment (clients, agent calls, foreign poller,
    disconnects), performed step by step on the real proxy with the harness as agent."""
    import random
    gen = tlc_generate(ctx, "ProxyEnvGen", "ProxyEnvGen.cfg", "proxyenv_schedules.json")
    alls = json.load(open(gen))["schedules"]
    ctx.extra["environment_schedules_enumerated_by_tlc"] = len(alls)
    rnd = random.Random(ctx.seed + 17)
    n = nthorough if ctx.tier == "thorough" else nquick
    sample = alls if n >= len(alls) else rnd.sample(alls, n)
    cpath = os.path.join(ctx.scratch, "proxyenv_cases.json")
    json.dump({"schedules": sample}, open(cpath, "w"))
    events, _ = drive(ctx, "proxyenv", cases=cpath, timeout=3000)
    return relay_validate(ctx, events)


def c01(ctx):
    ctx.rule = ("cases = bursts of concurrent clients (random sizes/latencies, seeded) through the real proxy+agent binaries; "
                "distinct = distinct (scenario kind, number of concurrent clients); every recorded event is replayed by TLC through RelayTrace" + "; repeated under agent configurations enumerated by TLC from AgentConfig.tla (the default and configurations within two property-neutral flags of it: time-out, shim, banner, sessions, health, debug, grace, VM identity, identity flags)")
    ctx.assumptions = ["token projection: a response's token is what the harness backend echoed into status/headers/body/trailer",
                       "bounded: at most 64 concurrent clients per burst", "race-detector reports count only with both stacks in repository code"]
    thorough = ctx.tier == "thorough"
    tlc_must_hold(ctx, "Relay", "Relay_MC.cfg")
    tlc_must_hold(ctx, "Relay", "Relay_Live.cfg")
    tlc_must_fail(ctx, "Relay", "Relay_Attack_IdCollision.cfg")
    if thorough:
        tlc_must_hold(ctx, "Relay", "Relay_MCbig.cfg", timeout=1500)
    build_relay_bins(ctx, race=True)
    go_build_harness(ctx)
    events, _ = drive(ctx, "relay", env=agent_configs(ctx, "C01", pairs=2, quick_cap=5, thorough_pairs=False))
    fails = relay_validate(ctx, events)
    if not fails:
        selftest(ctx, "RelayTrace", "RelayTrace.cfg", split_segments(events)[0], relay_mutations())
    events, _ = drive(ctx, "relay", mode="race")
    relay_validate(ctx, events)
    proxy_env_phase(ctx, 120, 100000)


def tlc_generate(ctx, module, cfg, outname):
    """Run a generator module: TLC evaluates the case set from the specification's own operators
    and serialises it (JsonSerialize in an ASSUME)."""
    out = os.path.join(ctx.scratch, outname)
    r = tlc(ctx, module, cfg, workers=1, env={"VERIF_OUT": out}, timeout=900)
    if r.exit != 0 or not os.path.exists(out):
        save_debug(ctx, "tlc_%s.out" % cfg, r.out)
        raise Inconclusive("case generation %s/%s failed (exit %d)" % (module, cfg, r.exit))
    return out


def dedup_mutations():
    def dup_backend(seg):
        for i, e in enumerate(seg):
            if e.get("ev") == "BackendHandle":
                seg.insert(i + 1, dict(e))
                return True
        return False

    def drop_post(seg):
        for i, e in enumerate(seg):
            if e.get("ev") == "FakePost":
                del seg[i]
                return True
        return False

    def spawn_on_hit(seg):
        # a second worker for an ID the LRU still holds: only distinguishable once the first worker
        # has left the "fetch" state, i.e. after a FakeFetch for that ID
        seen, fetched = set(), set()
        for i, e in enumerate(seg):
            if e.get("ev") == "FakeFetch":
                fetched.add(e["id"])
            if e.get("ev") == "Dedup":
                if e["id"] in seen and e["id"] in fetched and (i + 1 >= len(seg) or seg[i + 1].get("ev") != "Spawn"):
                    seg.insert(i + 1, {"ev": "Spawn", "id": e["id"], "src": "agent"})
                    return True
                seen.add(e["id"])
        return False
    return [("duplicate-backend-call", dup_backend), ("drop-upload", drop_post), ("spawn-on-lru-hit", spawn_on_hit)]


def c04(ctx):
    import random
    ctx.rule = ("cases = pending-list histories enumerated by TLC from AgentDedup's environment action (repeats, permutations, overlapping "
                "subsets, failing list calls; <=3 list calls of <=3 IDs over 3 IDs) replayed against the real agent binary through a scripted fake proxy, window-edge "
                "scenarios with 999/1000 distinct IDs, and bursts of clients against the real proxy with foreign pollers; distinct = distinct history shapes" + "; repeated under agent configurations enumerated by TLC from AgentConfig.tla (the default and configurations within two property-neutral flags of it: time-out, shim, banner, sessions, health, debug, grace, VM identity, identity flags)")
    ctx.assumptions = ["side condition of the property: at most 1000 distinct IDs outstanding (window scenarios beyond it are information only)",
                       "timing of fetch/upload relative to later list replies is varied by seeded delays, not enumerated on the real code (TLC enumerates it in the model)"]
    thorough = ctx.tier == "thorough"
    tlc_must_hold(ctx, "AgentDedup", "AgentDedup_MC.cfg")
    if thorough:
        tlc_must_hold(ctx, "AgentDedup", "AgentDedup_MCbig.cfg", timeout=1500)
    tlc_must_fail(ctx, "AgentDedup", "AgentDedup_Attack_NoDedup.cfg")
    tlc_must_fail(ctx, "AgentDedup", "AgentDedup_Attack_Window.cfg")
    tlc_must_fail(ctx, "AgentDedup", "AgentDedup_Attack_ForgetOnFailure.cfg")
    tlc_must_hold(ctx, "Relay", "Relay_MC.cfg")
    tlc_must_fail(ctx, "Relay", "Relay_Attack_IdCollision.cfg")
    gen = tlc_generate(ctx, "AgentDedupGen", "AgentDedupGen.cfg", "dedup_histories.json")
    allh = json.load(open(gen))["histories"]
    rnd = random.Random(ctx.seed)
    n = 3000 if thorough else 160
    sample = rnd.sample(allh, min(n, len(allh)))
    # always include the shapes that matter most: immediate repeat, repeat across replies, permutation
    must = [[["a", "a"]], [["a"], ["a"]], [["a", "b"], ["b", "a"]], [["a", "b", "a"], ["a"]], [["a"], ["b"], ["a"]],
            [["a"], [], ["a"]], [["a", "b"], [], ["b", "a"]], [[], ["a"], ["a"]], [["a"], [], [], ["a", "b"]]]   # [] = a list call that fails
    cases = {"histories": must + sample, "window": [999, 1000] + ([1001] if thorough else [])}
    cpath = os.path.join(ctx.scratch, "dedup_cases.json")
    json.dump(cases, open(cpath, "w"))
    ctx.extra["histories_enumerated_by_tlc"] = len(allh)
    ctx.extra["histories_replayed"] = len(cases["histories"])
    build_relay_bins(ctx)
    go_build_harness(ctx)
    events, _ = drive(ctx, "dedup", cases=cpath, timeout=3000, env=agent_configs(ctx, "C04"))
    segs = split_segments(project(events, NOISE))
    info = [s for s in segs if s[0].get("sig") == "dedup-window-1001"]
    segs = [s for s in segs if s[0].get("sig") != "dedup-window-1001"]
    fails = validate_segments(ctx, "AgentDedupTrace", "AgentDedupTrace.cfg", segs, batch=80)
    for seg, idx, out, inv in fails:
        ev = seg[min(max(idx, 0), len(seg) - 1)]
        sig = "%s:%s" % (seg[0].get("sig"), inv or ev.get("ev"))
        hist = [e.get("ids") for e in seg if e.get("ev") == "FakeList"]
        what = "list history %s against the real agent: event #%d %s not explained by AgentDedup%s" % (
            json.dumps(hist)[:300], idx + 1, json.dumps(ev, sort_keys=True)[:200], (" (invariant %s)" % inv) if inv else "")
        report_failure(ctx, sig, what, seg=seg, tlc_out=out[-5000:])
    if info:
        f2 = validate_segments(ctx, "AgentDedupTrace", "AgentDedupTrace.cfg", info)
        ctx.traces_validated -= (len(info) - len(f2))
        ctx.notes.append("information only (outside the property's side condition): with 1001 distinct IDs the first ID %s forwarded again after eviction" % ("WAS" if f2 else "was NOT"))
    if not fails:
        multi = [s for s in segs if sum(1 for e in s if e.get("ev") == "Dedup") >= 3]
        selftest(ctx, "AgentDedupTrace", "AgentDedupTrace.cfg", (multi or segs)[0], dedup_mutations())
    # (ii) stand-alone proxy: each ID goes to exactly one list reply, across concurrent pollers
    events, _ = drive(ctx, "relay", mode="pollers")
    relay_validate(ctx, events)
    # (iii) TLC-enumerated environment schedules incl. a foreign poller and client disconnects
    proxy_env_phase(ctx, 60, 100000)


def c07(ctx):
    ctx.rule = ("cases = (fault kind x victim position) scenarios: backend close/garbage/reset/short body, chaos on fetch (500/404/garbled) and upload "
                "(reject/garble/reset), failing list calls, malformed websocket-shim calls, unreachable backend; each with healthy concurrent requests "
                "before/during/after; distinct = distinct (kind, position)")
    ctx.assumptions = ["a victim may get any outcome; every other client must get its own OK response and the agent must be alive at the end",
                       "fault positions are relative to a burst of 10 concurrent requests; exact interleavings are left to the scheduler (TLC enumerates them in the model)"]
    thorough = ctx.tier == "thorough"
    tlc_must_hold(ctx, "Relay", "Relay_MC.cfg")
    tlc_must_hold(ctx, "Relay", "Relay_Live.cfg")
    if thorough:
        tlc_must_hold(ctx, "Relay", "Relay_MCbig.cfg", timeout=1500)
    tlc_must_fail(ctx, "Relay", "Relay_Attack_NoIsolation.cfg")
    tlc_must_fail(ctx, "Relay", "Relay_Attack_CleanCut.cfg")      # an upload that breaks off ends the client's response cleanly (before 35f74b2)
    build_relay_bins(ctx, race=True)     # the fault scenarios run the agent's race-detector build
    go_build_harness(ctx)
    events, _ = drive(ctx, "relay", mode="faults", timeout=2400)
    # what each victim observed (information for the evidence file)
    vict = {e["r"]: e.get("kind") for e in events if e.get("ev") == "Fault"}
    outcome = {}
    for e in events:
        if e.get("ev") in ("ClientRecv", "ClientGaveUp") and e.get("r") in vict:
            outcome.setdefault(vict[e["r"]], []).append(e.get("kind", "no-answer") if e["ev"] == "ClientRecv" else "no-answer")
    ctx.extra["victim_outcomes"] = {k: sorted(set(v)) for k, v in outcome.items()}
    healthy = [e for e in events if e.get("ev") == "ClientRecv" and e.get("r") not in vict]
    ctx.extra["healthy_requests_answered_ok"] = sum(1 for e in healthy if e.get("kind") == "ok")
    if "backend-down" in outcome and set(outcome["backend-down"]) != {"502"}:
        ctx.notes.append("backend-down victims saw %s" % sorted(set(outcome["backend-down"])))
    fails = relay_validate(ctx, events)
    if not fails:
        segs = split_segments(uniquify_pollers(project(events, NOISE - {"WForward"})))

        def victim_becomes_other(seg):
            # an error answer delivered to a client that was not declared a victim
            rec = [e for e in seg if e.get("ev") == "ClientRecv" and e.get("kind") == "ok"]
            if not rec:
                return False
            rec[-1]["kind"] = "502"
            return True

        def agent_dies(seg):
            for e in seg:
                if e.get("ev") == "Final":
                    e["agent_alive"] = False
                    return True
            return False
        selftest(ctx, "RelayTrace", "RelayTrace.cfg", segs[0], [("healthy-client-gets-502", victim_becomes_other), ("agent-dead-at-end", agent_dies)])


def upload_report(ctx, fails, prefix):
    for seg, idx, out, inv in fails:
        ev = seg[min(max(idx, 0), len(seg) - 1)]
        sig = "%s:%s" % (seg[0].get("sig"), inv or ev.get("ev"))
        acks = [e for e in seg if e.get("ev") == "UpAck" and not e.get("eq", True)]
        what = "%s %s: event #%d %s is not a behaviour of UploadObs%s" % (
            prefix, seg[0].get("sig"), idx + 1, json.dumps({k: v for k, v in ev.items() if k not in ("pid", "seq", "src")}, sort_keys=True)[:200],
            (" (invariant %s)" % inv) if inv else "")
        if acks:
            what += "; acknowledged attempt differs from the reference serialisation: " + str(acks[0].get("detail"))[:300]
            sig = "%s:AckedCorrupt" % seg[0].get("sig")
        report_failure(ctx, sig, what, seg=seg, tlc_out=out[-5000:])


def c06(ctx):
    import random
    ctx.rule = ("cases = fault scripts enumerated by TLC (UploadGen: per attempt ack or fail kind{5xx-keep,5xx-close,reset,close} x position"
                "{pre,head,body0,early,limit,past,end}) x response sizes around the 4096-byte replay buffer, run against the real forwarder "
                "with a byte-level fault server; distinct = distinct (script shape, response size class)")
    ctx.assumptions = ["acknowledged uploads are compared with the fault-free reference serialisation of the same handler script (bytes, else parsed content)",
                       "which goroutine (stale or current transport writer) takes the next pipe piece is left to the scheduler"]
    thorough = ctx.tier == "thorough"
    tlc_must_hold(ctx, "Upload", "Upload_MC.cfg")
    tlc_must_hold(ctx, "Upload", "Upload_MC2.cfg")
    tlc_must_fail(ctx, "Upload", "Upload_Attack_StaleReader.cfg")
    tlc_must_fail(ctx, "Upload", "Upload_Attack_ReleaseReplay.cfg")   # replay buffer released after a while, Seek(0) still succeeds
    gen = tlc_generate(ctx, "UploadGen", "UploadGen.cfg", "upload_scripts.json")
    alls = json.load(open(gen))["scripts"]
    ctx.extra["scripts_enumerated_by_tlc"] = len(alls)
    rnd = random.Random(ctx.seed)
    short = [s for s in alls if len(s) <= 2]
    longer = [s for s in alls if len(s) > 2]
    sample = short + rnd.sample(longer, min(len(longer), 600 if thorough else 40))
    cpath = os.path.join(ctx.scratch, "upload_cases.json")
    json.dump({"scripts": sample}, open(cpath, "w"))
    ctx.extra["scripts_replayed"] = len(sample)
    go_build_harness(ctx)
    events, _ = drive(ctx, "upload", cases=cpath, timeout=3000)
    segs = split_segments(events)
    fails = validate_segments(ctx, "UploadTrace", "UploadTrace.cfg", segs, batch=200)
    upload_report(ctx, fails, "upload")
    good = [s for s in segs if not any(s is f[0] for f in fails) and sum(1 for e in s if e.get("ev") == "Attempt") >= 2 and any(e.get("ev") == "UpAck" for e in s)]
    if good:
        def corrupt_ack(seg):
            for e in seg:
                if e.get("ev") == "UpAck":
                    e["eq"] = False
                    return True
            return False

        def fourth_attempt(seg):
            for i, e in enumerate(seg):
                if e.get("ev") == "CloseDone":
                    seg.insert(i, {"ev": "Attempt", "n": 4, "id": "x"})
                    return True
            return False

        def handler_blocked(seg):
            for e in seg:
                if e.get("ev") == "CloseDone":
                    e["blocked"] = True
                    return True
            return False

        def retry_after_overflow(seg):
            for i, e in enumerate(seg):
                if e.get("ev") == "Attempt" and e.get("n") == 2:
                    seg.insert(i, {"ev": "BrsRead", "buf": 0, "src": 5000, "wh": 4096, "rh": 4096, "eof": False})
                    return True
            return False
        selftest(ctx, "UploadTrace", "UploadTrace.cfg", good[0], [("acked-upload-corrupt", corrupt_ack), ("fourth-attempt", fourth_attempt),
                                                                 ("handler-blocked", handler_blocked), ("retry-after-buffer-overflow", retry_after_overflow)])
    elif not fails:
        raise Inconclusive("no retried-and-acknowledged run was recorded")
    # the replay buffer as a sequential object: call schedules enumerated by TLC (ReplayBufGen) performed on the real
    # bufferedReadSeeker (in-package test through go test -overlay), every call judged by ReplayBuf (ReplayBufTrace)
    import random
    tlc_must_hold(ctx, "ReplayBuf", "ReplayBuf_MC.cfg")
    sched = json.load(open(tlc_generate(ctx, "ReplayBufGen", "ReplayBufGen.cfg", "brs_schedules.json")))
    rnd = random.Random(ctx.seed)
    if ctx.tier != "thorough":
        sched["schedules"] = rnd.sample(sched["schedules"], 500)
    spath = os.path.join(ctx.scratch, "brs_in.json")
    json.dump(sched, open(spath, "w"))
    bout = os.path.join(ctx.scratch, "brs_out.ndjson")
    rc, out = go_test_overlay(ctx, "agent/utils", os.path.join(VERIF, "harness", "overlay", "brs_verif_test.go.txt"), run="TestVerifReplayBuf",
                              env={"VERIF_BRS_IN": spath, "VERIF_BRS_OUT": bout})
    if rc != 0 or not os.path.exists(bout):
        save_debug(ctx, "brs.out", out)
        raise Inconclusive("overlay test of bufferedReadSeeker did not run: %s" % out[-500:])
    bsegs = split_segments(read_ndjson(bout))
    ctx.extra["replay_buffer_schedules"] = len(bsegs)
    ctx.evaluations += len(bsegs)
    bf = validate_segments(ctx, "ReplayBufTrace", "ReplayBufTrace.cfg", bsegs, batch=1500)
    for seg, idx, out, inv in bf:
        calls = ["%s%s" % (e.get("op"), ("(%d)->%d@%s" % (e.get("n", 0), e.get("k", 0), e.get("from"))) if e.get("op") == "read" else ("->ok" if e.get("ok") else "->refused")) for e in seg[1:]]
        report_failure(ctx, "brs:" + ",".join(e.get("op") + (str(e.get("n")) if e.get("op") == "read" else "") for e in seg[1:]) + ":pieces%s" % seg[1].get("pieces"),
                       "bufferedReadSeeker call sequence %s (source pieces pattern %s): call #%d is not what ReplayBuf allows - a replay must deliver the stream from its start, byte for byte" % (" ".join(calls), seg[1].get("pieces"), idx), seg=seg, tlc_out=out[-1500:])
    okb = [s for s in bsegs if not any(s is f[0] for f in bf) and any(e.get("op") == "seek" and e.get("ok") for e in s[1:]) and sum(1 for e in s[1:] if e.get("op") == "read" and e.get("k", 0) >= 4) >= 2]
    if okb:
        def wrong_offset(seg):
            for e in reversed(seg):
                if e.get("op") == "read" and e.get("from", -1) >= 0:
                    e["from"] += 2
                    return True
            return False

        def seek_on_full(seg):
            for e in seg:
                if e.get("op") == "seek":
                    e["ok"] = not e["ok"]
                    return True
            return False
        selftest(ctx, "ReplayBufTrace", "ReplayBufTrace.cfg", okb[0], [("replay-from-wrong-offset", wrong_offset), ("seek-answer-flipped", seek_on_full)])


def c05(ctx):
    ctx.rule = ("cases = chunkings (count 1..6, sizes 1 B .. 200 KB quick / 4 MB thorough, fixed edge chunkings around 4096 and 32768) produced by a "
                "lock-step backend that emits chunk k+1 only after the proxy side has observed chunk k; run through the forwarder in process "
                "and through the real agent binary (ReverseProxy, 100 ms flush); distinct = distinct (mode, size-class sequence)")
    ctx.assumptions = ["'bounded time' = 10 s per chunk (normal latency is milliseconds to 100 ms flush interval)"]
    tlc_must_hold(ctx, "Upload", "Upload_LockStep.cfg")
    tlc_must_fail(ctx, "Upload", "Upload_Attack_BufferAll.cfg")
    tlc_must_fail(ctx, "Upload", "Upload_Attack_IdleCut.cfg")      # a watchdog that fires while the handler is merely quiet
    tlc_must_hold(ctx, "Upload", "Upload_MC.cfg")
    go_build_repo(ctx, "./agent", "agent")
    go_build_harness(ctx)
    events, _ = drive(ctx, "stream", timeout=3000)
    segs = split_segments(events)
    fails = validate_segments(ctx, "UploadTrace", "UploadTrace.cfg", segs, batch=200)
    for seg, idx, out, inv in fails:
        ev = seg[min(max(idx, 0), len(seg) - 1)]
        sig = "%s:%s" % (seg[0].get("sig"), ev.get("ev"))
        what = "lock-step stream %s: event #%d %s - a flushed chunk was not relayed before the next one was demanded, or the stream did not complete" % (
            seg[0].get("sig"), idx + 1, json.dumps({k: v for k, v in ev.items() if k not in ("pid", "seq", "src")}, sort_keys=True)[:200])
        report_failure(ctx, sig, what, seg=seg, tlc_out=out[-4000:])
    if not fails:
        def stall(seg):
            for i, e in enumerate(seg):
                if e.get("ev") == "Observe":
                    seg[i] = {"ev": "Stall", "k": e["k"]}
                    return True
            return False

        def skip_observe(seg):
            idx = [i for i, e in enumerate(seg) if e.get("ev") == "Observe"]
            if len(idx) < 2:
                return False
            del seg[idx[0]]
            return True
        multi = [s for s in segs if sum(1 for e in s if e.get("ev") == "Observe") >= 2]
        selftest(ctx, "UploadTrace", "UploadTrace.cfg", multi[0], [("stall", stall), ("chunk-not-observed-before-next", skip_observe)])


def class_cases(dom, n, rnd, must=()):
    """Each-class sweep (every class value of every field at least once) plus n seeded random
    combinations from the class product exported by TLC."""
    fields = sorted(dom.keys())
    out = []

    def mk(fixed):
        c = {f: rnd.choice(dom[f]) for f in fields}
        c.update(fixed)
        return c
    for m in must:
        out.append(mk(m))
    for f in fields:
        for v in dom[f]:
            out.append(mk({f: v}))
    for _ in range(n):
        out.append(mk({}))
    return out


def cap(c):
    return {k[0].upper() + k[1:]: v for k, v in c.items()}


def http_cases(ctx, which, n, must=()):
    import random
    gen = tlc_generate(ctx, "HttpMsgGen", "HttpMsgGen.cfg", "httpmsg_domains.json")
    dom = json.load(open(gen))
    rnd = random.Random(ctx.seed * 7919 + len(which))
    cs = class_cases(dom[which], n, rnd, must)
    prod = 1
    for v in dom[which].values():
        prod *= len(v)
    ctx.extra["class_product_size"] = prod
    ctx.extra["classes_per_field"] = {k: len(v) for k, v in dom[which].items()}
    out = []
    for i, c in enumerate(cs):
        d = cap(c)
        d["N"] = i + 1
        out.append(d)
    return out


def http_validate(ctx, events, label):
    """One segment per case so that every failing case is reported with its own signature."""
    segs = []
    for e in events:
        if e.get("ev") in ("ReqCase", "RespCase", "CutCase", "IdCase", "SessShim", "ProcExit"):
            segs.append([{"ev": "Reset", "seg": e.get("case", "proc"), "sig": e.get("sig", "proc-exit")}, e])
    fails = validate_segments(ctx, "HttpMsgTrace", "HttpMsgTrace.cfg", segs, batch=400)
    for seg, idx, out, inv in fails:
        e = seg[1]
        if e.get("ev") == "ProcExit":
            report_failure(ctx, "%s:proc-exit:%s" % (label, e.get("report")), "process %s exited (%s) while serving case %s" % (e.get("proc"), e.get("report"), e.get("sig")), seg=seg)
            continue
        if e.get("ev") == "SessShim":
            report_failure(ctx, e.get("sig", label), "%s: %s - a websocket opened through the shim inside a session must carry the session's backend cookies for its path and the client's own, never the session cookie" % (
                e.get("sig"), json.dumps({k: v for k, v in e.items() if k not in ("pid", "seq", "src", "ev", "sig", "case")}, sort_keys=True)), seg=seg, tlc_out=out[-3000:])
            continue
        what = "%s case %s: sent %s / observed %s violates the reference semantics of HttpMsg" % (
            label, e.get("sig"), json.dumps(e.get("in", {k: e[k] for k in e if k.startswith(("sent", "assert", "fwd", "strip"))}), sort_keys=True)[:500],
            json.dumps(e.get("out", {k: e[k] for k in e if k.startswith("saw")}), sort_keys=True)[:500])
        report_failure(ctx, e.get("sig", label), what, seg=seg, tlc_out=out[-3000:])
    return segs, fails


def http_model(ctx):
    tlc_must_hold(ctx, "HttpMsg", "HttpMsg_MC.cfg")
    for sw in ("IdentityAdd", "JoinedTrailerNames", "LatchInterim"):
        tlc_must_fail(ctx, "HttpMsg", "HttpMsg_Attack_%s.cfg" % sw)


def c02(ctx):
    ctx.rule = ("cases = each-class sweep + seeded random combinations over method x path x query x host x 2 header slots x body classes "
                "(class domains exported by TLC from HttpMsgGen), concretised with fresh random bytes, sent by a raw TCP client through the real "
                "proxy+agent to a raw TCP backend; distinct = distinct class combinations" + "; repeated under agent configurations enumerated by TLC from AgentConfig.tla (the default and configurations within two property-neutral flags of it: time-out, shim, banner, sessions, health, debug, grace, VM identity, identity flags)")
    ctx.assumptions = ["judged in the agent's default handler chain", "X-Forwarded-For/Via/Forwarded are proxy-maintained and neither generated nor judged",
                       "Connection-nominated extension fields are not generated"]
    http_model(ctx)
    cases = http_cases(ctx, "req", 1500 if ctx.tier == "thorough" else 150)
    cpath = os.path.join(ctx.scratch, "req_cases.json")
    json.dump({"req": cases}, open(cpath, "w"))
    build_relay_bins(ctx)
    go_build_harness(ctx)
    events, _ = drive(ctx, "httpreq", cases=cpath, timeout=3000, env=agent_configs(ctx, "C02"))
    segs, fails = http_validate(ctx, events, "request")
    if not fails and segs:
        def drop_header(seg):
            e = seg[1]
            for i, h in enumerate(e["out"]["hdrs"]):
                if h[0].startswith("X-Custom") or h[0] == "X-Case":
                    del e["out"]["hdrs"][i]
                    return True
            return False

        def change_target(seg):
            seg[1]["out"]["target"] = seg[1]["out"]["target"] + "x"
            return True

        def body_digest(seg):
            seg[1]["out"]["body"] = [seg[1]["out"]["body"][0], "0000000000000000"]
            return True
        selftest(ctx, "HttpMsgTrace", "HttpMsgTrace.cfg", segs[0], [("drop-header", drop_header), ("target-changed", change_target), ("body-changed", body_digest)])


def c03(ctx):
    ctx.rule = ("cases = each-class sweep + seeded random combinations over status x request method x 2 header slots x framing x body pieces x "
                "declared/undeclared trailer counts x interim responses (domains exported by TLC), written byte-exactly by a scripted raw TCP backend "
                "behind the real agent+proxy and read by a raw client; distinct = distinct class combinations" + "; repeated under agent configurations enumerated by TLC from AgentConfig.tla (the default and configurations within two property-neutral flags of it: time-out, shim, banner, sessions, health, debug, grace, VM identity, identity flags)")
    ctx.assumptions = ["header name case is not preserved by Go and not required", "Date and framing headers (Content-Length, Transfer-Encoding, Trailer) are not compared",
                       "interim responses must not disturb the final response; whether they are forwarded is not judged", "h2c backend: framing classes collapse to with/without Content-Length"]
    thorough = ctx.tier == "thorough"
    http_model(ctx)
    tlc_must_fail(ctx, "Relay", "Relay_Attack_CleanCut.cfg")   # a response whose upload broke off must not look complete (Relay.UploadBreaks)
    must = [{"declared": 9, "framing": "chunked", "body": "multi", "status": 200, "method": "GET", "interim": "none"},
            {"declared": 9, "undeclared": 1, "framing": "chunked", "body": "single-small", "status": 200, "method": "POST", "interim": "none"},
            {"declared": 2, "framing": "chunked", "body": "single-small", "status": 200, "method": "GET", "interim": "none"},
            {"declared": 3, "framing": "chunked", "body": "multi", "status": 200, "method": "GET", "interim": "none"},
            {"interim": "103", "status": 201, "method": "GET", "framing": "length", "body": "single-small"},
            {"interim": "103x2", "status": 200, "method": "POST", "framing": "chunked", "body": "single-small", "declared": 1},
            {"body": "one1-then-rest", "framing": "chunked", "declared": 1, "undeclared": 1, "status": 200, "method": "GET", "interim": "none"},
            {"body": "len1", "framing": "chunked", "declared": 1, "status": 200, "method": "GET", "interim": "none"},
            {"body": "empty", "framing": "chunked", "declared": 1, "undeclared": 1, "status": 200, "method": "GET", "interim": "none"}]
    cases = http_cases(ctx, "resp", 2000 if thorough else 200, must)
    cpath = os.path.join(ctx.scratch, "resp_cases.json")
    json.dump({"resp": cases}, open(cpath, "w"))
    build_relay_bins(ctx, race=thorough)
    go_build_harness(ctx)
    events, _ = drive(ctx, "httpresp", cases=cpath, timeout=3000, env=agent_configs(ctx, "C03"))
    segs, fails = http_validate(ctx, events, "response")
    # the same abstract responses from an HTTP/2 (h2c) backend, agent started with --force-http2
    h2cases = cases if thorough else cases[:len(must)] + cases[len(must)::3]
    h2path = os.path.join(ctx.scratch, "resp_cases_h2c.json")
    json.dump({"resp": h2cases}, open(h2path, "w"))
    ev3, _ = drive(ctx, "httpresp", mode="h2c", cases=h2path, timeout=3000)
    http_validate(ctx, ev3, "response(h2c backend)")
    if thorough:
        ev2, _ = drive(ctx, "httpresp", mode="race", cases=cpath, timeout=3000)
        http_validate(ctx, ev2, "response(-race)")
    ok = [s for s in segs if not any(s is f[0] for f in fails) and s[1].get("ev") == "RespCase" and s[1]["out"]["hdrs"]]
    if ok:
        def status(seg):
            seg[1]["out"]["status"] = 200 if seg[1]["out"]["status"] != 200 else 500
            return True

        def lose_header(seg):
            e = seg[1]
            for i, h in enumerate(e["out"]["hdrs"]):
                if h[0].startswith("X-Resp") or h[0] == "Set-Cookie":
                    del e["out"]["hdrs"][i]
                    return True
            return False

        def body(seg):
            if seg[1]["out"]["body"][0] == 0:
                return False
            seg[1]["out"]["body"] = [seg[1]["out"]["body"][0], "ffff"]
            return True
        cand = [s for s in ok if s[1]["out"]["body"][0] > 0 and any(h[0].startswith("X-Resp") for h in s[1]["out"]["hdrs"])] or ok
        selftest(ctx, "HttpMsgTrace", "HttpMsgTrace.cfg", cand[0], [("status-changed", status), ("header-lost", lose_header), ("body-changed", body)])


def c09(ctx):
    ctx.rule = ("cases = all combinations of forward-user-id x strip-credentials x shim x sessions x forged identity header class x "
                "Authorization class x request kind (get, post, websocket-shim open), class domains exported by TLC; the real agent binary fetches "
                "each request from a scripted fake proxy that asserts a fresh random identity; distinct = distinct class combinations")
    ctx.assumptions = ["the asserted identity is the X-Inverting-Proxy-User-ID header of the fake proxy's fetch reply"]
    http_model(ctx)
    gen = tlc_generate(ctx, "HttpMsgGen", "HttpMsgGen.cfg", "httpmsg_domains.json")
    dom = json.load(open(gen))["id"]
    import itertools
    fields = ["fwd", "strip", "shim", "sessions", "forged", "auth", "kind", "asserted"]
    combos = list(itertools.product(*[dom[f] for f in fields]))
    if ctx.tier != "thorough":
        # quick: all flag combinations x all forged/auth/kind classes, sessions only off/on for half
        combos = [c for c in combos if not (c[3] and c[2]) and not (c[7] == "empty" and c[5] not in ("none", "bearer"))]
    cases = []
    for i, c in enumerate(combos):
        d = cap(dict(zip(fields, c)))
        d["N"] = i + 1
        cases.append(d)
    ctx.extra["class_product_size"] = len(list(itertools.product(*[dom[f] for f in fields])))
    cpath = os.path.join(ctx.scratch, "id_cases.json")
    json.dump({"id": cases}, open(cpath, "w"))
    go_build_repo(ctx, "./agent", "agent")
    go_build_harness(ctx)
    events, _ = drive(ctx, "identity", cases=cpath, timeout=3000)
    segs, fails = http_validate(ctx, events, "identity")
    okseg = [s for s in segs if not any(s is f[0] for f in fails) and s[1].get("fwd") and s[1].get("strip")]
    if okseg:
        def forged_first(seg):
            seg[1]["saw_user"] = ["evil@example.com"] + seg[1]["saw_user"]
            return True

        def auth_leaks(seg):
            seg[1]["saw_auth"] = ["Bearer leaked"]
            return True
        selftest(ctx, "HttpMsgTrace", "HttpMsgTrace.cfg", okseg[0], [("forged-identity-first", forged_first), ("authorization-leaks", auth_leaks)])


def life_cases(ctx):
    gen = tlc_generate(ctx, "AgentLifeGen", "AgentLifeGen.cfg", "life_cases.json")
    return json.load(open(gen))


def life_validate(ctx, events, label, drop=()):
    ev = int_fields(project(events, set(drop) | (NOISE - {"Backoff", "ListFail", "Healthy", "HealthProbe", "PollCheck"})))
    segs = split_segments(ev)
    fails = validate_segments(ctx, "AgentLifeTrace", "AgentLifeTrace.cfg", segs, batch=60)
    for seg, idx, out, inv in fails:
        e = seg[min(max(idx, 0), len(seg) - 1)]
        sig = "%s:%s" % (seg[0].get("sig"), inv or e.get("ev"))
        what = "%s scenario %s: event #%d %s is not a behaviour of AgentLife%s" % (
            label, seg[0].get("sig"), idx + 1, json.dumps({k: v for k, v in e.items() if k not in ("pid", "seq", "src")}, sort_keys=True)[:300],
            (" (invariant %s)" % inv) if inv else "")
        report_failure(ctx, sig, what, seg=seg, tlc_out=out[-4000:])
    return segs, fails


def life_model(ctx, thorough):
    tlc_must_hold(ctx, "AgentLife", "AgentLife_MC.cfg")
    tlc_must_hold(ctx, "AgentLife", "AgentLife_MC_NoGrace.cfg")
    if thorough:
        tlc_must_hold(ctx, "AgentLife", "AgentLife_MCbig.cfg")
    for sw in ("ShiftUnguarded", "PollBeforeHealthy", "NoReset", "CancelWorkers"):
        tlc_must_fail(ctx, "AgentLife", "AgentLife_Attack_%s.cfg" % sw)


def c08(ctx):
    ctx.rule = ("cases = (a) the real ExponentialBackoffDuration for every retry count enumerated by TLC (0..70 and Big = 64, 65, 100, 2^32, 2^63-1, 2^63, "
                "2^64-1), min/max over 1000 (quick) / 100000 (thorough) draws each, judged against Lo/Hi of AgentLife; (b) the real agent binary against a "
                "fake proxy failing its list calls in scripted patterns; distinct = distinct retry counts and patterns" + "; repeated under agent configurations enumerated by TLC from AgentConfig.tla (the default and configurations within two property-neutral flags of it: time-out, shim, banner, sessions, health, debug, grace, VM identity, identity flags)")
    ctx.assumptions = ["time between a failing list reply and the next list call is measured on the fake proxy's monotonic clock and must be >= Lo(n)",
                       "an upper bound on the observed gap is not enforced (scheduling noise); the logged delay itself is bounded by Hi(n)"]
    thorough = ctx.tier == "thorough"
    life_model(ctx, thorough)
    cases = life_cases(ctx)
    cpath = os.path.join(ctx.scratch, "life_cases.json")
    json.dump(cases, open(cpath, "w"))
    go_build_repo(ctx, "./agent", "agent")
    go_build_harness(ctx)
    events, _ = drive(ctx, "backoff", cases=cpath, timeout=1800, env=agent_configs(ctx, "C08"))
    # the function-level phase emits its own aggregated events; the per-call hook events are noise there
    keep = []
    started = False
    for e in events:
        if e.get("ev") == "Reset":
            started = True
        if started:
            keep.append(e)
    segs, fails = life_validate(ctx, keep, "back-off", drop={"Healthy", "HealthProbe"})
    if not fails:
        loops = [s for s in segs if any(e.get("ev") == "Backoff" for e in s)]

        def zero_delay(seg):
            for e in seg:
                if e.get("ev") == "Backoff":
                    e["d_us"] = 0
                    return True
            return False

        def no_reset(seg):
            seen_ok = False
            for e in seg:
                if e.get("ev") == "ListOK":
                    seen_ok = True
                if seen_ok and e.get("ev") == "ListFail":
                    e["retry"] = e["retry"] + 3
                    return True
            return False

        def busy(seg):
            for i, e in enumerate(seg):
                if e.get("ev") == "ListAnswer" and not e.get("ok"):
                    for j in range(i + 1, len(seg)):
                        if seg[j].get("ev") == "ListArrive":
                            seg[j]["t_us"] = e["t_us"] + 1
                            if any(x.get("ev") == "ListFail" and x.get("retry", 0) >= 1 for x in seg[:j]):
                                return True
            return False
        target = [s for s in loops if any(e.get("ev") == "ListOK" for e in s)] or loops
        selftest(ctx, "AgentLifeTrace", "AgentLifeTrace.cfg", target[0], [("zero-delay", zero_delay), ("retry-counter-not-reset", no_reset), ("busy-loop", busy)])


def c20(ctx):
    import random
    ctx.rule = ("cases = health-check histories enumerated by TLC (sequences over {pass, fail} of length <= 5, thresholds 1..3; quick: seeded sample of 14 "
                "incl. fixed shapes, thorough: all 186) against the real agent binary with a scripted health endpoint (1 s interval), and signal placements "
                "{idle, request listed, request at backend, before healthy} x {SIGINT, SIGTERM} x grace/latency combinations; distinct = distinct scenarios")
    ctx.assumptions = ["prompt exit = within 2 s of the signal; end of grace period = within [grace-50ms, grace+2s]",
                       "a failed health check = non-200 answer (an endpoint that never answers is not generated)",
                       "'no new polls': no list call whose context check saw the cancellation (at most the one in flight continues)"]
    thorough = ctx.tier == "thorough"
    life_model(ctx, thorough)
    cases = life_cases(ctx)
    rnd = random.Random(ctx.seed)
    hs = cases["health"]
    if not thorough:
        must = [h for h in hs if (h["threshold"], "".join(h["history"])) in {(2, "PFPFF"), (1, "FFP"), (3, "PFFPF"), (2, "FFPFP"), (1, "PF"), (3, "PFFF")}]
        rest = [h for h in hs if h not in must]
        hs = must + rnd.sample(rest, 8)
    # thresholds beyond the small ones (quick: the shortest of them; thorough: all)
    big = sorted(cases.get("healthbig", []), key=lambda h: len(h["history"]))
    hs = hs + (big if thorough else big[:1])
    cpath = os.path.join(ctx.scratch, "life_cases.json")
    json.dump({"health": hs, "retry": []}, open(cpath, "w"))
    ctx.extra["health_histories_enumerated_by_tlc"] = len(cases["health"])
    go_build_repo(ctx, "./agent", "agent")
    go_build_harness(ctx)
    events, _ = drive(ctx, "life", cases=cpath, timeout=3000)
    segs, fails = life_validate(ctx, events, "lifecycle", drop={"Backoff"} if False else ())
    if not fails:
        hsegs = [s for s in segs if s[0].get("sig", "").startswith("health:") and any(e.get("ev") == "Exit" for e in s)]
        ssegs = [s for s in segs if s[0].get("sig", "").startswith("signal:backend") and "grace2000" in s[0].get("sig", "")]

        def list_before_healthy(seg):
            for i, e in enumerate(seg):
                if e.get("ev") == "HealthReply":
                    seg.insert(i, {"ev": "PollCheck"})
                    return True
            return False

        def exit_early(seg):
            idx = [i for i, e in enumerate(seg) if e.get("ev") == "HealthReply"]
            ex = [i for i, e in enumerate(seg) if e.get("ev") == "Exit"]
            if len(idx) < 2 or not ex:
                return False
            e = seg.pop(ex[0])
            seg.insert(idx[-1], e)
            return True

        def poll_after_cancel(seg):
            for i, e in enumerate(seg):
                if e.get("ev") == "PollStop":
                    seg[i] = {"ev": "PollCheck"}
                    return True
            for i, e in enumerate(seg):
                if e.get("ev") == "Cancel":
                    seg.insert(i + 1, {"ev": "PollCheck"})
                    return True
            return False

        def lost_inflight(seg):
            for i, e in enumerate(seg):
                if e.get("ev") == "FakePost":
                    del seg[i]
                    return True
            return False

        def late_exit(seg):
            for e in seg:
                if e.get("ev") == "Exit":
                    e["after_ms"] = e["after_ms"] + 5000
                    return True
            return False
        if hsegs:
            selftest(ctx, "AgentLifeTrace", "AgentLifeTrace.cfg", hsegs[0], [("list-before-healthy", list_before_healthy), ("exit-before-threshold", exit_early)])
        if ssegs:
            selftest(ctx, "AgentLifeTrace", "AgentLifeTrace.cfg", ssegs[0], [("poll-after-cancel", poll_after_cancel), ("in-flight-request-lost", lost_inflight), ("exit-too-late", late_exit)])
        if not hsegs or not ssegs:
            raise Inconclusive("self-test segments missing")


def c10(ctx):
    import random
    ctx.rule = ("cases = seeded histories of 3..7 requests over sessions {S1,S2,S3,N} x hosts x paths x backend cookie operations x client extra cookies "
                "(class domains exported by TLC) through the real sessions.SessionHandler, judged against an independent net/http/cookiejar per session; "
                "an eviction scenario (4 sessions, cache of 2); concurrent bursts (24 goroutines x 40 requests, shared and one-shot sessions) in a -race child "
                "process; distinct = distinct (session:operation) sequences")
    ctx.assumptions = ["request URL for the jar is https://<Host><path>", "exact backend view is judged for sequential histories; under concurrency only isolation, "
                       "no leak, session-cookie rules and process survival are judged", "race reports count only with both stacks in repository code"]
    thorough = ctx.tier == "thorough"
    tlc_must_hold(ctx, "Sessions", "Sessions_MC.cfg", timeout=1200)
    tlc_must_fail(ctx, "Sessions", "Sessions_Attack_UnlockedLookup.cfg")
    tlc_must_fail(ctx, "Sessions", "Sessions_Attack_NoStrip.cfg")
    tlc_must_fail(ctx, "Sessions", "Sessions_Attack_SessionCookieShown.cfg")
    gen = tlc_generate(ctx, "SessionsGen", "SessionsGen.cfg", "sessions_domains.json")
    dom = json.load(open(gen))
    rnd = random.Random(ctx.seed)
    hists = []
    # fixed shapes: set then read back, overwrite, delete, path scope, other session must not see it
    hists.append([{"Session": "S1", "Host": "h1.example.com", "Path": "/", "Op": "set", "Extra": "none"},
                  {"Session": "S2", "Host": "h1.example.com", "Path": "/", "Op": "set", "Extra": "one"},
                  {"Session": "S1", "Host": "h1.example.com", "Path": "/a", "Op": "path-scoped", "Extra": "none"},
                  {"Session": "S2", "Host": "h1.example.com", "Path": "/a/b", "Op": "none", "Extra": "none"},
                  {"Session": "S1", "Host": "h1.example.com", "Path": "/a/b", "Op": "delete-maxage", "Extra": "two"},
                  {"Session": "S1", "Host": "h1.example.com", "Path": "/", "Op": "none", "Extra": "same-name-as-jar"},
                  {"Session": "N", "Host": "h1.example.com", "Path": "/", "Op": "set", "Extra": "none"},
                  {"Session": "N", "Host": "h1.example.com", "Path": "/", "Op": "none", "Extra": "none"}])
    # histories inside one session: every ordered pair (thorough: triple) of responses that carry the same cookie name and
    # value with different attributes, then reads under three paths - what a jar does with a cookie depends on what it holds
    same = sorted(dom.get("sameop", []))
    import itertools
    for ops in itertools.product(same, repeat=3 if thorough else 2):
        h = [{"Session": "S1", "Host": "h1.example.com", "Path": "/a/b", "Op": o, "Extra": "none"} for o in ops]
        h += [{"Session": "S1", "Host": "h1.example.com", "Path": p, "Op": "none", "Extra": "none"} for p in ("/a/b", "/other", "/")]
        hists.append(h)
    for _ in range(3000 if thorough else 300):
        n = rnd.randint(3, 7)
        hists.append([{"Session": rnd.choice(dom["session"]), "Host": rnd.choice(dom["host"]), "Path": rnd.choice(dom["path"]),
                       "Op": rnd.choice(dom["op"]), "Extra": rnd.choice(dom["extra"])} for _ in range(n)])
    cpath = os.path.join(ctx.scratch, "sess_cases.json")
    json.dump({"histories": hists}, open(cpath, "w"))
    go_build_harness(ctx)
    go_build_harness(ctx, out="vdrive-race", race=True)
    events, _ = drive(ctx, "sessions", cases=cpath, timeout=3000)
    # session tracking in the agent's own handler chain, together with the websocket shim (agent binary behind a fake
    # proxy, websocket backend): one scenario per combination of the identity flags, judged by HttpMsgTrace.TSessShim
    go_build_repo(ctx, "./agent", "agent")
    idc = []
    for i, (fwd, strip) in enumerate([(False, False), (True, False), (False, True), (True, True)]):
        idc.append({"N": i + 1, "Fwd": fwd, "Strip": strip, "Shim": True, "Sessions": True, "Forged": "none", "Auth": "none", "Kind": "get", "Asserted": "email"})
    ipath = os.path.join(ctx.scratch, "id_cases_sessions_shim.json")
    json.dump({"id": idc}, open(ipath, "w"))
    iev, _ = drive(ctx, "identity", cases=ipath, timeout=600)
    isegs, ifails = http_validate(ctx, [e for e in iev if e.get("ev") in ("SessShim", "ProcExit")], "sessions+shim")
    if not any(e.get("ev") == "SessShim" for e in iev):
        raise Inconclusive("the sessions + shim scenario did not run")
    segs = split_segments(events)
    fails = validate_segments(ctx, "SessionsTrace", "SessionsTrace.cfg", segs, batch=150)
    for seg, idx, out, inv in fails:
        e = seg[min(max(idx, 0), len(seg) - 1)]
        if e.get("ev") == "BurstDone":
            sig = "sessions-burst:child-%s" % (e.get("report") or "failed")
            what = "concurrent burst through the session handler ended with a %s report (in repository code: %s)" % (e.get("report"), e.get("in_repo"))
        else:
            sig = "%s:%s:%s" % (seg[0].get("sig"), e.get("mode"), e.get("op"))
            what = "session %s request %s%s op=%s: backend saw %s, reference jar %s + client cookies %s, client Set-Cookie %s" % (
                e.get("label"), e.get("host"), e.get("path"), e.get("op"), e.get("saw"), e.get("expected"), e.get("extra"), e.get("client_setcookie"))
        report_failure(ctx, sig, what, seg=seg, tlc_out=out[-3000:])
    good = [s for s in segs if s[0].get("sig") == "sessions-history" and not any(s is f[0] for f in fails)]
    if good:
        def foreign_cookie(seg):
            for e in seg:
                if e.get("ev") == "SessReq" and e.get("presented"):
                    e["saw"] = e["saw"] + [["x", "OTHER~1"]]
                    e["tags"] = e["tags"] + ["OTHER"]
                    return True
            return False

        def leak(seg):
            for e in seg:
                if e.get("ev") == "SessReq" and e.get("presented"):
                    e["client_setcookie"] = ["x"]
                    return True
            return False

        def session_cookie_to_backend(seg):
            for e in seg:
                if e.get("ev") == "SessReq" and e.get("presented"):
                    e["saw"] = e["saw"] + [[e["cookie_name"], e["presented"]]]
                    return True
            return False

        def lost_cookie(seg):
            for e in seg:
                if e.get("ev") == "SessReq" and e.get("expected"):
                    e["saw"] = [c for c in e["saw"] if c != e["expected"][0]]
                    return True
            return False
        cand = [s for s in good if any(e.get("ev") == "SessReq" and e.get("presented") and e.get("expected") for e in s)]
        selftest(ctx, "SessionsTrace", "SessionsTrace.cfg", (cand or good)[0], [("foreign-cookie", foreign_cookie), ("set-cookie-leaks", leak),
                                                                                 ("session-cookie-reaches-backend", session_cookie_to_backend), ("jar-cookie-lost", lost_cookie)])


def ws_model(ctx):
    tlc_must_hold(ctx, "WsShim", "WsShim_MC.cfg", timeout=1200)
    tlc_must_fail(ctx, "WsShim", "WsShim_Attack_CloseClosesChan.cfg")
    tlc_must_fail(ctx, "WsShim", "WsShim_Attack_DrainByCount.cfg")         # two polls over-count the backlog: panic once the backend closes
    tlc_must_fail(ctx, "WsShim", "WsShim_Attack_DrainByCount_Live.cfg")    # ... or one of them is never answered
    tlc_must_fail(ctx, "WsShim", "WsShim_Attack_SweepDone.cfg")            # table swept of done sessions with unpolled messages: not WsShimObs


def ws_cases(ctx):
    gen = tlc_generate(ctx, "WsShimGen", "WsShimGen.cfg", "ws_cases.json")
    return json.load(open(gen))


def ws_validate(ctx, events, label, per_case=False):
    if per_case:
        segs = [[{"ev": "Reset", "seg": "case", "sig": e.get("sig", "url")}, e] for e in events if e.get("ev") == "OpenCase"]
    else:
        segs = split_segments(events)
    fails = validate_segments(ctx, "WsShimTrace", "WsShimTrace.cfg", segs, batch=120)
    for seg, idx, out, inv in fails:
        e = seg[min(max(idx, 0), len(seg) - 1)]
        ev = {k: v for k, v in e.items() if k not in ("pid", "seq", "src")}
        panics = [x for x in seg if x.get("ev") in ("Panic", "Wedged")]
        if panics:
            e = panics[0]
            ev = {k: v for k, v in e.items() if k not in ("pid", "seq", "src")}
        sig = "%s:%s" % (seg[0].get("sig"), e.get("ev") if e.get("ev") != "Call" else "Call-%s-%s-%s" % (e.get("kind"), e.get("arg"), e.get("status")))
        what = "%s %s: event #%d %s is not allowed by the shim specification" % (label, seg[0].get("sig"), idx + 1, json.dumps(ev, sort_keys=True)[:400])
        report_failure(ctx, sig, what, seg=seg, tlc_out=out[-3000:])
    return segs, fails


def c11(ctx):
    ctx.rule = ("cases = seeded random histories of client batches (1,2,3,12,15 messages), backend bursts (1,2,11,25 messages) and polls over text (21 character classes exported by TLC - quotes, escapes, U+FFFD, BOM, NUL, U+2028, U+10FFFF ... - "
                "every class in both directions in every run; "
                "astral characters), binary (arbitrary bytes), JSON with/without resource.headers (number classes incl. integers > 2^53), sizes 0..5000 B "
                "(1 MB in thorough), protocol version 1, one third with header injection enabled; distinct = distinct batch/burst/poll shapes")
    ctx.assumptions = ["one data post and one poll outstanding at a time, as the injected browser shim does", "payload equality is decided by the harness (bytes; JSON values with "
                       "numbers as decimal strings for injected messages) and reported per message"]
    ws_model(ctx)
    go_build_harness(ctx)
    wc = ws_cases(ctx)
    wpath = os.path.join(ctx.scratch, "ws_cases.json")
    json.dump({"seqs": [], "urls": [], "textclasses": wc.get("textclasses", [])}, open(wpath, "w"))
    events, _ = drive(ctx, "wsmsg", cases=wpath, timeout=3000)
    segs, fails = ws_validate(ctx, events, "message history")
    good = [s for s in segs if not any(s is f[0] for f in fails) and sum(1 for e in s if e.get("ev") == "BackendRecv") >= 3]
    if good:
        def reorder(seg):
            idx = [i for i, e in enumerate(seg) if e.get("ev") == "BackendRecv"]
            seg[idx[0]]["n"], seg[idx[1]]["n"] = seg[idx[1]]["n"], seg[idx[0]]["n"]
            return True

        def duplicate(seg):
            for i, e in enumerate(seg):
                if e.get("ev") == "BackendRecv":
                    seg.insert(i + 1, dict(e))
                    return True
            return False

        def altered(seg):
            for e in seg:
                if e.get("ev") == "BackendRecv":
                    e["same"] = False
                    return True
            return False

        def poll_skips(seg):
            for e in seg:
                if e.get("ev") == "Call" and e.get("kind") == "poll" and e.get("status") == 200:
                    e["first"] = e["first"] + 1
                    return True
            return False
        selftest(ctx, "WsShimTrace", "WsShimTrace.cfg", good[0], [("reordered", reorder), ("duplicated", duplicate), ("payload-altered", altered), ("poll-skips-message", poll_skips)])


def c12(ctx):
    import random
    ctx.rule = ("cases = call sequences of length <= 3 over {open, data, poll, close} x {valid, unknown, closed, malformed, wrong type} + {backend-send, backend-close} "
                "enumerated by TLC (4368 sequences; seeded sample quick 150 / thorough 2500 plus fixed shapes; and 3750 histories of 4-5 well-formed steps on one session, sample 90 / 1500), and gated concurrent pairs (data racing close, close "
                "racing close) plus an ungated stress in a -race child process; distinct = distinct sequences")
    ctx.assumptions = ["a poll on a session with nothing pending is preceded by a backend message (an empty poll legitimately waits 20 s)",
                       "a panic recovered in a harness call goroutine counts as a panic: the agent's workers are bare goroutines"]
    thorough = ctx.tier == "thorough"
    ws_model(ctx)
    cases = ws_cases(ctx)
    rnd = random.Random(ctx.seed)
    must = [["open", "data-valid", "close-valid"], ["open", "close-valid", "data-closed"], ["open", "close-valid", "close-closed"],
            ["open", "backend-send", "backend-close", "poll-valid"], ["backend-close", "poll-valid", "poll-valid"], ["open", "backend-close", "data-valid"],
            ["close-valid", "poll-closed", "data-closed"], ["data-malformed", "poll-malformed", "close-malformed"], ["data-wrongtype", "data-unknown", "poll-unknown"]]
    # histories: something an earlier step left behind decides a later answer (a refused data call in front of a poll with a
    # backlog, a rejected close in front of a valid one, ...)
    must += [["open", "backend-send", "backend-send", "backend-close", "data-valid", "poll-valid", "poll-valid"],
             ["close-unknown", "open", "close-valid", "poll-unknown"], ["close-closed", "open", "data-valid", "close-valid"],
             ["poll-unknown", "open", "backend-send", "poll-valid", "close-valid"], ["data-unknown", "open", "data-valid", "backend-send", "poll-valid"],
             # boundary: more messages pending for one poll than the connection's buffer holds (10) - ten, eleven, twelve
             ["open"] + ["backend-send"] * 10 + ["poll-valid", "backend-send", "poll-valid", "close-valid"],
             ["open"] + ["backend-send"] * 11 + ["poll-valid", "poll-valid", "close-valid"],
             ["open"] + ["backend-send"] * 12 + ["poll-valid", "poll-valid", "backend-close", "poll-valid"]]
    hist = [["open"] + h for h in cases.get("histseqs", [])]
    seqs = must + rnd.sample(cases["seqs"], 2500 if thorough else 150) + rnd.sample(hist, min(len(hist), 1500 if thorough else 90))
    ctx.extra["sequences_enumerated_by_tlc"] = len(cases["seqs"]) + len(hist)
    cpath = os.path.join(ctx.scratch, "ws_cases.json")
    json.dump({"seqs": seqs, "urls": []}, open(cpath, "w"))
    go_build_harness(ctx)
    go_build_harness(ctx, out="vdrive-race", race=True)
    events, _ = drive(ctx, "wscalls", cases=cpath, timeout=3000)
    segs, fails = ws_validate(ctx, events, "call sequence")
    good = [s for s in segs if not any(s is f[0] for f in fails) and any(e.get("ev") == "Call" and e.get("arg") == "unknown" for e in s)]
    if good:
        def unknown_ok(seg):
            for e in seg:
                if e.get("ev") == "Call" and e.get("arg") == "unknown":
                    e["status"] = 200
                    return True
            return False

        def no_answer(seg):
            for e in seg:
                if e.get("ev") == "Call":
                    e["status"] = 0
                    return True
            return False

        def panicked(seg):
            for e in seg:
                if e.get("ev") == "Final":
                    e["panicked"] = True
                    return True
            return False
        selftest(ctx, "WsShimTrace", "WsShimTrace.cfg", good[0], [("unknown-session-accepted", unknown_ok), ("call-unanswered", no_answer), ("panic", panicked)])


def c13(ctx):
    ctx.rule = ("cases = 144 reserved-character classes (one of @ : / ? # [ %40 %2F inside path / query / fragment x empty / non-empty path x absolute / scheme-relative / "
                "relative reference) and 20 URL syntax classes enumerated by TLC (absolute with foreign host in 4 schemes, scheme-relative, path-only, opaque, empty, userinfo, IPv6, odd/"
                "empty port, fragment, parse errors, raw bytes, dot segments, encoded path ...) x 5 (quick) / 200 (thorough) concrete instances each as the body of a "
                "shim open request, with a recording dialer installed in gorilla's DefaultDialer; plus requests outside the shim prefix; distinct = URL classes")
    ctx.assumptions = ["the recording dialer refuses to connect to anything but the backend, so a foreign dial shows up as an address in the record, not as traffic"]
    ws_model(ctx)
    cases = ws_cases(ctx)
    cpath = os.path.join(ctx.scratch, "ws_cases.json")
    json.dump({"seqs": [], "urls": cases["urls"], "reserved": cases.get("reserved", [])}, open(cpath, "w"))
    ctx.extra["reserved_character_classes"] = len(cases.get("reserved", []))
    go_build_harness(ctx)
    events, _ = drive(ctx, "wsurls", cases=cpath, timeout=3000)
    segs, fails = ws_validate(ctx, events, "open request", per_case=True)
    good = [s for s in segs if not any(s is f[0] for f in fails) and s[1].get("status") == 200]
    if good:
        def foreign(seg):
            seg[1]["dialed"] = seg[1]["dialed"] + ["evil.example:80"]
            return True

        def path(seg):
            seg[1]["saw_path"] = seg[1]["saw_path"] + "x"
            return True
        selftest(ctx, "WsShimTrace", "WsShimTrace.cfg", good[0], [("foreign-dial", foreign), ("path-changed", path)])


def c14(ctx):
    import random
    ctx.rule = ("cases = each-class sweep + seeded random combinations over method x Accept x Sec-Fetch-Mode x Sec-Fetch-Dest x Referer x status x Content-Type x "
                "Content-Disposition x body shape (<head> absent / at 0 / early / after 3 KB / straddling byte 1024 / twice / upper case / empty / 100 KB) x backend "
                "write segmentation x banner on/off x shim on/off x handler configuration (banner HTML / height / favicon URL / shim path) (domains exported by TLC from Inject.tla) through the real banner.Proxy + websockets.Proxy + "
                "ReverseProxy(ShimBody) chain; distinct = class combinations")
    ctx.assumptions = ["'HTML document' = media type text/html or application/xhtml+xml; Content-Types that merely mention html are generated but not judged",
                       "'already framed' = Sec-Fetch-Mode nested-navigate, Sec-Fetch-Dest iframe, or a Referer with the same host and path"]
    tlc_must_hold(ctx, "Inject", "Inject_MC.cfg")
    gen = tlc_generate(ctx, "InjectGen", "InjectGen.cfg", "inject_domains.json")
    exported = json.load(open(gen))
    dom = exported["dom"]
    rnd = random.Random(ctx.seed)
    # one representative per element of the product of the decision model's strata (exported by TLC from the
    # predicates of Inject.tla) x banner x shim: every branch combination of the decision is exercised
    import itertools
    strata_fields = sorted(exported["strata"].keys())
    stratified = []
    for combo in itertools.product(*[range(len(exported["strata"][f])) for f in strata_fields]):
        for fr in exported["framed"]:
            for bn in (True, False):
                for sh in (True, False):
                    if ctx.tier != "thorough" and not bn and not sh and rnd.random() < 0.75:
                        continue    # nothing enabled: a quarter of these strata per quick run
                    fixed = {f: rnd.choice(exported["strata"][f][k]) for f, k in zip(strata_fields, combo)}
                    fixed.update({f: rnd.choice(v) for f, v in fr.items()})
                    fixed.update({"banner": bn, "shim": sh})
                    stratified.append(fixed)
    ctx.extra["decision_strata"] = len(stratified)
    must = stratified + [{"banner": True, "shim": True, "method": "GET", "accept": "html", "status": 200, "ctype": "html", "dispo": "none", "mode": "none", "dest": "none", "referer": "none", "body": "head-early"},
            {"banner": True, "shim": True, "method": "GET", "accept": "html", "status": 200, "ctype": "html", "dispo": "none", "mode": "nested-navigate", "dest": "none", "referer": "none", "body": "head-early"},
            {"banner": False, "shim": True, "method": "GET", "accept": "html", "status": 200, "ctype": "html-charset", "dispo": "none", "body": "two-heads", "first": "all"},
            {"banner": False, "shim": True, "method": "GET", "accept": "json", "status": 200, "ctype": "json", "dispo": "none", "body": "head-early", "first": "all"},
            {"banner": True, "shim": False, "method": "GET", "accept": "html", "status": 200, "ctype": "html", "dispo": "attachment", "mode": "none", "dest": "none", "referer": "none", "body": "head-early"},
            {"banner": True, "shim": False, "method": "POST", "accept": "html", "status": 200, "ctype": "html", "dispo": "none", "mode": "none", "dest": "none", "referer": "none", "body": "head-early"},
            {"banner": True, "shim": False, "method": "GET", "accept": "html", "status": 404, "ctype": "html", "dispo": "none", "mode": "none", "dest": "none", "referer": "none", "body": "head-early"}]
    # every configuration class with every kind of alteration the property allows, and with the framed request
    for su in dom.get("setup", []):
        base = {"setup": su, "method": "GET", "accept": "html", "status": 200, "ctype": "html", "dispo": "none", "mode": "none", "dest": "none", "referer": "none", "cenc": "none"}
        must += [dict(base, banner=True, shim=True, body="head-early"), dict(base, banner=True, shim=False, body="no-head"),
                 dict(base, banner=True, shim=True, body="head-early", referer="same"), dict(base, banner=True, shim=False, body="head-early", dest="iframe"),
                 dict(base, banner=False, shim=True, body="head-early"), dict(base, banner=False, shim=True, body="two-heads", first="tiny"),
                 dict(base, banner=True, shim=True, body="head-early", ctype="json", accept="json"), dict(base, banner=True, shim=True, body="head-early", cenc="gzip")]
    cs = class_cases(dom, 4000 if ctx.tier == "thorough" else 450, rnd, must)
    cases = []
    for i, c in enumerate(cs):
        d = cap(c)
        d["N"] = i + 1
        cases.append(d)
    prod = 1
    for v in dom.values():
        prod *= len(v)
    ctx.extra["class_product_size"] = prod
    cpath = os.path.join(ctx.scratch, "inject_cases.json")
    json.dump({"cases": cases}, open(cpath, "w"))
    go_build_harness(ctx)
    events, _ = drive(ctx, "inject", cases=cpath, timeout=3000)
    kinds = {}
    for e in events:
        if e.get("ev") == "InjectCase":
            kinds[e["out"]["kind"]] = kinds.get(e["out"]["kind"], 0) + 1
    ctx.extra["observed_kinds"] = kinds
    segs = [[{"ev": "Reset", "seg": e.get("case"), "sig": e.get("sig")}, e] for e in events if e.get("ev") == "InjectCase"]
    fails = validate_segments(ctx, "InjectTrace", "InjectTrace.cfg", segs, batch=1500)
    for seg, idx, out, inv in fails:
        e = seg[1]
        report_failure(ctx, e.get("sig"), "request/response classes %s: observed %s, which the injection rules of C14 do not allow" % (json.dumps(e["c"], sort_keys=True), json.dumps(e["out"], sort_keys=True)), seg=seg, tlc_out=out[-2000:])
    if not all(k in kinds for k in ("same", "script", "frame")):
        raise Inconclusive("not all alteration kinds were observed: %s" % kinds)
    ok = [s for s in segs if not any(s is f[0] for f in fails)]
    nonhtml = [s for s in ok if s[1]["c"]["ctype"] in ("json", "plain", "octet") and s[1]["out"]["kind"] == "same"]
    framed = [s for s in ok if s[1]["out"]["kind"] == "frame"]

    def touched(seg):
        seg[1]["out"]["kind"] = "script"
        return True

    def hdrs(seg):
        seg[1]["out"]["hdrs_same"] = False
        return True

    def frame_not_ok(seg):
        seg[1]["out"]["frame_ok"] = False
        return True

    def frame_on_post(seg):
        seg[1]["c"]["method"] = "POST"
        return True
    selftest(ctx, "InjectTrace", "InjectTrace.cfg", nonhtml[0], [("non-html-body-touched", touched), ("non-html-headers-touched", hdrs)])
    selftest(ctx, "InjectTrace", "InjectTrace.cfg", framed[0], [("frame-without-url-or-cache-headers", frame_not_ok), ("frame-on-post", frame_on_post)])


def bridge_run(ctx):
    import random
    tlc_must_hold(ctx, "TcpBridge", "TcpBridge_MCbig.cfg" if ctx.tier == "thorough" else "TcpBridge_MC.cfg")   # incl. the refinement TcpBridge => TcpBridgeObs
    tlc_must_fail(ctx, "TcpBridge", "TcpBridge_Attack_WaitBoth.cfg")
    tlc_must_fail(ctx, "TcpBridge", "TcpBridge_Attack_ReadDeadline.cfg")   # a read deadline after a half-close ends the other direction early
    tlc_must_fail(ctx, "TcpBridge", "TcpBridge_Attack_MarkerLost.cfg")     # a CloseWrite marker lost to a stale write deadline: the close never arrives
    gen = tlc_generate(ctx, "TcpBridgeGen", "TcpBridgeGen.cfg", "bridge_domains.json")
    dom = json.load(open(gen))
    rnd = random.Random(ctx.seed)
    # the half-close-then-reply closers with a slow reader and a large reply keep data queued in the bridge at the
    # moment the last close arrives: always part of the run
    must = [{"closer": c, "up": "in-flight-large", "down": "in-flight-large", "wseg": "64k", "rbuf": "4096", "pace": "slow-reader"} for c in ("server-half-reply", "client-half-reply")]
    cs = class_cases(dom, 300 if ctx.tier == "thorough" else 12, rnd, must)
    cpath = os.path.join(ctx.scratch, "bridge_cases.json")
    json.dump({"cases": [cap(c) for c in cs]}, open(cpath, "w"))
    go_build_repo(ctx, "./utils/tcpbridge/tcp-bridge-frontend", "tcp-bridge-frontend")
    go_build_repo(ctx, "./utils/tcpbridge/tcp-bridge-backend", "tcp-bridge-backend")
    go_build_harness(ctx)
    events, _ = drive(ctx, "bridge", cases=cpath, timeout=3000)
    return events


def bridge_validate(ctx, segs):
    """Segments with many connections are validated one per TLC run: the set of connections is a constant of the
    trace specification (all connections of a batch), and every state carries a function over it."""
    heavy = [s for s in segs if sum(1 for e in s if e.get("ev") == "Open") > 8]
    light = [s for s in segs if not any(s is h for h in heavy)]
    fails = validate_segments(ctx, "TcpBridgeTrace", "TcpBridgeTrace.cfg", light, batch=40) if light else []
    for h in heavy:
        fails += validate_segments(ctx, "TcpBridgeTrace", "TcpBridgeTrace.cfg", [h], batch=1, timeout=1800)
    return fails


def bridge_report(ctx, fails, label):
    for seg, idx, out, inv in fails:
        e = seg[min(max(idx, 0), len(seg) - 1)]
        ev = {k: v for k, v in e.items() if k not in ("pid", "seq", "src")}
        closes = [(x.get("c"), x.get("d")) for x in seg if x.get("ev") == "PeerClose"]
        eofs = [(x.get("c"), x.get("d")) for x in seg if x.get("ev") == "PeerEOF"]
        sig = "%s:%s" % (seg[0].get("sig"), e.get("ev"))
        what = "%s %s: event #%d %s not allowed by TcpBridge (closes %s, end-of-stream observed for %s)" % (label, seg[0].get("sig"), idx + 1, json.dumps(ev, sort_keys=True)[:300], closes, eofs)
        report_failure(ctx, sig, what, seg=seg, tlc_out=out[-3000:])


def c15(ctx):
    ctx.rule = ("cases = each-class sweep + seeded combinations over closer x amount of data in each direction x write segment size {1, small, 1024, 1025, 64 KB} x "
                "read buffer size {1, 7, 1024, 4096, 64 KB} (domains exported by TLC) through the real tcp-bridge-frontend and tcp-bridge-backend binaries with harness "
                "TCP peers at both ends, all 256 byte values, both directions at once; 4 (quick) / 16 (thorough) concurrent connections with 256 KB / 8 MB each way; "
                "plain HTTP GET and POST to the bridge backend; plus the connection package used directly (DialWebsocket's net.Conn <-> connection.Handler in process) with "
                "read buffers of 1 B .. 64 KB on the websocket side, 18 single connections and 2 (thorough 10) rounds of 16 connections at once; distinct = class combinations")
    ctx.assumptions = ["content of every read is compared with the expected stream position by the harness (reported as ok) and the byte counts are judged by TcpBridgeTrace",
                       "close events are projected away for C15 (they are judged by C16)"]
    events = bridge_run(ctx)
    # the same property at the level of the connection package (DialWebsocket's net.Conn against connection.Handler in
    # process): read buffers smaller than a message exercise the partially consumed message, which the 32 KB copy
    # buffers of the bridge binaries never do
    lib_events, _ = drive(ctx, "bridgelib", timeout=1800)
    events = events + lib_events
    ev = []
    for e in events:
        if e.get("ev") == "PeerEOF":
            continue
        if e.get("ev") == "Final":
            e = dict(e, judge_close=False)
        ev.append(e)
    segs = split_segments(ev)
    fails = bridge_validate(ctx, segs)
    bridge_report(ctx, fails, "stream")
    def first_dir_rd(s):
        fd = [e.get("d") for e in s if e.get("ev") == "PeerClose"]
        return sum(1 for e in s if e.get("ev") == "Rd" and (not fd or e.get("d") == fd[0])) >= 2
    good = [s for s in segs if not any(s is f[0] for f in fails) and first_dir_rd(s)]
    if good:
        def corrupt(seg):
            for e in seg:
                if e.get("ev") == "Rd":
                    e["ok"] = False
                    return True
            return False

        def lost(seg):
            firstd = [e.get("d") for e in seg if e.get("ev") == "PeerClose"]
            for i in range(len(seg) - 1, -1, -1):
                if seg[i].get("ev") == "Rd" and (not firstd or seg[i].get("d") == firstd[0]):
                    del seg[i]
                    return True
            return False

        def extra(seg):
            for i, e in enumerate(seg):
                if e.get("ev") == "Rd":
                    seg.insert(i + 1, dict(e, n=10 ** 7))
                    return True
            return False
        selftest(ctx, "TcpBridgeTrace", "TcpBridgeTrace.cfg", good[0], [("byte-corrupted", corrupt), ("bytes-lost", lost), ("bytes-duplicated", extra)])


def c16(ctx):
    ctx.rule = ("cases = same class combinations as C15 (who closes first x data in flight in either direction x segmentations), judged for close propagation: the far "
                "peer must observe end-of-stream within 10 s, after all data sent before the close, and the TCP server must hold no bridged connection afterwards; "
                "distinct = class combinations")
    ctx.assumptions = ["'bounded time' = 10 s (normal propagation takes milliseconds)"]
    events = [dict(e, judge_close=True) if e.get("ev") == "Final" else e for e in bridge_run(ctx)]
    segs = split_segments(events)
    fails = bridge_validate(ctx, segs)
    bridge_report(ctx, fails, "close")
    good = [s for s in segs if not any(s is f[0] for f in fails) and any(e.get("ev") == "PeerEOF" for e in s)]
    if good:
        def no_eof(seg):
            n = len(seg)
            seg[:] = [e for e in seg if e.get("ev") != "PeerEOF"]
            return len(seg) < n

        def early_eof(seg):
            for i, e in enumerate(seg):
                if e.get("ev") == "PeerEOF":
                    seg.insert(1, seg.pop(i))
                    return True
            return False

        def leak(seg):
            for e in seg:
                if e.get("ev") == "Final":
                    e["server_open"] = 1
                    return True
            return False
        selftest(ctx, "TcpBridgeTrace", "TcpBridgeTrace.cfg", good[0], [("close-not-propagated", no_eof), ("eof-without-close", early_eof), ("connection-leaked", leak)])


def app_cases(ctx, n=0):
    gen = tlc_generate(ctx, "AppProxyGen", "AppProxyGen.cfg", "app_cases.json")
    d = json.load(open(gen))
    d["auth"] = [cap(c) for c in d["auth"]]
    d["n"] = n
    cpath = os.path.join(ctx.scratch, "app_cases_run.json")
    json.dump(d, open(cpath, "w"))
    return d, cpath


def app_validate(ctx, events, label, kinds):
    """one segment per judged case (preceded by the Backends announcement it depends on)"""
    segs = []
    last_b = None
    for e in events:
        if e.get("ev") == "Backends":
            last_b = e
        elif e.get("ev") in kinds:
            seg = [{"ev": "Reset", "seg": e.get("sig", "case"), "sig": e.get("sig", "case")}]
            if last_b is not None:
                seg.append(last_b)
            seg.append(e)
            segs.append(seg)
    fails = validate_segments(ctx, "AppProxyTrace", "AppProxyTrace.cfg", segs, batch=300)
    for seg, idx, out, inv in fails:
        e = seg[-1]
        ev = {k: v for k, v in e.items() if k not in ("pid", "seq", "src")}
        bk = [{k: (("".join(x) for x in v) if False else v) for k, v in b.items()} for b in (seg[1].get("list", []) if len(seg) > 2 else [])]
        what = "%s case %s: %s is not allowed by AppProxy%s" % (label, e.get("sig"), json.dumps(ev, sort_keys=True)[:500],
                                                              (" with backends " + json.dumps([{kk: ("|".join("".join(p) for p in vv) if kk == "prefixes" else vv) for kk, vv in b.items()} for b in bk])[:500]) if bk and e.get("ev") == "RouteCase" else "")
        report_failure(ctx, e.get("sig", label), what, seg=seg, tlc_out=out[-2500:])
    return segs, fails


def app_model(ctx):
    tlc_must_hold(ctx, "AppProxy", "AppProxy_MC.cfg")
    tlc_must_fail(ctx, "AppProxy", "AppProxy_Attack_ErrSlots.cfg")


def c17(ctx):
    ctx.rule = ("cases = all 240 combinations of agent endpoint {pending, request, response} x caller identity {absent, wrong, right, other backend's agent, end user} x "
                "backend named {own, other, unknown, missing} x request ID {own, other backend's, unknown, none} enumerated by TLC, against the real app (agent/default/"
                "api services as processes) with two registered backends and a fake App Engine API; 18 admin-API calls (6 caller kinds x list/add/delete); plus every "
                "registration history over {register for agent 1, register for agent 2, delete, call by agent 1, call by agent 2} up to length 4 (thorough: 5) that ends with "
                "a call and contains an administration step (282 / 1500 histories enumerated by TLC from AppAuth.tla), each call judged against the registration in force; "
                "distinct = combinations + histories")
    ctx.assumptions = ["OAuth identities are supplied through the fake API's GetOAuthUser (ticket header), App Engine users through X-AppEngine-User-* headers",
                       "'learns nothing' = the reply contains neither request bytes nor request IDs; 'touches only that backend' = no datastore kind of another backend is accessed"]
    app_model(ctx)
    tlc_must_hold(ctx, "AppAuth", "AppAuth_MC.cfg")
    tlc_must_fail(ctx, "AppAuth", "AppAuth_Attack_StaleGrants.cfg")
    d, cpath = app_cases(ctx)
    hist = json.load(open(tlc_generate(ctx, "AppAuthGen", "AppAuthGen_big.cfg" if ctx.tier == "thorough" else "AppAuthGen.cfg", "auth_histories.json")))["histories"]
    d["histories"] = hist
    json.dump(d, open(cpath, "w"))
    ctx.extra["registration_histories"] = len(hist)
    go_build_repo(ctx, "./app", "app")
    go_build_harness(ctx)
    events, _ = drive(ctx, "appauth", cases=cpath, timeout=3000)
    segs, fails = app_validate(ctx, events, "access control", {"AgentCall", "AdminCall"})
    ok = [s for s in segs if not any(s is f[0] for f in fails)]
    denied = [s for s in ok if s[-1].get("ev") == "AgentCall" and s[-1]["obs"]["status"] == 401]
    nonadmin = [s for s in ok if s[-1].get("ev") == "AdminCall" and not s[-1]["is_admin"]]
    if denied and nonadmin:
        def granted(seg):
            seg[-1]["obs"]["status"] = 200
            return True

        def leaked(seg):
            seg[-1]["obs"]["leaked"] = True
            return True

        def admin_ok(seg):
            seg[-1]["status"] = 200
            return True
        selftest(ctx, "AppProxyTrace", "AppProxyTrace.cfg", denied[0], [("unauthorised-call-succeeds", granted), ("rejected-call-leaks", leaked)])
        selftest(ctx, "AppProxyTrace", "AppProxyTrace.cfg", nonadmin[0], [("non-admin-api-call-succeeds", admin_ok)])
    elif not fails:
        raise Inconclusive("no denied call recorded")


def c18(ctx):
    n = 400 if ctx.tier == "thorough" else 40
    ctx.rule = ("cases = seeded random backend sets (1-3 backends x 1-2 prefixes from {'', '/', '/a', '/a/', '/a/b', '/ab', '/b'} x end user {u1, u2, allUsers} x last-seen "
                "{1 h, 6 min, 5 min+2 s, 5 min-30 s, 10 s ago}; domains exported by TLC) registered through the admin API of the real app, 3 (user, path) requests each, "
                "routed backend read off the kind of the stored request entity; distinct = (backend set, user, path)")
    ctx.assumptions = ["ties between equally long prefixes: any maximal candidate is accepted, but the same request must be routed the same way twice",
                       "liveness is set by rewriting LastSeen of the backendTracker entity in the fake datastore"]
    app_model(ctx)
    d, cpath = app_cases(ctx, n)
    go_build_repo(ctx, "./app", "app")
    go_build_harness(ctx)
    events, _ = drive(ctx, "approute", cases=cpath, timeout=3000)
    # function level: the unexported mostSpecificMatchingBackend on random backend sets (go test -overlay)
    fn_out = os.path.join(ctx.scratch, "routefn.ndjson")
    nfn = 20000 if ctx.tier == "thorough" else 2000
    rc, out = go_test_overlay(ctx, "app/store", os.path.join(VERIF, "harness", "overlay", "route_verif_test.go.txt"), run="TestVerifRouteFn",
                              env={"VERIF_ROUTEFN_OUT": fn_out, "VERIF_ROUTEFN_N": str(nfn), "VERIF_SEED": str(ctx.seed)})
    if rc != 0 or not os.path.exists(fn_out):
        save_debug(ctx, "routefn.out", out)
        raise Inconclusive("overlay test of mostSpecificMatchingBackend did not run: %s" % out[-500:])
    fn_events = read_ndjson(fn_out)
    ctx.evaluations += len(fn_events)
    ctx.extra["function_level_cases"] = len(fn_events)
    events = events + fn_events
    segs, fails = app_validate(ctx, events, "routing", {"RouteCase", "RouteFn"})
    answers = {}
    for e in events:
        if e.get("ev") == "RouteCase":
            answers["404" if e["got"] == "404" else "backend"] = answers.get("404" if e["got"] == "404" else "backend", 0) + 1
    ctx.extra["routing_answers"] = answers
    ok = [s for s in segs if not any(s is f[0] for f in fails)]
    routed = [s for s in ok if s[-1].get("ev") == "RouteCase" and s[-1]["got"] != "404" and len(s[1].get("list", [])) >= 2]
    if routed:
        def wrong_backend(seg):
            others = [b["id"] for b in seg[1]["list"] if b["id"] != seg[-1]["got"]]
            seg[-1]["got"] = others[0]
            seg[-1]["repeat"] = others[0]
            # make the other backend ineligible so that it cannot be a legitimate tie
            for b in seg[1]["list"]:
                if b["id"] == others[0]:
                    b["prefixes"] = [["/", "z", "z"]]
            return True

        def routed_though_stale(seg):
            for b in seg[1]["list"]:
                if b["id"] == seg[-1]["got"]:
                    b["live"] = False
            return True
        selftest(ctx, "AppProxyTrace", "AppProxyTrace.cfg", routed[0], [("routed-to-other-backend", wrong_backend), ("routed-to-stale-backend", routed_though_stale)])
    elif not fails:
        raise Inconclusive("no routed case with two backends recorded")


def c19(ctx):
    ctx.rule = ("cases = one relayed request per serialised request size in {0, 1, 1000, 999999, 1000000, 1000001, 1999999, 2000000, 2000001, 3500000} bytes (hit "
                "exactly by calibrating the body length) and per response size class, two requests in flight answered in the opposite order, and the response call with "
                "every subset of failing store writes {response, request}; sizes and subsets enumerated by TLC; distinct = sizes / subsets")
    ctx.assumptions = ["the 504 path (30 s without response) is only exercised in the thorough tier", "hang = no answer within 8 s (a healthy call takes milliseconds)"]
    app_model(ctx)
    d, cpath = app_cases(ctx)
    go_build_repo(ctx, "./app", "app")
    go_build_harness(ctx)
    events, _ = drive(ctx, "apprelay", cases=cpath, timeout=3000)
    segs, fails = app_validate(ctx, events, "relay", {"RelayCase", "BlobCase", "FaultCase"})
    ok = [s for s in segs if not any(s is f[0] for f in fails)]
    # concurrent clients and agent calls: the fake API's store operations + harness observations vs AppRelay
    if ctx.tier == "thorough":
        tlc_must_hold(ctx, "AppRelay", "AppRelay_MCbig.cfg", timeout=1800)   # three requests on two backends, with retention
    else:
        tlc_must_hold(ctx, "AppRelay", "AppRelay_MC.cfg")     # two requests on two backends
        tlc_must_hold(ctx, "AppRelay", "AppRelay_MC2.cfg")    # two requests on one backend
    tlc_must_fail(ctx, "AppRelay", "AppRelay_Attack_SharedResponseKey.cfg")
    tlc_must_fail(ctx, "AppRelay", "AppRelay_Attack_ShortRetention.cfg")
    tlc_must_fail(ctx, "AppRelay", "AppRelay_Attack_ResponseStartTimeUnset.cfg")   # the code as it is (observation beyond the listed properties)
    cev, _ = drive(ctx, "apprelayc", timeout=3000)
    csegs = split_segments(cev)
    cfails = validate_segments(ctx, "AppRelayTrace", "AppRelayTrace.cfg", csegs, batch=10)
    for seg, idx, out, inv in cfails:
        e = seg[min(max(idx, 0), len(seg) - 1)]
        report_failure(ctx, "apprelay-concurrent:%s" % (inv or e.get("ev")), "concurrent relay round %s: event #%d %s is not a behaviour of AppRelay%s" % (
            seg[0].get("seg"), idx + 1, json.dumps({k: v for k, v in e.items() if k not in ("pid", "seq", "src")}, sort_keys=True)[:300], (" (invariant %s)" % inv) if inv else ""), seg=seg, tlc_out=out[-3000:])
    if csegs and not cfails:
        def swapped(seg):
            g = [e for e in seg if e.get("ev") == "ClientGot"]
            if len(g) < 2 or g[0]["tok"] == g[1]["tok"]:
                return False
            g[0]["tok"], g[1]["tok"] = g[1]["tok"], g[0]["tok"]
            return True

        def listed_after_done(seg):
            ends = [i for i, e in enumerate(seg) if e.get("ev") == "RespondEnd"]
            if not ends:
                return False
            e = seg[ends[-1]]
            seg.insert(ends[-1] + 1, {"ev": "DsQueryPending", "b": e["b"], "ids": [e["r"]]})
            return True

        def wrong_backend(seg):
            for e in seg:
                if e.get("ev") == "DsPutReq" and not e.get("completed"):
                    e["b"] = "cc-1" if e["b"] != "cc-1" else "cc-2"
                    return True
            return False
        selftest(ctx, "AppRelayTrace", "AppRelayTrace.cfg", csegs[0], [("responses-swapped", swapped), ("completed-request-listed", listed_after_done), ("stored-under-other-backend", wrong_backend)])
    # the response cache in front of the relay (AppCache.tla): sequences of GET / HEAD / POST exchanges of two users on
    # one URL, enumerated by TLC; a response that was not produced for the request is one an earlier GET of the same
    # user for the same URL was answered with
    import random
    tlc_must_hold(ctx, "AppCache", "AppCache_MC.cfg")
    tlc_must_fail(ctx, "AppCache", "AppCache_Attack_CacheHead.cfg")
    tlc_must_fail(ctx, "AppCache", "AppCache_Attack_CacheFirst.cfg")   # the cache consulted before the request is routed
    gen = tlc_generate(ctx, "AppCacheGen", "AppCacheGen.cfg", "cache_sequences.json")
    seqs = json.load(open(gen))["sequences"]
    seqs.sort(key=lambda q: json.dumps(q, sort_keys=True))
    if ctx.tier != "thorough":
        must = [q for q in seqs if [o["m"] for o in q] in (["HEAD", "GET"], ["HEAD", "GET", "GET"], ["GET", "GET", "GET"], ["GET", "HEAD", "GET"], ["POST", "GET", "GET"], ["GET", "QUIET", "GET"])
                and not any(o["cc"] for o in q) and all(o["u"] == "u1" for o in q) and (all(o["st"] == 200 for o in q) or q[0]["st"] == 206)]
        must += [q for q in seqs if [(o["m"], o["u"]) for o in q] in ([("GET", "u1"), ("GET", "u2")], [("GET", "u2"), ("GET", "u1"), ("GET", "u2")]) and not any(o["cc"] for o in q) and all(o["st"] == 200 for o in q)]
        rest = [q for q in seqs if q not in must]
        seqs = must + random.Random(ctx.seed * 31 + 5).sample(rest, 20)
    qpath = os.path.join(ctx.scratch, "cache_cases.json")
    json.dump({"sequences": seqs}, open(qpath, "w"))
    qev, _ = drive(ctx, "appcache", cases=qpath, timeout=1500)
    qsegs = split_segments(qev)
    qfails = validate_segments(ctx, "AppCacheTrace", "AppCacheTrace.cfg", qsegs, batch=100)
    for seg, idx, out, inv in qfails:
        e = seg[min(max(idx, 0), len(seg) - 1)]
        report_failure(ctx, "appcache:%s" % seg[0].get("sig"), "exchanges %s on one URL: step #%d %s is not allowed by AppCache (a response that is neither the request's own nor one an earlier GET of the same user for this URL was answered with)" % (
            seg[0].get("sig"), idx, json.dumps({k: v for k, v in e.items() if k not in ("pid", "seq", "src")}, sort_keys=True)[:300]), seg=seg, tlc_out=out[-3000:])
    hits = sum(1 for e in qev if e.get("ev") == "CacheStep" and not e.get("reached"))
    ctx.extra["cache_sequences"] = {"run": len(seqs), "answered_from_cache": hits}
    if qsegs and not qfails:
        def foreign(seg):
            for e in seg:
                if e.get("ev") == "CacheStep" and e.get("reached"):
                    e["got"] = e["own"] + 1000
                    return True
            return False

        def head_cached(seg):
            st = [e for e in seg if e.get("ev") == "CacheStep"]
            if len(st) < 2:
                return False
            st[1]["reached"], st[1]["got"], st[1]["method"], st[0]["method"] = False, st[0]["own"], "GET", "HEAD"
            return True
        selftest(ctx, "AppCacheTrace", "AppCacheTrace.cfg", qsegs[0], [("foreign-response", foreign), ("get-answered-with-a-head-response", head_cached)])
        if hits == 0:
            raise Inconclusive("no exchange was answered from the cache: the cache sequences did not exercise it")
    relays = [s for s in ok if s[-1].get("ev") == "RelayCase"]
    blobs = [s for s in ok if s[-1].get("ev") == "BlobCase" and s[-1]["n"] >= 1000000]
    if relays and blobs:
        def wrong_response(seg):
            seg[-1]["resp_same"] = False
            return True

        def relisted(seg):
            seg[-1]["relisted"] = True
            return True

        def parts(seg):
            seg[-1]["parts"] = seg[-1]["parts"] + 1
            return True
        selftest(ctx, "AppProxyTrace", "AppProxyTrace.cfg", relays[0], [("client-gets-other-bytes", wrong_response), ("completed-request-listed-again", relisted)])
        selftest(ctx, "AppProxyTrace", "AppProxyTrace.cfg", blobs[0], [("wrong-part-count", parts)])
    elif not fails:
        raise Inconclusive("relay cases missing")
    # beyond the listed properties: the retention step of AppRelay (action Cron / operator CronOK) replayed on the
    # real app. Reported in the evidence; never a verdict about C19 (the statement says nothing about retention).
    try:
        kev, _ = drive(ctx, "appcron", timeout=600)
        ksegs = [[{"ev": "Reset", "seg": e.get("sig", e.get("ev")), "sig": e.get("sig", e.get("ev"))}, e] for e in kev if e.get("ev") in ("CronRun", "CronLive", "CronCase")]
        before = (ctx.traces_validated, ctx.events_validated)
        kf = validate_segments(ctx, "AppRelayTrace", "AppRelayTrace.cfg", ksegs, batch=100)
        ctx.extra["retention_beyond_listed_properties"] = {
            "cases": len(ksegs), "as_specified": len(ksegs) - len(kf),
            "differs_from_AppRelay_Cron": [json.dumps({k: v for k, v in f[0][1].items() if k not in ("pid", "seq", "src")}, sort_keys=True)[:300] for f in kf][:8]}
        if kf:
            ctx.notes.append("retention replay (not a listed property): %d of %d recorded cases differ from the Cron action of AppRelay" % (len(kf), len(ksegs)))
    except Inconclusive as ex:
        ctx.notes.append("retention replay (not a listed property) did not run: %s" % ex)


CHECKS = {"C17": c17, "C18": c18, "C19": c19, "C15": c15, "C16": c16, "C14": c14, "C11": c11, "C12": c12, "C13": c13, "C10": c10, "C08": c08, "C20": c20, "C02": c02, "C03": c03, "C09": c09, "C01": c01, "C04": c04, "C07": c07, "C05": c05, "C06": c06}

if __name__ == "__main__":
    pid = sys.argv[1]
    main(pid, CHECKS[pid])
