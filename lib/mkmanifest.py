#!/usr/bin/env python3
"""Regenerates /verif/MANIFEST.json from the table below (one source of truth)."""
import json, os, subprocess
V = os.path.dirname(os.path.dirname(os.path.abspath(__file__)))
ids = [json.loads(l)["id"] for l in open(os.path.join(V, "properties.jsonl"))]


# what the later batches of seeded changes added to each check (appended to the claim texts)
ADDENDA = {
 "C01": " Also: the bursts under agent configurations enumerated by TLC (AgentConfig.tla), and a volume scenario (one exchange held at the backend across 1100 / 9000 others).",
 "C02": " Also: the case set under agent configurations enumerated by TLC (AgentConfig.tla; the ServeMux redirect of non-canonical paths under banner / shim configurations is modelled as ReqOKUnder).",
 "C03": " Also: configurations from AgentConfig.tla, backends quiet for 5.5 s (31 s, 62 s) before the header / inside the body, h2c trailers after an announced length, and exchanges cut by the agent's time-out (CutCase: what arrives without an error is the backend's response).",
 "C04": " Also: agent configurations from AgentConfig.tla (fresh agent, histories and a 60-ID window each), list replies in four framings, a sentinel ID that closes every history.",
 "C05": " Also: a handler quiet for 5.5 s (31 s, 62 s) between chunks, streams that name no media type; deviation Upload.Timers idle-cut refuted by TLC.",
 "C06": " Also: uploads quiet for 5.5 s (31 s, 62 s) between two pieces, redirecting endpoints (307 / 308), fixed must-scripts; deviation Upload.Timers release-replay refuted by TLC.",
 "C07": " Also: fault kinds post-cut and be-oddstatus, a fault-volume scenario (130 / 1100 exchanges failing the same way, then concurrent healthy bursts), streamed (chunked) client bodies; scenarios judged up to their Final event.",
 "C08": " Also: agent configurations from AgentConfig.tla (time-out classes none / 5m / 1s), failures with a Retry-After header.",
 "C09": " Also: shim open with userinfo in the websocket URL under every flag combination.",
 "C10": " Also: client cookies spread over several Cookie lines, cookie Domain classes (public suffix, foreign, parent).",
 "C11": " Also: a session idle for 6.5 s (32 s, 63 s) and used again, a backend that stops reading while the pipeline is full, injectable JSON in binary frames.",
 "C12": " Also: shim calls sent chunked, an abandoned poll, an unpolled session next to 1100 / 9000 other sessions; deviation WsShim.SweepDone refuted by TLC.",
 "C13": " Also: the agent configured with a host without a port, reserved-character classes, backend redirects.",
 "C14": " Also: handler configurations (banner HTML, height, favicon URL, shim path), Content-Encoding, decision strata exported by TLC.",
 "C15": " Also: a reply that keeps flowing for 5.5 s (31 s, 62 s) after a half-close, a reader paused beyond a write deadline, the library entry points with small read buffers; deviations TcpBridge.Timers refuted by TLC.",
 "C16": " Also: connections idle for 5.5 s (31 s, 62 s) before the close, churn with a descriptor count, slow readers with half-close-then-reply.",
 "C17": " Also: the backend-ID header on two lines, backend IDs with reserved characters, near-miss identities, registration histories from AppAuth.tla.",
 "C18": " Also: request targets in absolute-form and with percent-encoded letters.",
 "C19": " Also: the response cache (AppCache.tla: GET / HEAD / POST / ranged-GET sequences on one URL enumerated by TLC, judged by AppCacheTrace), an outage of blob-part writes followed by recovery, repeated header fields.",
 "C20": " Also: signals delivered twice, SIGTERM before the first healthy check, thresholds up to 3 over all histories of length <= 5.",
}

CLAIMS = {
 "C04": dict(engine="AgentDedup", technique="TLA+ specs AgentDedup (adversarial lister vs LRU dedup; NoDedup and Window attacks) and Relay (ID hand-off), TLC-enumerated list histories replayed on the real agent binary via a scripted fake proxy, TLC trace validation (AgentDedupTrace, RelayTrace)",
   text="TLC checks AtMostOnce/ExactlyOnce for every list history and worker interleaving in the bounded model; TLC enumerates all 60 879 list histories (<=3 replies of <=3 IDs over 3 IDs) of the environment action, a seeded sample (160 quick / 3000 thorough, plus fixed repeat/permutation shapes and 999/1000-ID window-edge runs) is replayed against the real agent binary and each recorded run must be a behaviour of AgentDedup with every listed ID forwarded and served exactly once; concurrent foreign pollers against the real proxy must be explained by Relay (HandOffOnce).",
   note="Trusted: TLC, fake proxy and counting backend of the harness, hooks Dedup/Spawn/ListOK. Timing of fetch/upload relative to later list replies is varied by seeded delays on the real code and enumerated exhaustively only in the model. Side condition <=1000 distinct IDs is part of the property; 1001-ID run is information only.",
   design="6 C04"),
 "C07": dict(engine="Relay", technique="TLA+ spec Relay with fault actions (fetch/backend/upload/list faults, local 502/4xx answers) checked by TLC (Isolation, Survives, BadGateway, KeepsPolling; NoIsolation attack) + TLC trace validation (RelayTrace) of fault-injection runs of the real binaries behind a chaos shim and a scripted misbehaving backend",
   text="TLC explores every placement of a fault among 3 concurrent requests in the model; 12 fault kinds x victim positions are injected into real proxy+agent runs surrounded by healthy concurrent requests, and each recorded run must be a behaviour of Relay in which only declared victims deviate, every other client gets its own OK response, an unreachable backend yields 502, and the agent process is alive at the end. The fault scenarios run the agent's race-detector build (halt_on_error); malformed shim input includes every JSON shape of a message on a live session opened through the agent.",
   note="Trusted: TLC, chaos shim / scripted backend of the harness (they declare the victim before injecting). A victim may observe any outcome. Interleavings on the real code are sampled, not enumerated. Thorough tier adds -race builds and 4 victim positions.",
   design="6 C07"),
 "C05": dict(engine="Upload", technique="TLA+ spec Upload (handler, serialiser, upload pipe, replay buffer, poster; lock-step producer liveness Streams; BufferAll attack) checked by TLC + TLC trace validation (UploadTrace) of lock-step streaming runs through the real forwarder in process and the real agent binary",
   text="TLC proves the liveness property Streams for a lock-step producer in the bounded model and shows that a buffering serialiser violates it; on the real code a backend that emits chunk k+1 only after the proxy side observed chunk k is run for fixed edge chunkings and seeded random chunkings (1 B..200 KB quick, ..4 MB thorough) in both modes, and TLC validates the strict Produce/Observe alternation and completion of every recorded run. A stress stage streams 12 x 1500 lock-step chunks at once (a wake-up lost once in thousands of hand-overs shows as a stall).",
   note="Trusted: TLC, the incremental upload parser of the harness (decides when a chunk is completely on the wire). 'Bounded time' is 10 s per chunk; a stall is reported only after it persisted that long.",
   design="6 C05"),
 "C06": dict(engine="Upload", technique="TLA+ specs Upload (reader/retry interleavings; StaleReader attack) and UploadObs (observable poster behaviour; Upload refines it, checked by TLC) + TLC-enumerated fault scripts replayed on the real forwarder against a byte-level fault server + TLC trace validation (UploadTrace)",
   text="TLC checks AckedIntegrity, AtMostThree, RetryOnlyIfReplayable and handler release for all interleavings of stale reader, new reader, serialiser and poster in the bounded model (and the refinement Upload => UploadObs); TLC enumerates all fault scripts (kind x position x attempt), a seeded sample x response sizes around the 4096-byte buffer is run against utils.NewResponseForwarder with a real http.Client, and every recorded run (hooks Attempt/AttemptStatus/BrsRead/BrsSeek + what the endpoint received) must be a behaviour of UploadObs. A stress stage runs 16 forwarders at a time against endpoints that fail the first attempt after the whole body arrived; every acknowledged upload must be the forwarder's own.",
   note="Trusted: TLC, fault server, reference serialisation from a fault-free run of the same handler script. Which transport goroutine takes the next pipe piece is left to the Go scheduler (not gated). What Close() returns is not judged (not part of the statement). One known finding (stale body reader), see known_findings.txt.",
   design="6 C06"),
 "C02": dict(engine="HttpMsg", technique="TLA+ spec HttpMsg (reference semantics ReqOK + stage-by-stage pipeline model checked by TLC with deviation switches) + class domains exported by TLC, concretised and run through the real proxy+agent with raw TCP ends + TLC trace validation (HttpMsgTrace) of every (sent, received) pair",
   text="TLC checks that the composition of the pipeline stages meets the reference semantics for every abstract message; on the real code an each-class sweep plus seeded random class combinations (method x path x query x host x headers x body; 150 quick / 1500 thorough) are sent byte-exactly by a raw client and whatever the raw backend receives is judged by the TLA+ operator ReqOK. Every case runs twice: alone, and in a 16-way concurrent pass (state leaking between requests in flight).",
   note="Trusted: TLC, the harness' abstraction of raw bytes into (method, target, host, header pairs, body digest). Input classes are finite; sizes up to 1 MiB (8 MiB thorough). Default handler chain only.",
   design="6 C02"),
 "C03": dict(engine="HttpMsg", technique="TLA+ spec HttpMsg (reference semantics RespOK; pipeline model with JoinedTrailerNames / LatchInterim attacks) + TLC-exported class domains concretised as byte-exact scripted backend responses through the real agent+proxy + TLC trace validation (HttpMsgTrace)",
   text="Every class of status, request method, header set, framing, body segmentation, declared/undeclared trailers and interim 1xx responses is exercised (sweep + seeded combinations, 268 quick / 2000+ thorough); the response parsed by a raw client is judged by the TLA+ operator RespOK; thorough tier repeats under the race detector. Every case runs twice: alone, and in a 16-way concurrent pass (state leaking between responses in flight).",
   note="Trusted: TLC, the harness' abstraction of responses. HTTP/1.1 raw backend (byte-exact wire response) and an h2c backend (agent with --force-http2; framing classes collapse to with/without Content-Length). Header name case, Date and framing headers are not compared.",
   design="6 C03"),
 "C09": dict(engine="HttpMsg", technique="TLA+ spec HttpMsg (IdentityOK / CredsOK; pipeline model with IdentityAdd attack) + exhaustive class product run against the real agent binary behind a scripted fake proxy, with a recording HTTP + websocket backend + TLC trace validation",
   text="All combinations of forward-user-id x strip-credentials x shim x sessions x forged identity header class x Authorization class x request kind (GET, POST, websocket-shim open) are executed (840 quick / 1440 thorough); what the backend saw is judged by IdentityOK / CredsOK in TLA+. Every case runs twice: alone, and in a 16-way concurrent pass (identities of different requests in flight together).",
   note="Trusted: TLC, fake proxy (asserts a fresh random identity per request), recording backend.",
   design="6 C09"),
 "C08": dict(engine="AgentLife", technique="TLA+ spec AgentLife (back-off bounds Lo/Hi with lemmas; poll loop with NoBusyLoop / ResetOnSuccess; ShiftUnguarded attack) checked by TLC + retry counts enumerated by TLC run through the real ExponentialBackoffDuration + agent binary against a failing fake proxy + TLC trace validation (AgentLifeTrace)",
   text="TLC checks the bound lemmas (strictly positive, doubling from 1 ms, capped at 3 s +-10%) for every retry count 0..70 and Big and the loop properties in the model; the real function is sampled (1000 / 100000 draws) at every enumerated count incl. 64, 2^32, 2^63-1, 2^63, 2^64-1 and its min/max judged against Lo/Hi; the real agent's loop (hooks ListFail/Backoff/ListOK, fake-proxy arrival times) is validated against the loop actions: retry counter = consecutive failures, delay within bounds, next list call not before Lo(n), reset after a success.",
   note="Trusted: TLC, fake proxy clock. Upper bound of the observed gap is not enforced (scheduling noise). 64-bit retry counts are represented by the class Big (TLC integers are 32-bit).",
   design="6 C08"),
 "C20": dict(engine="AgentLife", technique="TLA+ spec AgentLife (health gating, consecutive-failure counting, poll loop, signal/cancel/grace on a discrete clock, independent workers; attacks PollBeforeHealthy, NoReset, CancelWorkers) checked by TLC + TLC-enumerated health histories and signal placements replayed on the real agent binary + TLC trace validation (AgentLifeTrace)",
   text="TLC explores every health history (<=6 checks, thresholds 2-3), signal time and worker interleaving in the model; on the real binary, health histories enumerated by TLC (14 quick / 186 thorough, 1 s interval) and signal placements {idle, listed, at backend} x {SIGINT, SIGTERM} x grace/latency combinations are executed and every recorded run (hooks Healthy/Health/PollCheck/PollStop/Signal/Cancel/GraceEnd + harness observations of health replies, list calls, uploads, exit time) must be a behaviour of AgentLife. Signal placements include \"the list call in flight at the signal returns while the request is still at the backend\".",
   note="Trusted: TLC, scripted health endpoint, fake proxy, wall-clock thresholds (prompt <= 2 s, grace end within +2 s). The 'uploading' placement is not separately forced.",
   design="6 C20"),
 "C10": dict(engine="Sessions", technique="TLA+ spec Sessions (session cache as LRU of jars, request phases of sessions.go, UnlockedLookup attack) checked by TLC + seeded cookie histories over TLC-exported class domains through the real SessionHandler, judged by TLC trace validation (SessionsTrace) against an independent cookiejar per session + concurrent bursts in a -race child process",
   text="TLC checks Isolation, IssuedOnce and NoFatal for all interleavings of 3 clients x 2 requests with a cache of 2 (1.6 M states) and shows that an unsynchronised lookup breaks NoFatal; 300 (quick) / 3000 (thorough) sequential histories over sessions x hosts x paths x 11 cookie operations x client cookies run through the real handler: the TLA+ trace spec requires backend view = reference jar + client cookies, no Set-Cookie but the agent's own (with its attributes, issued exactly when none was presented, fresh), the session cookie never reaching the backend, and value tags of other sessions never appearing; eviction scenario and 24x40 concurrent requests under the race detector. A stress stage (8 sessions x 4 goroutines x 12000 requests, no per-request events) looks for cookies of another session, a visible session cookie and leaked Set-Cookie headers.",
   note="Trusted: TLC, net/http/cookiejar as the reference named by the property, the harness' tagging of cookie values. Exact backend view is judged only for sequential histories. NoLeak is structurally true in the model (Header strips unconditionally); its non-vacuity comes from the corrupted-trace self-test.",
   design="6 C10"),
 "C11": dict(engine="WsShim", technique="TLA+ spec WsShim (queues, writer/reader goroutines, call state machines; C2S/S2C prefix invariants) checked by TLC + seeded message histories through the real websockets.Proxy with a real gorilla backend + TLC trace validation (WsShimTrace)",
   text="TLC checks exactly-once in-order delivery in both directions for all interleavings in the bounded model; 40 (quick) / 600 (thorough) random histories of client batches (up to 15 messages, more than the 10-slot buffers), backend bursts (up to 25) and polls with text, binary and JSON payloads (a third with header injection) run through the real shim, and every BackendRecv / poll result must be the next message in order, unchanged (JSON-equal up to exactly the missing injected headers).",
   note="Trusted: TLC, the harness' per-message payload comparison (bytes; JSON values with exact numbers for injected messages). One data post and one poll outstanding at a time. Protocol version 1.",
   design="6 C11"),
 "C12": dict(engine="WsShim", technique="TLA+ spec WsShim (NoPanic, Statuses, Answered, DrainThenClosed; CloseClosesChan attack) checked by TLC + TLC-enumerated call sequences and gated replays of the attack counterexample on the real shim + TLC trace validation (WsShimTrace)",
   text="TLC explores all interleavings of three concurrent shim calls with the connection goroutines and proves every call is answered and nothing panics, and finds the send-on-closed-channel panic when Close closes the channel; 4368 call sequences (length <= 3, 16 symbols incl. unknown/closed/malformed arguments, backend send/close) are enumerated by TLC, a seeded sample (150 / 2500) is run on the real handler, and the two racing pairs of the counterexample (data vs close, close vs close) are forced with gates (verifhook.GateFunc) in a -race child process together with an ungated stress. Message shapes (every JSON shape of \"msg\" on a live session) and concurrent polls (model: PollFirst/PollDrain with deviation DrainByCount; scenario: 480 sessions, 8 in parallel, 2-4 polls in flight during a burst and a close) run in child processes.",
   note="Trusted: TLC, recording gorilla backend. A poll on a session with nothing pending is preceded by a backend message (an empty poll legitimately blocks 20 s). A panic recovered in a harness goroutine counts as a panic.",
   design="6 C12"),
 "C13": dict(engine="WsShim", technique="TLA+ trace spec WsShimTrace (Confined: every dialled address equals the backend; path/query come from the supplied URL) over TLC-enumerated URL syntax classes run through the real shim with a recording dialer",
   text="20 URL syntax classes x 5 (quick) / 200 (thorough) concrete instances, incl. opaque URLs, userinfo, IPv6, parse errors and random bytes, are posted to the open endpoint of the real shim; every address gorilla's DefaultDialer is asked to connect to is recorded and must be the configured backend; on success the backend must have seen exactly the supplied path and query; requests outside the shim prefix must reach the wrapped handler untouched.",
   note="Trusted: TLC, the recording NetDialContext (refuses foreign addresses, so a foreign dial is observed without traffic). URL classes are finite.",
   design="6 C13"),
 "C14": dict(engine="Inject", technique="TLA+ spec Inject (decision model of banner/shim-script injection over abstract request/response classes, lemmas checked by TLC) + class domains and the strata of the decision predicates exported by TLC (one representative per element of the product of strata), concretised and run through the real banner.Proxy + websockets.Proxy + ReverseProxy(ShimBody) chain + TLC trace validation (InjectTrace, operator InjectOK)",
   text="One case per element of the product of the decision predicates' strata (method GET/other x Accept html/other x status 200/other x Content-Type HTML/not/unjudged x attachment/other x Content-Encoding none/gzip x four ways of being already framed x banner x shim, ~2000 quick / 3072 thorough), an each-class sweep and seeded random combinations (450 quick / 4000 thorough of a 7 M class product) over method, Accept, Sec-Fetch headers, Referer, status, Content-Type, Content-Disposition, body shape (position/number/case of <head>, relative to the 1024-byte first read), backend write segmentation and banner/shim switches; the harness classifies what came out (same / script inserted once after the first <head> / banner frame / other, end-to-end headers unchanged, frame embeds URL + no-store + sameorigin) and the TLA+ operator InjectOK decides whether that alteration is allowed for the case.",
   note="Trusted: TLC, the harness' classification of the observed body (byte comparison against the original and against the original with ShimBody's own script spliced in). Content-Types that merely mention html are not judged.",
   design="6 C14"),
 "C15": dict(engine="TcpBridge", technique="TLA+ spec TcpBridge (per-direction message queue, bufferedMsg reassembly, Integrity prefix invariant) checked by TLC + class combinations exported by TLC run through the real tcp-bridge-frontend / tcp-bridge-backend binaries with harness TCP peers + TLC-checked refinement TcpBridge => TcpBridgeObs + TLC trace validation against TcpBridgeObs (TcpBridgeTrace)",
   text="TLC checks that what the far peer reads is always a prefix of what was written for every segmentation of writes and reads in the bounded model; on the real binaries every read at either end is compared with the expected stream position (all 256 byte values, write segments of 1 B..64 KB, read buffers of 1 B..64 KB, both directions at once, 4/16 concurrent connections with 256 KB / 8 MB each way) and the byte counts must satisfy the trace spec (never more than written, complete where nobody closed); plain HTTP GET/POST to the bridge backend must reach the backend port unchanged. The connection package is also driven directly (DialWebsocket's net.Conn against connection.Handler in process) with read buffers of 1 B..64 KB on the websocket side, singly and 16 connections at once, because the 32 KB copy buffers of the binaries never leave a message partially consumed.",
   note="Trusted: TLC, harness TCP peers (content comparison per read). Ports are taken with a free-port probe.",
   design="6 C15"),
 "C16": dict(engine="TcpBridge", technique="TLA+ spec TcpBridge (two bridges, CloseWrite marker, release when both loops end; liveness ClosePropagates/AllReleased; deviation Marker=FALSE = code before the fix) checked by TLC, TLC-checked refinement TcpBridge => TcpBridgeObs + close-order scenarios on the real bridge binaries + TLC trace validation against TcpBridgeObs (TcpBridgeTrace)",
   text="TLC proves ClosePropagates (a close reaches the other peer after all data sent before it) for the current design (in-band CloseWrite marker, half-close, release when both copy loops have ended) and refutes it for the code before the fix (Marker=FALSE); TLC also checks that the bridge model refines the observable spec TcpBridgeObs against which the recorded runs are validated; on the real binaries who closes first x data in flight in either direction x segmentations are executed, the first closer half-closes gracefully, and the trace spec requires the other peer to observe end-of-stream (within 10 s) only after having received everything the closing peer had sent, and the TCP server to hold no bridged connection afterwards. Closer classes include request / half-close / reply; a churn stage opens and closes 400 (thorough 3000) connections, 16 at a time, from either side, after which the open file descriptors of both bridge processes must be back at their baseline.",
   note="Trusted: TLC, harness peers. Data still travelling towards a peer that has itself closed is not covered by the property and not judged. 'Bounded time' = 10 s.",
   design="6 C16"),
 "C17": dict(engine="AppProxy", technique="TLA+ specs AppProxy (reference semantics AgentCallOK / AdminCallOK / UserRoutingOK) and AppAuth (registrations changing over time, deviation StaleGrants refuted by TLC) + all access-control combinations and all registration histories up to a bound enumerated by TLC run against the real app binary (3 services as processes) with a fake App Engine API + TLC trace validation (AppProxyTrace)",
   text="All 240 combinations of agent endpoint x caller identity x backend named x request ID kind, plus 18 admin-API calls by 6 kinds of caller, plus every history of register / re-register / delete / call steps up to length 4 (thorough 5) enumerated by TLC from AppAuth.tla (each call judged against the registration in force at that moment), are executed against the real app; for each call the harness records status, whether the reply reveals request bytes or IDs, whether the store changed and which datastore kinds were touched, and the TLA+ operators decide: exactly the registered backend user gets 200 (404 for foreign/unknown IDs, 400 for a missing ID), everybody else 401 with nothing learnt and nothing changed; only administrators get past 403.",
   note="Trusted: TLC, the fake App Engine API (datastore/memcache/user over the rpc_http protocol), identities injected through ticket / X-AppEngine-User headers. /cron/delete is protected by app.yaml, not by code, and is not judged.",
   design="6 C17"),
 "C18": dict(engine="AppProxy", technique="TLA+ spec AppProxy (RouteAnswers: longest matching prefix among the user's backends, shared fallback, liveness) as reference + random backend sets over TLC-exported domains registered in the real app + TLC trace validation (AppProxyTrace)",
   text="40 (quick) / 400 (thorough) random backend sets x 3 (user, path) requests: backends are registered through the admin API, their trackers aged in the fake datastore, a client request is issued and the backend it was stored under is read off the datastore; the TLA+ operator RouteAnswers gives the set of acceptable answers (any maximal live candidate, 404 otherwise) and the same request must route identically twice.",
   note="Trusted: TLC, fake App Engine API. Function-level exhaustive comparison of mostSpecificMatchingBackend is not done separately; prefix/path domains are small (7 prefixes, 8 paths) and exercised through the whole app.",
   design="6 C18"),
 "C19": dict(engine="AppProxy", technique="TLA+ specs AppProxy (response call with failing store writes and a bounded error channel: NoHang; ErrSlots attack; Parts(n) blob rule) and AppRelay (concurrent relay through the store: FetchIsRequest, ResponseIsOwn, CompletedNotListed) checked by TLC + relay scenarios at exact size boundaries and failing-write subsets on the real app + TLC trace validation",
   text="TLC proves that the response call always returns with room for both errors and hangs with one slot; on the real app one request is relayed per serialised size in {0..3.5 MB, incl. 999999/1000000/1000001 and 1999999/2000000/2000001 hit exactly}: the agent must fetch exactly the client's request, the client must get exactly the posted response, the number of blob parts must equal Parts(n), the completed request must not be listed again; two requests answered in reverse order; the response call under every subset of failing datastore writes must be answered (non-200) within 8 s; and rounds of 6-10 concurrent client requests over two backends with concurrent agent list/fetch/respond calls, where the fake App Engine API logs every store operation at its linearisation point and the whole trace must be a behaviour of the AppRelay model (checked by TLC exhaustively for 3 requests / 2 backends; SharedResponseKey attack). A stress stage overlaps 24 clients x 4 exchanges with concurrent response calls; the retention step (/cron/delete) is modelled (Cron, CronSparesWaiting, deviations ShortRetention and ResponseStartTimeUnset) and replayed on the real app as an observation beyond the listed property.",
   note="Trusted: TLC, fake App Engine API with fault injection on datastore Put by kind. The 30 s 504 path is not exercised in the quick tier.",
   design="6 C19"),
 "C01": dict(engine="Relay", technique="TLA+ spec Relay checked by TLC (exhaustive interleavings, liveness, IdCollision attack) + TLC trace validation (RelayTrace) of recorded executions of the real proxy/agent binaries, incl. -race builds",
   text="Bounded-exhaustive model checking of the proxy/agent relay design (all interleavings of 3 requests, 2-3 pollers, faults) plus conformance: every hook/observable event of bursts of up to 64 concurrent clients through the real binaries must be a behaviour of the specification, with the correlation invariants evaluated at every step; in addition TLC enumerates every well-formed schedule of the proxy's environment for two requests (send, list, foreign list, fetch, post, client disconnect; 738 schedules of <= 7 steps) and a seeded sample (120 quick / all thorough) is performed step by step on the real proxy with the harness playing the agent, each run validated by RelayTrace. Responses come in three trailer modes (declared, undeclared, none) and the client compares the exact trailer set.",
   note="Trusted: TLC, the token projection of the harness backend/clients, hook placement (receiver side of channel rendezvous). Bounds: 3 requests in the model, <=64 concurrent clients per burst in the runs. Race-detector reports count only with both stacks in repository code.",
   design="6 C01"),
}

hook_commits = subprocess.run(["git", "-C", "/repo", "log", "--format=%h %s"], stdout=subprocess.PIPE, text=True).stdout.splitlines()
hook_commits = [l.split()[0] for l in hook_commits if l.split(" ", 1)[1].startswith(("verifhook", "verif hooks", "verif hook"))]

m = {
 "version": 1,
 "setup_cmd": "bin/setup",
 "hooks": {
  "guard": "verif",
  "enable": "go build -tags verif (harness and binaries are built from /repo's working tree with this tag; events go to the file named by VERIF_TRACE)",
  "baseline_off_cmd": "cd /repo && GOFLAGS=-mod=mod GOPROXY=off GOSUMDB=off go test -json -vet=off -count=1 -timeout 25m ./...",
  "source_commits": list(reversed(hook_commits)),
  "add_only": True,
 },
 "engines": [],
 "checks": [],
 "notes": "Model-based verification with explicit TLA+ specifications (spec/*.tla), TLC, and conformance by trace validation / TLC-generated cases replayed on the real code. Exit 0 held, 1 VIOLATION, 2 inconclusive. Known findings: known_findings.txt. See DESIGN.md.",
 "not_applicable": [],
}
engines = {}
for pid in ids:
    c = CLAIMS.get(pid)
    if c and ADDENDA.get(pid) and not c["text"].endswith(ADDENDA[pid]):
        c = dict(c, text=c["text"] + ADDENDA[pid])
    if not c:
        m["not_applicable"].append({"property_id": pid, "reason": "check not built yet (work in progress; DESIGN.md section 6 describes the planned TLA+ module and conformance harness)"})
        continue
    engines.setdefault(c["engine"], []).append(pid)
    m["checks"].append({
        "property_id": pid,
        "quick_cmd": "bin/check %s quick" % pid,
        "thorough_cmd": "bin/check %s thorough" % pid,
        "evidence_file": "evidence/%s.json" % pid,
        "replay_cmd_template": "VERIF_REPLAY={path} bin/check %s quick" % pid,
        "engine": c["engine"],
        "level_claimed": {"category": c.get("category", "model_checking"), "text": c["text"], "design_ref": "DESIGN.md section " + c["design"]},
        "level_note": c["note"],
        "technique": c["technique"],
    })
for e, ps in engines.items():
    m["engines"].append({"name": e, "path": "spec/%s.tla" % e, "serves_properties": ps,
                         "kind_free_text": "TLA+ module + TLC configurations + trace specification; Go conformance driver in harness/drv"})
json.dump(m, open(os.path.join(V, "MANIFEST.json"), "w"), indent=1)
print("checks:", [c["property_id"] for c in m["checks"]])
