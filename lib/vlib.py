"""Shared machinery for /verif/bin/check.

Pipeline of every check (see DESIGN.md section 2):
  A. TLC on the module (exhaustive MC config, liveness config, attack configs that must fail)
  B. TLC-generated cases / schedules are handed to the Go driver, which runs the REAL code built
     from $VERIF_REPO (default /repo) with -tags verif and records an NDJSON trace
  C. TLC validates the recorded trace against the trace specification (XTrace.tla); a segment of
     the trace that no behaviour of the specification explains is a violation
Exit codes: 0 held / 1 VIOLATION / 2 inconclusive (never a violation).
"""
import json, os, re, shutil, subprocess, sys, tempfile, time, hashlib, glob

VERIF = os.path.dirname(os.path.dirname(os.path.abspath(__file__)))
GOENV = {"GOFLAGS": "-mod=mod", "GOPROXY": "off", "GOSUMDB": "off", "GOTOOLCHAIN": "local",
         "CGO_ENABLED": "1"}


class Inconclusive(Exception):
    pass


class Ctx:
    def __init__(self, pid, tier, seed):
        self.pid = pid
        self.tier = tier
        self.seed = seed
        self.repo = os.environ.get("VERIF_REPO", "/repo")
        self.t0 = time.time()
        self.scratch = tempfile.mkdtemp(prefix="verif-%s-" % pid, dir=os.environ.get("VERIF_SCRATCH", "/var/tmp"))
        self.specdir = os.path.join(self.scratch, "spec")
        shutil.copytree(os.path.join(VERIF, "spec"), self.specdir)
        self.bindir = os.path.join(self.scratch, "bin")
        os.makedirs(self.bindir)
        self.tlc_cmds = []
        self.states = 0
        self.transitions = 0
        self.traces_validated = 0
        self.events_validated = 0
        self.samples = []
        self.evaluations = 0
        self.distinct = set()
        self.violations = []   # dicts: sig, what, replay
        self.known_hits = []
        self.notes = []
        self.assumptions = []
        self.rule = ""
        self.extra = {}
        self.level = "model_checking"
        self.nmd = 0
        for d in glob.glob(os.path.join(VERIF, "evidence", "replay", pid, "%s_seed%d_*" % (tier, seed))):
            shutil.rmtree(d, ignore_errors=True)

    def log(self, *a):
        print("[%s %6.1fs]" % (self.pid, time.time() - self.t0), *a, flush=True)

    def cleanup(self):
        if os.environ.get("VERIF_KEEP"):
            self.log("scratch kept at", self.scratch)
            return
        shutil.rmtree(self.scratch, ignore_errors=True)


# ----------------------------------------------------------------------------------------------
# TLC
# ----------------------------------------------------------------------------------------------
class TlcResult:
    pass


def tlc(ctx, module, cfg, workers=None, env=None, timeout=900, extra=(), deque=False, quiet=False):
    ctx.nmd += 1
    md = os.path.join(ctx.scratch, "md%d" % ctx.nmd)
    if workers is None:
        workers = min(16, os.cpu_count() or 4)
    cmd = ["timeout", "-k", "10", str(timeout), "tlc", "-workers", str(workers), "-metadir", md,
           "-config", cfg, module + ".tla"] + list(extra)
    e = dict(os.environ)
    if env:
        e.update(env)
    e["JAVA_TOOL_OPTIONS"] = (e.get("JAVA_TOOL_OPTIONS", "") + " -Xss512m").strip()
    if deque:
        e["JAVA_TOOL_OPTIONS"] = (e.get("JAVA_TOOL_OPTIONS", "") + " -Dtlc2.tool.queue.IStateQueue=StateDeque").strip()
    t = time.time()
    p = subprocess.run(cmd, cwd=ctx.specdir, env=e, stdout=subprocess.PIPE, stderr=subprocess.STDOUT, text=True)
    shutil.rmtree(md, ignore_errors=True)
    r = TlcResult()
    r.exit = p.returncode
    r.out = p.stdout
    r.wall = time.time() - t
    m = re.findall(r"(\d+) states generated, (\d+) distinct states found", p.stdout)
    r.generated, r.distinct = (int(m[-1][0]), int(m[-1][1])) if m else (0, 0)
    m = re.search(r"depth of the complete state graph search is (\d+)", p.stdout)
    r.depth = int(m.group(1)) if m else 0
    m = re.search(r"Invariant (\S+) is violated", p.stdout) or re.search(r"The invariant of (\S+) is equal to FALSE", p.stdout)
    r.invariant = m.group(1) if m else None
    r.temporal = bool(re.search(r"Temporal propert(y|ies) .*(was|were) violated", p.stdout))
    r.deadlock = "Deadlock reached" in p.stdout
    r.violated = bool(r.invariant or r.temporal or r.deadlock or "Action property" in p.stdout and "is violated" in p.stdout)
    m = re.findall(r'"HWM", (\d+)', p.stdout)
    r.hwm = max(int(x) for x in m) if m else None
    r.parse_error = ("Parsing or semantic analysis failed" in p.stdout) or ("*** Errors:" in p.stdout)
    r.timeout = (p.returncode == 124)
    ctx.tlc_cmds.append("%s (%s, exit %d, %d generated / %d distinct, %.1fs)" % (" ".join(cmd[4:]), cfg, r.exit, r.generated, r.distinct, r.wall))
    ctx.states += r.distinct
    ctx.transitions += r.generated
    if not quiet:
        ctx.log("TLC %s %s: exit=%d generated=%d distinct=%d depth=%d %.1fs%s" % (
            module, cfg, r.exit, r.generated, r.distinct, r.depth, r.wall,
            " violated=%s" % (r.invariant or "temporal/deadlock") if r.violated else ""))
    return r


def tlc_must_hold(ctx, module, cfg, **kw):
    r = tlc(ctx, module, cfg, **kw)
    if r.exit != 0 or r.violated:
        save_debug(ctx, "tlc_%s.out" % cfg, r.out)
        raise Inconclusive("specification check %s/%s did not pass (exit %d); spec or tool problem, not a code violation" % (module, cfg, r.exit))
    return r


def tlc_must_fail(ctx, module, cfg, **kw):
    """Attack configuration: the deviation switch is on, TLC has to find the counterexample
    (non-vacuity of the invariant)."""
    r = tlc(ctx, module, cfg, **kw)
    if not r.violated:
        save_debug(ctx, "tlc_%s.out" % cfg, r.out)
        raise Inconclusive("attack configuration %s/%s found no counterexample (exit %d): invariant is vacuous or spec broken" % (module, cfg, r.exit))
    return r


def save_debug(ctx, name, text):
    d = os.path.join(VERIF, "evidence", "debug", ctx.pid)
    os.makedirs(d, exist_ok=True)
    with open(os.path.join(d, name), "w") as f:
        f.write(text)
    return os.path.join(d, name)


# ----------------------------------------------------------------------------------------------
# Go builds (always from the working tree of ctx.repo, hooks enabled)
# ----------------------------------------------------------------------------------------------
def goenv(ctx):
    e = dict(os.environ)
    e.update(GOENV)
    if COVER:
        os.makedirs(COVER, exist_ok=True)
        e["GOCOVERDIR"] = COVER
        e["VERIF_COVERDIR"] = COVER
    return e


COVER = os.environ.get("VERIF_COVER", "")      # coverage survey (bin/coverage): a directory for GOCOVERDIR data
COVERFLAGS = ["-cover", "-covermode=atomic", "-coverpkg=github.com/google/inverting-proxy/..."] if COVER else []


def go_build_repo(ctx, pkg, out, race=False, tags="verif"):
    cmd = ["go", "build", "-tags", tags] + COVERFLAGS
    if race:
        cmd.append("-race")
    cmd += ["-o", os.path.join(ctx.bindir, out), pkg]
    p = subprocess.run(cmd, cwd=ctx.repo, env=goenv(ctx), stdout=subprocess.PIPE, stderr=subprocess.STDOUT, text=True)
    if p.returncode != 0:
        save_debug(ctx, "build_%s.out" % out, p.stdout)
        raise Inconclusive("go build %s failed:\n%s" % (pkg, p.stdout[-2000:]))
    return os.path.join(ctx.bindir, out)


def harness_modfile(ctx):
    """The harness module builds against ctx.repo through a generated -modfile."""
    mf = os.path.join(ctx.scratch, "harness.mod")
    if not os.path.exists(mf):
        src = open(os.path.join(VERIF, "harness", "go.mod")).read()
        src = re.sub(r"replace github.com/google/inverting-proxy => \S+",
                     "replace github.com/google/inverting-proxy => " + ctx.repo, src)
        open(mf, "w").write(src)
        shutil.copy(os.path.join(ctx.repo, "go.sum"), os.path.join(ctx.scratch, "harness.sum"))
    return mf


def go_build_harness(ctx, pkg="./cmd/vdrive", out="vdrive", race=False):
    cmd = ["go", "build", "-tags", "verif", "-modfile", harness_modfile(ctx)]
    if COVER:   # (the pattern has to include the main module of the build, or nothing is instrumented)
        cmd += ["-cover", "-covermode=atomic", "-coverpkg=verifharness/...,github.com/google/inverting-proxy/..."]
    if race:
        cmd.append("-race")
    cmd += ["-o", os.path.join(ctx.bindir, out), pkg]
    p = subprocess.run(cmd, cwd=os.path.join(VERIF, "harness"), env=goenv(ctx), stdout=subprocess.PIPE, stderr=subprocess.STDOUT, text=True)
    if p.returncode != 0:
        save_debug(ctx, "build_%s.out" % out, p.stdout)
        raise Inconclusive("go build harness %s failed (a harness that does not compile against the tree is inconclusive):\n%s" % (pkg, p.stdout[-3000:]))
    return os.path.join(ctx.bindir, out)


def go_test_overlay(ctx, pkgdir, testfile, run=".", race=False, env=None, timeout=600, extra=()):
    """Run an in-package test file from /verif/harness/overlay against ctx.repo without writing
    into the repository (go test -overlay)."""
    ov = os.path.join(ctx.scratch, "overlay_%s.json" % os.path.basename(testfile))
    base = os.path.basename(testfile)
    if base.endswith(".txt"):
        base = base[:-4]      # kept under a non-Go name so that the harness module does not compile it
    target = os.path.join(ctx.repo, pkgdir, base)
    json.dump({"Replace": {target: testfile}}, open(ov, "w"))
    cmd = ["go", "test", "-tags", "verif", "-overlay", ov, "-count=1", "-vet=off", "-run", run,
           "-timeout", "%ds" % timeout]
    if race:
        cmd.append("-race")
    cmd += list(extra) + ["./" + pkgdir]
    e = goenv(ctx)
    if env:
        e.update(env)
    p = subprocess.run(cmd, cwd=ctx.repo, env=e, stdout=subprocess.PIPE, stderr=subprocess.STDOUT, text=True)
    return p.returncode, p.stdout


def run_driver(ctx, args, env=None, timeout=1200, name="driver"):
    """Run the Go driver; it writes its trace to VERIF_TRACE and a result JSON to --out."""
    e = goenv(ctx)
    e["VERIF_SEED"] = str(ctx.seed)
    e["VERIF_TIER"] = ctx.tier
    e["VERIF_BIN"] = ctx.bindir
    e["VERIF_SCRATCH"] = ctx.scratch
    if env:
        e.update(env)
    t = time.time()
    try:
        p = subprocess.run(args, env=e, stdout=subprocess.PIPE, stderr=subprocess.STDOUT, text=True, timeout=timeout)
    except subprocess.TimeoutExpired as ex:
        save_debug(ctx, name + ".out", (ex.stdout or b"").decode("utf-8", "replace") if isinstance(ex.stdout, bytes) else (ex.stdout or ""))
        raise Inconclusive("driver %s timed out after %ds" % (name, timeout))
    ctx.log("driver %s: exit=%d %.1fs" % (name, p.returncode, time.time() - t))
    if p.returncode != 0:
        f = save_debug(ctx, name + ".out", p.stdout)
        raise Inconclusive("driver %s failed (exit %d), output in %s:\n%s" % (name, p.returncode, f, p.stdout[-2500:]))
    return p.stdout


# ----------------------------------------------------------------------------------------------
# Traces
# ----------------------------------------------------------------------------------------------
DAMAGED = {"lines": 0, "segments": 0}


def read_ndjson(path):
    """A process that is killed while it appends an event can leave a torn line (the next writer's
    line is glued to it). Such a line is not evidence of anything: it is replaced by a marker, and the
    segment that contains the marker is set aside (not judged) by split_segments."""
    out = []
    with open(path, errors="replace") as f:
        for line in f:
            line = line.strip()
            if not line:
                continue
            try:
                out.append(json.loads(line))
            except ValueError:
                DAMAGED["lines"] += 1
                out.append({"ev": "DamagedLine", "raw": line[:200]})
                k = line.rfind('{"ev":')
                if k > 0:
                    try:
                        out.append(json.loads(line[k:]))
                    except ValueError:
                        pass
    return out


def split_segments(events):
    """A trace is a sequence of segments, each starting with a Reset event
    {"ev":"Reset","seg":name,"sig":signature,...}."""
    segs = []
    for e in events:
        if e.get("ev") == "Reset":
            segs.append([e])
        else:
            if not segs:
                segs.append([{"ev": "Reset", "seg": "seg0", "sig": "seg0"}])
            segs[-1].append(e)
    whole = [s for s in segs if not any(e.get("ev") == "DamagedLine" for e in s)]
    DAMAGED["segments"] += len(segs) - len(whole)
    return whole


def validate_segments(ctx, module, cfg, segs, max_unknown=6, env=None, deque=False, timeout=900, batch=None, max_events=None):
    """TLC-validate segments against the trace spec. Returns the list of rejected segments as
    (segment, index_of_first_unexplained_event, tlc_output).  Accepted segments count as
    traces_validated_against_impl."""
    failures = []
    todo = list(segs)
    if not todo:
        return failures
    chunks = [todo] if not batch else [todo[i:i + batch] for i in range(0, len(todo), batch)]
    if max_events:
        # (trace constants such as the set of request IDs are taken from the whole file: the cost of a step grows
        # with the file, so long recordings are validated in pieces of whole segments)
        chunks, cur_chunk, n = [], [], 0
        for sg in todo:
            if cur_chunk and n + len(sg) > max_events:
                chunks.append(cur_chunk)
                cur_chunk, n = [], 0
            cur_chunk.append(sg)
            n += len(sg)
        if cur_chunk:
            chunks.append(cur_chunk)
    for chunk in chunks:
        cur = list(chunk)
        while cur:
            flat = [e for s in cur for e in s]
            path = os.path.join(ctx.scratch, "trace_%s_%d.ndjson" % (module, ctx.nmd))
            with open(path, "w") as f:
                for e in flat:
                    f.write(json.dumps(e, sort_keys=True) + "\n")
            ee = {"VERIF_TRACE": path}
            if env:
                ee.update(env)
            r = tlc(ctx, module, cfg, workers=1, env=ee, deque=deque, timeout=timeout, quiet=True)
            if r.parse_error or r.timeout or r.hwm is None:
                save_debug(ctx, "tlc_trace_%s.out" % module, r.out)
                shutil.copy(path, os.path.join(VERIF, "evidence", "debug", ctx.pid, "trace_%s.ndjson" % module))
                raise Inconclusive("trace validation of %s could not run (exit %d, timeout=%s)" % (module, r.exit, r.timeout))
            accepted = (r.hwm >= len(flat)) and r.exit == 0
            if accepted:
                ctx.traces_validated += len(cur)
                ctx.events_validated += len(flat)
                ctx.log("trace validation %s: %d segments / %d events accepted" % (module, len(cur), len(flat)))
                break
            # locate the segment that contains event number hwm+1 (1-based); with an invariant
            # violation the offending event is the last consumed one
            bad_line = r.hwm + 1 if not r.invariant else max(r.hwm, 1)
            if bad_line > len(flat):
                bad_line = len(flat)
            n = 0
            bad = None
            for k, s in enumerate(cur):
                if n < bad_line <= n + len(s):
                    bad = k
                    break
                n += len(s)
            if bad is None:
                bad = len(cur) - 1
                n = sum(len(s) for s in cur[:-1])
            seg = cur[bad]
            failures.append((seg, bad_line - n - 1, r.out, r.invariant))
            ctx.log("trace validation %s: segment %r rejected at its event #%d (%s)%s" % (
                module, seg[0].get("seg"), bad_line - n, seg[min(bad_line - n - 1, len(seg) - 1)].get("ev"),
                " invariant " + r.invariant if r.invariant else ""))
            # segments before the failing one were explained
            ctx.traces_validated += bad
            ctx.events_validated += n
            cur = cur[bad + 1:]
            if len([1 for f in failures]) >= max_unknown * 4:
                ctx.notes.append("stopped validating after %d rejected segments" % len(failures))
                return failures
    return failures


# ----------------------------------------------------------------------------------------------
# Known findings, verdicts, evidence
# ----------------------------------------------------------------------------------------------
def load_known():
    known, fixed = [], []
    path = os.path.join(VERIF, "known_findings.txt")
    if os.path.exists(path):
        for line in open(path):
            line = line.strip()
            if not line or line.startswith("#"):
                continue
            m = re.match(r"known:\s+property=(\S+)\s+sig=(\S+)\s+(.*)", line)
            if m:
                known.append({"property": m.group(1), "sig": m.group(2), "what": m.group(3)})
                continue
            m = re.match(r"fixed:\s+property=(\S+)\s+(\S+)\s+(.*)", line)
            if m:
                fixed.append({"property": m.group(1), "commit": m.group(2), "what": m.group(3)})
    return known, fixed


def report_failure(ctx, sig, what, files=None, seg=None, tlc_out=None, replay_cmd=None):
    """Record a property failure observed on the real code. Known findings (by signature) are
    reported as KNOWN-FINDING, everything else as VIOLATION with a replay directory."""
    known, _ = load_known()
    for k in known:
        if k["property"] == ctx.pid and re.fullmatch(k["sig"], sig):
            for h in ctx.known_hits:
                if h["what"] == k["what"]:
                    h["count"] += 1
                    if sig not in h["sigs"] and len(h["sigs"]) < 12:
                        h["sigs"].append(sig)
                    return "known"
            ctx.known_hits.append({"sig": sig, "what": k["what"], "count": 1, "sigs": [sig]})
            return "known"
    n = len(ctx.violations) + 1
    rdir = os.path.join(VERIF, "evidence", "replay", ctx.pid, "%s_seed%d_%d" % (ctx.tier, ctx.seed, n))
    shutil.rmtree(rdir, ignore_errors=True)
    os.makedirs(rdir)
    if seg is not None:
        with open(os.path.join(rdir, "segment.ndjson"), "w") as f:
            for e in seg:
                f.write(json.dumps(e, sort_keys=True) + "\n")
    if tlc_out:
        open(os.path.join(rdir, "tlc.out"), "w").write(tlc_out)
    for src in (files or []):
        if os.path.exists(src):
            shutil.copy(src, rdir)
    open(os.path.join(rdir, "README"), "w").write(
        "property=%s\nsignature=%s\nwhat=%s\nseed=%d tier=%s\nreplay: VERIF_SEED=%d %s\n" % (
            ctx.pid, sig, what, ctx.seed, ctx.tier, ctx.seed, replay_cmd or ("bin/check %s %s" % (ctx.pid, ctx.tier))))
    ctx.violations.append({"sig": sig, "what": what, "replay": rdir})
    return "violation"


def failures_from_segments(ctx, failures, describe=None):
    for seg, idx, out, inv in failures:
        head = seg[0]
        ev = seg[min(max(idx, 0), len(seg) - 1)]
        sig = head.get("sig") or head.get("seg") or "segment"
        what = "trace segment %r: event #%d %s is not explained by the specification%s" % (
            head.get("seg"), idx + 1, json.dumps(ev, sort_keys=True)[:300], (" (invariant %s)" % inv) if inv else "")
        if describe:
            what = describe(seg, idx, inv) or what
        report_failure(ctx, sig, what, seg=seg, tlc_out=out[-6000:])


def finish(ctx, level_extra=None):
    wall = time.time() - ctx.t0
    if DAMAGED["lines"]:
        ctx.notes.append("%d torn trace line(s) (a process was killed while writing an event); %d segment(s) containing one were set aside, not judged" % (DAMAGED["lines"], DAMAGED["segments"]))
    ev = {
        "property_id": ctx.pid,
        "tier": ctx.tier,
        "seed": ctx.seed,
        "level": ctx.level,
        "coverage": {
            "states": max(ctx.states, 0),
            "transitions": max(ctx.transitions, 0),
            "traces_validated_against_impl": ctx.traces_validated,
            "events_validated": ctx.events_validated,
            "evaluations": ctx.evaluations,
            "distinct_nontrivial": len(ctx.distinct),
            "rule": ctx.rule,
            "samples": ctx.samples[:8] or ["(none)"],
            "tlc_cmds": ctx.tlc_cmds,
            "known_findings_hit": ctx.known_hits,
            "notes": ctx.notes,
            "repo": ctx.repo,
        },
        "assumptions": ctx.assumptions,
        "wall_s": round(wall, 2),
        "violations": len(ctx.violations),
    }
    ev["coverage"].update(ctx.extra)
    if level_extra:
        ev["coverage"].update(level_extra)
    os.makedirs(os.path.join(VERIF, "evidence"), exist_ok=True)
    with open(os.path.join(VERIF, "evidence", "%s.json" % ctx.pid), "w") as f:
        json.dump(ev, f, indent=1, sort_keys=True, default=str)
    for h in ctx.known_hits:
        print("KNOWN-FINDING: property=%s %s [%d case(s), e.g. %s]" % (ctx.pid, h["what"], h["count"], h["sig"]))
    for v in ctx.violations:
        print("VIOLATION property=%s replay=%s" % (ctx.pid, v["replay"]))
        print("  " + v["what"][:600])
    ctx.log("done: states=%d transitions=%d traces=%d evaluations=%d distinct=%d violations=%d known=%d wall=%.1fs" % (
        ctx.states, ctx.transitions, ctx.traces_validated, ctx.evaluations, len(ctx.distinct),
        len(ctx.violations), len(ctx.known_hits), wall))
    return 1 if ctx.violations else 0


def main(pid, fn):
    tier = os.environ.get("VERIF_TIER", "quick")
    if len(sys.argv) > 2:
        tier = sys.argv[2]
    seed = int(os.environ.get("VERIF_SEED", "1") or 1)
    ctx = Ctx(pid, tier, seed)
    rc = 2
    try:
        fn(ctx)
        rc = finish(ctx)
    except Inconclusive as ex:
        if ctx.violations:
            # violations already established from the real code's behaviour stand: a later stage that could not be
            # completed (e.g. a self-test that found no suitable accepted segment on a broken tree) does not undo them
            print("NOTE property=%s: a later stage was inconclusive (%s); the violations above stand" % (pid, ex))
            ctx.notes.append("a later stage was inconclusive: %s" % ex)
            try:
                rc = finish(ctx)
            except Exception:
                rc = 1
        else:
            print("INCONCLUSIVE property=%s: %s" % (pid, ex))
            ctx.notes.append("inconclusive: %s" % ex)
            try:
                ctx.level = "other"
                finish(ctx, {"explanation": "run was inconclusive: %s" % ex})
            except Exception:
                pass
            rc = 2
    except Exception as ex:       # a fault of the machinery itself is never a verdict about the code
        import traceback
        traceback.print_exc()
        print("INCONCLUSIVE property=%s: internal error of the checking machinery: %r" % (pid, ex))
        ctx.notes.append("inconclusive: internal error %r" % ex)
        try:
            ctx.level = "other"
            finish(ctx, {"explanation": "run was inconclusive: internal error %r" % ex})
        except Exception:
            pass
        rc = 2
    finally:
        ctx.cleanup()
    sys.exit(rc)
