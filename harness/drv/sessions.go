package drv

import (
	"encoding/json"
	"fmt"
	"net/http"
	"net/http/cookiejar"
	"net/http/httptest"
	"net/url"
	"os"
	"os/exec"
	"strings"
	"sync"
	"sync/atomic"
	"time"

	"golang.org/x/net/publicsuffix"

	"github.com/google/inverting-proxy/agent/sessions"

	"verifharness/hx"
)

func init() {
	Drivers["sessions"] = sessionsDriver
}

const sessCookieName = "vsession"

type sessStep struct {
	Session, Host, Path, Op, Extra string
}
type sessCases struct {
	Histories [][]sessStep `json:"histories"`
}

// sessClient is the harness' model of one browser session: the session cookie it holds and the
// independent reference jar fed with the Set-Cookie headers the backend emitted for it.
type sessClient struct {
	label string
	sid   string
	ref   http.CookieJar
	ctr   int
	mu    sync.Mutex
	mu2   sync.Mutex
}

func newSessClient(label string) *sessClient {
	j, _ := cookiejar.New(&cookiejar.Options{PublicSuffixList: publicsuffix.List})
	return &sessClient{label: label, ref: j}
}

// setCookies returns the Set-Cookie header values the backend emits for an operation class.
func (c *sessClient) setCookies(op string) []string {
	c.ctr++
	v := fmt.Sprintf("%s~%d", c.label, c.ctr)
	switch op {
	case "set":
		return []string{"x=" + v}
	case "overwrite":
		return []string{"x=" + v + "; Path=/"}
	case "delete-maxage":
		return []string{"x=gone; Max-Age=0"}
	case "delete-expires":
		return []string{"x=gone; Expires=Thu, 01 Jan 1970 00:00:00 GMT"}
	case "path-scoped":
		return []string{"p=" + v + "; Path=/a"}
	case "domain-scoped":
		return []string{"d=" + v + "; Domain=h1.example.com"}
	case "domain-public-suffix":
		return []string{"ps=" + v + "; Domain=co.uk", "pc=" + v + "; Domain=com"}
	case "domain-foreign":
		return []string{"df=" + v + "; Domain=unrelated.example.net"}
	case "domain-parent":
		return []string{"dp=" + v + "; Domain=example.com", "du=" + v + "; Domain=example.co.uk"}
	case "samesite":
		return []string{"ss=" + v + "; SameSite=Strict", "sl=" + v + "; SameSite=None; Secure"}
	case "expires-future":
		return []string{"ef=" + v + "; Expires=Fri, 01 Jan 2100 00:00:00 GMT"}
	case "maxage-zero-then-set":
		return []string{"mz=gone; Max-Age=0", "mz=" + v}
	case "secure":
		return []string{"s=" + v + "; Secure"}
	case "httponly":
		return []string{"h=" + v + "; HttpOnly"}
	case "two-cookies":
		return []string{"x=" + v, "y=" + v + "b; Path=/"}
	case "same-set":
		return []string{"r=" + c.label + "~same"}
	case "same-delete-maxage":
		return []string{"r=" + c.label + "~same; Max-Age=0"}
	case "same-delete-expires":
		return []string{"r=" + c.label + "~same; Expires=Thu, 01 Jan 1970 00:00:00 GMT"}
	case "same-path-a":
		return []string{"r=" + c.label + "~same; Path=/a"}
	case "same-path-root":
		return []string{"r=" + c.label + "~same; Path=/"}
	case "same-refresh":
		return []string{"r=" + c.label + "~same; Max-Age=3600"}
	case "same-name-other-path":
		return []string{"x=" + v + "; Path=/a/b"}
	}
	return nil
}

func tagOf(value string) string {
	if i := strings.Index(value, "~"); i > 0 {
		return value[:i]
	}
	return ""
}

// oneRequest sends one request through the handler and emits the SessReq event.
func oneRequest(h http.Handler, c *sessClient, st sessStep, mode string, keepCookie bool, disableSSL bool, ttl time.Duration, emit func(string, ...interface{})) {
	if mode != "concurrent" {
		c.mu.Lock()
		defer c.mu.Unlock()
	}
	u := &url.URL{Scheme: "https", Host: st.Host, Path: st.Path}
	req := httptest.NewRequest("GET", "http://"+st.Host+st.Path, nil)
	req.Host = st.Host
	presented := c.sid
	if presented != "" {
		req.AddCookie(&http.Cookie{Name: sessCookieName, Value: presented})
	}
	var extra [][2]string
	switch st.Extra {
	case "one":
		extra = [][2]string{{"own", "client-1"}}
	case "two":
		extra = [][2]string{{"own", "client-1"}, {"other", "client-2"}}
	case "same-name-as-jar":
		extra = [][2]string{{"x", "client-x"}}
	case "two-lines", "three-lines-session-last":
		// the client spreads its cookies over several Cookie header lines (HTTP/2 clients and some libraries do)
		extra = [][2]string{{"own", "client-1"}, {"other", "client-2"}}
	}
	switch st.Extra {
	case "two-lines":
		// line 1: session cookie and the first own cookie; line 2: the second own cookie
		req.AddCookie(&http.Cookie{Name: extra[0][0], Value: extra[0][1]})
		req.Header.Add("Cookie", extra[1][0]+"="+extra[1][1])
	case "three-lines-session-last":
		req.Header.Del("Cookie")
		req.Header.Add("Cookie", extra[0][0]+"="+extra[0][1])
		req.Header.Add("Cookie", extra[1][0]+"="+extra[1][1])
		if presented != "" {
			req.Header.Add("Cookie", sessCookieName+"="+presented)
		}
	default:
		for _, e := range extra {
			req.AddCookie(&http.Cookie{Name: e[0], Value: e[1]})
		}
	}
	expected := [][2]string{}
	for _, ck := range c.ref.Cookies(u) {
		expected = append(expected, [2]string{ck.Name, ck.Value})
	}
	c.mu2.Lock()
	sets := c.setCookies(st.Op)
	c.mu2.Unlock()
	req.Header.Set("X-Ops", strings.Join(sets, "\n"))
	rec := httptest.NewRecorder()
	before := time.Now()
	h.ServeHTTP(rec, req)
	resp := rec.Result()
	// what the backend saw was reported through the response header X-Saw (JSON)
	var saw [][2]string
	json.Unmarshal([]byte(resp.Header.Get("X-Saw")), &saw)
	if saw == nil {
		saw = [][2]string{}
	}
	var tags []string
	for _, s := range saw {
		if t := tagOf(s[1]); t != "" {
			tags = append(tags, t)
		}
	}
	if tags == nil {
		tags = []string{}
	}
	var names []string
	newSid := ""
	sc := map[string]interface{}{"httponly": false, "path": "", "secure": false, "ttl_ok": false}
	for _, ck := range resp.Cookies() {
		names = append(names, ck.Name)
		if ck.Name == sessCookieName {
			newSid = ck.Value
			lo, hi := before.Add(ttl-5*time.Second), time.Now().Add(ttl+5*time.Second)
			sc = map[string]interface{}{"httponly": ck.HttpOnly, "path": ck.Path, "secure": ck.Secure,
				"ttl_ok": !ck.Expires.Before(lo) && !ck.Expires.After(hi)}
		}
	}
	if names == nil {
		names = []string{}
	}
	// feed the independent reference jar with what the backend set
	if len(sets) > 0 {
		hdr := http.Header{}
		for _, s := range sets {
			hdr.Add("Set-Cookie", s)
		}
		c.ref.SetCookies(u, (&http.Response{Header: hdr}).Cookies())
	}
	known := presented != ""
	if newSid != "" && keepCookie {
		c.sid = newSid
	}
	if extra == nil {
		extra = [][2]string{}
	}
	emit("SessReq", "label", c.label, "presented", presented, "known", known, "host", st.Host, "path", st.Path, "op", st.Op,
		"extra", extra, "saw", saw, "expected", expected, "tags", tags, "client_setcookie", names, "cookie_name", sessCookieName,
		"new_sid", newSid, "sc", sc, "mode", mode, "disable_ssl", disableSSL, "status", resp.StatusCode)
}

// sessBackend plays the backend: reports the cookies it saw and sets the cookies it is told to.
var sessBackend = http.HandlerFunc(func(w http.ResponseWriter, r *http.Request) {
	saw := [][2]string{}
	for _, ck := range r.Cookies() {
		saw = append(saw, [2]string{ck.Name, ck.Value})
	}
	b, _ := json.Marshal(saw)
	w.Header().Set("X-Saw", string(b))
	if ops := r.Header.Get("X-Ops"); ops != "" {
		for _, s := range strings.Split(ops, "\n") {
			w.Header().Add("Set-Cookie", s)
		}
	}
	w.WriteHeader(200)
	w.Write([]byte("ok"))
})

// sessionsDriver: C10. Sequential cookie histories over several sessions judged against an
// independent cookie jar per session; an eviction scenario; and concurrent bursts in a child
// process (built with -race) so that a fatal runtime error is observed, not suffered.
func sessionsDriver(a *Args) {
	res := a.Res
	if a.Mode == "stress-child" {
		sessionsStressChild()
		return
	}
	if a.Mode == "burst-child" {
		sessionsBurstChild()
		return
	}
	var cases sessCases
	b, err := os.ReadFile(a.Cases)
	if err != nil || json.Unmarshal(b, &cases) != nil {
		res.Bad("cannot read cases %q: %v", a.Cases, err)
		return
	}
	ttl := 3 * time.Hour
	for i, hist := range cases.Histories {
		disableSSL := i%2 == 1
		hx.Reset(fmt.Sprintf("sess-hist-%d", i), "sessions-history")
		cache := sessions.NewCache(sessCookieName, ttl, 50, disableSSL)
		h := cache.SessionHandler(sessBackend, nil)
		clients := map[string]*sessClient{}
		var shape []string
		for _, st := range hist {
			label := fmt.Sprintf("H%d-%s", i, st.Session)
			c := clients[label]
			if c == nil {
				c = newSessClient(label)
				clients[label] = c
			}
			keep := st.Session != "N"
			if !keep {
				// a client that never stores the session cookie: every request is a first request
				c = newSessClient(fmt.Sprintf("H%d-N%d", i, len(shape)))
			}
			oneRequest(h, c, st, "sequential", keep, disableSSL, ttl, hx.Emit)
			shape = append(shape, st.Session+":"+st.Op)
		}
		res.Case("hist:"+strings.Join(shape, ","), map[string]interface{}{"history": hist})
	}
	// eviction: cache of 2 sessions, 4 sessions used round-robin; an evicted session starts over
	// with an empty jar, and no session ever sees another's cookies
	hx.Reset("sess-evict", "sessions-evict")
	cache := sessions.NewCache(sessCookieName, ttl, 2, false)
	h := cache.SessionHandler(sessBackend, nil)
	var cl []*sessClient
	for k := 0; k < 4; k++ {
		cl = append(cl, newSessClient(fmt.Sprintf("E%d", k)))
	}
	for round := 0; round < 3; round++ {
		for k := 0; k < 4; k++ {
			oneRequest(h, cl[k], sessStep{Host: "h1.example.com", Path: "/", Op: "set"}, "evict", true, false, ttl, hx.Emit)
		}
	}
	res.Case("evict:4-sessions-cache-2", map[string]interface{}{"sessions": 4, "cache_limit": 2, "rounds": 3})

	// concurrent bursts in a child process
	rounds := 3
	if hx.Thorough() {
		rounds = 12
	}
	for r := 0; r < rounds; r++ {
		hx.Reset(fmt.Sprintf("sess-burst-%d", r), "sessions-burst")
		bin := hx.Bin("vdrive-race")
		if _, err := os.Stat(bin); err != nil {
			bin = hx.Bin("vdrive")
		}
		cmd := exec.Command(bin, "-mode", "burst-child", "-out", os.DevNull, "sessions")
		cmd.Env = append(os.Environ(), "GORACE=halt_on_error=1", fmt.Sprintf("VERIF_BURST=%d", r))
		out, err := cmd.CombinedOutput()
		ok := err == nil
		kind, inRepo, ex := hx.RaceReport(string(out))
		if !ok {
			res.Note("burst child %d failed (%v, %s, inRepo=%v): %s", r, err, kind, inRepo, headOf([]byte(ex), 1800))
			if kind == "race" && !inRepo {
				res.Bad("race report outside repository code: %s", headOf([]byte(ex), 600))
			}
		}
		hx.Emit("BurstDone", "ok", ok, "report", kind, "in_repo", inRepo)
		res.Case(fmt.Sprintf("burst:%d", r), map[string]interface{}{"round": r, "ok": ok})
	}
	// tight stress in a child process (plain build, no per-request events): interleavings that need two
	// requests of different sessions inside the cache lookup within nanoseconds of each other
	hx.Reset("sess-stress", "sessions-stress")
	cmd := exec.Command(hx.Bin("vdrive"), "-mode", "stress-child", "-out", os.DevNull, "sessions")
	cmd.Env = append(os.Environ(), "VERIF_TRACE=")
	out, err := cmd.CombinedOutput()
	var sum struct{ Requests, Mixed, Shown, Leaked int }
	parsed := false
	for _, ln := range strings.Split(string(out), "\n") {
		if strings.HasPrefix(ln, "STRESS ") {
			parsed = json.Unmarshal([]byte(strings.TrimPrefix(ln, "STRESS ")), &sum) == nil
		}
	}
	if err != nil || !parsed {
		res.Note("stress child failed (%v): %s", err, headOf(out, 1500))
	}
	hx.Emit("SessStress", "ok", err == nil && parsed, "requests", sum.Requests, "mixed", sum.Mixed, "session_cookie_shown", sum.Shown, "setcookie_leaked", sum.Leaked)
	res.Case("stress", map[string]interface{}{"requests": sum.Requests, "mixed": sum.Mixed})
}

// sessionsStressChild: 8 sessions x 4 goroutines each hammer one shared handler for a fixed number of
// requests. The backend sets a cookie naming the session's owner once and compares it with the
// owner header on every later request.
func sessionsStressChild() {
	cache := sessions.NewCache(sessCookieName, time.Hour, 100, false)
	var mixed, shown, leaked, total int64
	backend := http.HandlerFunc(func(w http.ResponseWriter, r *http.Request) {
		owner := r.Header.Get("X-Owner")
		if _, err := r.Cookie(sessCookieName); err == nil {
			atomic.AddInt64(&shown, 1)
		}
		if c, err := r.Cookie("owner"); err != nil {
			http.SetCookie(w, &http.Cookie{Name: "owner", Value: owner, Path: "/"})
		} else if c.Value != owner {
			atomic.AddInt64(&mixed, 1)
		}
		w.WriteHeader(200)
	})
	h := cache.SessionHandler(backend, nil)
	const nsess, per, nreq = 8, 4, 12000
	var wg sync.WaitGroup
	for k := 0; k < nsess; k++ {
		owner := fmt.Sprintf("o%d", k)
		// first request: obtain the session cookie
		rec := httptest.NewRecorder()
		req := httptest.NewRequest("GET", "http://h1.example.com/", nil)
		req.Header.Set("X-Owner", owner)
		h.ServeHTTP(rec, req)
		var sc *http.Cookie
		for _, c := range rec.Result().Cookies() {
			if c.Name == sessCookieName {
				sc = c
			}
		}
		if sc == nil {
			fmt.Println("no session cookie issued")
			os.Exit(3)
		}
		for g := 0; g < per; g++ {
			wg.Add(1)
			go func() {
				defer wg.Done()
				for i := 0; i < nreq; i++ {
					rec := httptest.NewRecorder()
					req := httptest.NewRequest("GET", "http://h1.example.com/", nil)
					req.Header.Set("X-Owner", owner)
					req.AddCookie(&http.Cookie{Name: sessCookieName, Value: sc.Value})
					h.ServeHTTP(rec, req)
					atomic.AddInt64(&total, 1)
					if len(rec.Header().Values("Set-Cookie")) > 0 {
						atomic.AddInt64(&leaked, 1)
					}
				}
			}()
		}
	}
	wg.Wait()
	b, _ := json.Marshal(map[string]int64{"Requests": total, "Mixed": mixed, "Shown": shown, "Leaked": leaked})
	fmt.Println("STRESS " + string(b))
}

// sessionsBurstChild hammers one shared handler from many goroutines: requests of the same and of
// different sessions, first requests racing with each other.
func sessionsBurstChild() {
	ttl := time.Hour
	cache := sessions.NewCache(sessCookieName, ttl, 8, false)
	h := cache.SessionHandler(sessBackend, nil)
	var wg sync.WaitGroup
	var cl []*sessClient
	for k := 0; k < 12; k++ {
		cl = append(cl, newSessClient(fmt.Sprintf("B%s-%d", os.Getenv("VERIF_BURST"), k)))
	}
	ops := []string{"set", "overwrite", "path-scoped", "two-cookies", "none", "delete-maxage"}
	// every long-lived client obtains its session first; then all of them, plus one-shot clients
	// whose first requests race with everything else, hit the shared handler concurrently
	for _, c := range cl {
		oneRequest(h, c, sessStep{Host: "h1.example.com", Path: "/", Op: "set"}, "sequential", true, false, ttl, hx.Emit)
	}
	for g := 0; g < 24; g++ {
		wg.Add(1)
		go func(g int) {
			defer wg.Done()
			for i := 0; i < 40; i++ {
				c := cl[(g+i)%len(cl)]
				if i%5 == 4 {
					c = newSessClient(fmt.Sprintf("B%s-one-%d-%d", os.Getenv("VERIF_BURST"), g, i))
				}
				st := sessStep{Host: "h1.example.com", Path: []string{"/", "/a", "/a/b"}[i%3], Op: ops[(g+i)%len(ops)]}
				oneRequest(h, c, st, "concurrent", true, false, ttl, hx.Emit)
			}
		}(g)
	}
	wg.Wait()
}
