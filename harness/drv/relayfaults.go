package drv

import (
	"bytes"
	"encoding/json"
	"fmt"
	"io"
	"net"
	"net/http"
	"os"
	"strings"
	"sync"
	"sync/atomic"
	"time"

	"verifharness/hx"
)

// victimKind returns the fault marker of a token path (/t/.../v<kind>), or "".
func victimKind(path string) string {
	for _, seg := range strings.Split(path, "/") {
		if strings.HasPrefix(seg, "v") && len(seg) > 1 {
			return seg[1:]
		}
	}
	return ""
}

// backendMisbehave implements the scripted backend faults for marked requests.
func backendMisbehave(w http.ResponseWriter, r *http.Request, tok string) bool {
	kind := victimKind(r.URL.Path)
	if !strings.HasPrefix(kind, "be-") {
		return false
	}
	hj, ok := w.(http.Hijacker)
	if !ok {
		return false
	}
	conn, _, err := hj.Hijack()
	if err != nil {
		return false
	}
	defer conn.Close()
	hx.Emit("BackendFault", "tok", tok, "kind", kind)
	switch kind {
	case "be-close":
		// close before sending anything
	case "be-oddstatus":
		// a three-digit status outside 100..999 semantics: accepted by net/http clients, refused by its servers
		conn.Write([]byte("HTTP/1.1 042 Odd\r\nContent-Length: 2\r\nX-Token: " + tok + "\r\n\r\nok"))
		time.Sleep(20 * time.Millisecond)
	case "be-garbage":
		conn.Write([]byte("\x00\x01garbage that is not HTTP\r\n\r\n"))
	case "be-reset":
		conn.Write([]byte("HTTP/1.1 200 OK\r\nContent-Length: 100000\r\nX-Token: " + tok + "\r\nX-Token-Multi: " + tok + "\r\nX-Token-Multi: " + tok + "+2\r\n\r\npartial body"))
		if tc, ok := conn.(*net.TCPConn); ok {
			tc.SetLinger(0)
		}
	case "be-short":
		conn.Write([]byte("HTTP/1.1 200 OK\r\nTransfer-Encoding: chunked\r\nX-Token: " + tok + "\r\nX-Token-Multi: " + tok + "\r\nX-Token-Multi: " + tok + "+2\r\n\r\n5\r\nhello\r\nZZZ\r\n"))
	}
	return true
}

// chaosShim sits between the agent and the real proxy and injects a fault into the calls that
// belong to marked requests.
type chaosShim struct {
	silent  bool // volume scenarios: no per-call events
	ln      net.Listener
	srv     *http.Server
	target  string
	mu      sync.Mutex
	pathOf  map[string]string
	fetched map[string]*fetchReply
	faulted map[string]int
	listN   int
}

func newChaosShim(target string) *chaosShim {
	c := &chaosShim{target: target, pathOf: map[string]string{}, fetched: map[string]*fetchReply{}, faulted: map[string]int{}}
	c.ln = listen()
	c.srv = &http.Server{Handler: http.HandlerFunc(c.serve)}
	go c.srv.Serve(c.ln)
	return c
}

func (c *chaosShim) emit(ev string, kv ...interface{}) {
	if !c.silent {
		hx.Emit(ev, kv...)
	}
}

func (c *chaosShim) url() string { return "http://" + c.ln.Addr().String() + "/" }
func (c *chaosShim) close()      { c.srv.Close() }

var chaosClient = &http.Client{Transport: &http.Transport{MaxIdleConnsPerHost: 64}, Timeout: 70 * time.Second}

func (c *chaosShim) forward(w http.ResponseWriter, r *http.Request, body io.Reader) {
	req, _ := http.NewRequestWithContext(r.Context(), r.Method, "http://"+c.target+r.URL.Path, body)
	req.Header = r.Header.Clone()
	resp, err := chaosClient.Do(req)
	if err != nil {
		http.Error(w, "chaos shim: "+err.Error(), 502)
		return
	}
	defer resp.Body.Close()
	for k, v := range resp.Header {
		w.Header()[k] = v
	}
	w.WriteHeader(resp.StatusCode)
	io.Copy(w, resp.Body)
}

func (c *chaosShim) serve(w http.ResponseWriter, r *http.Request) {
	id := r.Header.Get("X-Inverting-Proxy-Request-ID")
	switch {
	case id == "":
		c.mu.Lock()
		c.listN++
		n := c.listN
		c.mu.Unlock()
		if n%5 == 3 {
			// a failing list call that loses no IDs: the agent must back off and list again
			c.emit("ListFault", "n", n)
			http.Error(w, "chaos: list failure", 503)
			return
		}
		c.forward(w, r, nil)
	case r.Method == http.MethodPost:
		c.mu.Lock()
		path := c.pathOf[id]
		c.mu.Unlock()
		switch victimKind(path) {
		case "post-reject":
			io.Copy(io.Discard, r.Body) // the response was produced: the backend answered
			c.mu.Lock()
			c.faulted[id]++
			first := c.faulted[id] == 1
			c.mu.Unlock()
			if first {
				c.emit("PostFault", "id", id)
			}
			http.Error(w, "chaos: upload rejected", 500)
		case "post-garble":
			b, _ := io.ReadAll(r.Body)
			b = append([]byte("NOT-HTTP "), b...)
			c.forward(w, r, bytes.NewReader(b))
			c.emit("PostFault", "id", id)
		case "post-cut":
			// the upload reaches the proxy, but the connection dies in the middle of the posted response's
			// header block (an agent that crashes or times out while uploading); the agent sees a reset
			head := make([]byte, 24)
			k, _ := io.ReadFull(r.Body, head)
			if pc, err := net.DialTimeout("tcp", c.target, 3*time.Second); err == nil {
				fmt.Fprintf(pc, "POST %s HTTP/1.1\r\nHost: %s\r\nTransfer-Encoding: chunked\r\n", r.URL.Path, c.target)
				for _, hn := range []string{"X-Inverting-Proxy-Backend-ID", "X-Inverting-Proxy-Request-ID"} {
					fmt.Fprintf(pc, "%s: %s\r\n", hn, r.Header.Get(hn))
				}
				fmt.Fprintf(pc, "\r\n%x\r\n%s\r\n", k, head[:k])
				time.Sleep(5 * time.Millisecond)
				pc.Close()
			}
			c.mu.Lock()
			c.faulted[id]++
			first := c.faulted[id] == 1
			c.mu.Unlock()
			if first {
				c.emit("PostFault", "id", id)
			}
			if hj, ok := w.(http.Hijacker); ok {
				if conn, _, err := hj.Hijack(); err == nil {
					if tc, ok := conn.(*net.TCPConn); ok {
						tc.SetLinger(0)
					}
					conn.Close()
					return
				}
			}
			http.Error(w, "chaos", 500)
		case "post-reset":
			buf := make([]byte, 10)
			io.ReadFull(r.Body, buf)
			if hj, ok := w.(http.Hijacker); ok {
				if conn, _, err := hj.Hijack(); err == nil {
					if tc, ok := conn.(*net.TCPConn); ok {
						tc.SetLinger(0)
					}
					conn.Close()
					return
				}
			}
			http.Error(w, "chaos", 500)
		default:
			c.forward(w, r, r.Body)
		}
	default:
		// fetch: the shim fetches from the real proxy on the agent's behalf exactly once per ID
		// (so it learns the token), then either hands the reply on or injects the fault.
		c.mu.Lock()
		cached, seen := c.fetched[id]
		c.mu.Unlock()
		if !seen {
			req, _ := http.NewRequest("GET", "http://"+c.target+r.URL.Path, nil)
			req.Header = r.Header.Clone()
			resp, err := chaosClient.Do(req)
			if err != nil {
				http.Error(w, "chaos shim: "+err.Error(), 502)
				return
			}
			b, _ := io.ReadAll(resp.Body)
			resp.Body.Close()
			cached = &fetchReply{status: resp.StatusCode, header: resp.Header, body: b}
			line := strings.SplitN(string(b), "\r\n", 2)[0]
			if f := strings.Fields(line); len(f) >= 2 {
				cached.path = f[1]
			}
			c.mu.Lock()
			c.fetched[id] = cached
			c.pathOf[id] = cached.path
			c.mu.Unlock()
			if strings.HasPrefix(victimKind(cached.path), "fetch-") {
				c.emit("FetchFault", "id", id)
			}
		}
		switch victimKind(cached.path) {
		case "fetch-500":
			http.Error(w, "chaos: fetch failure", 500)
		case "fetch-404":
			http.Error(w, "chaos: not found", 404)
		case "fetch-nonhttp", "fetch-reset":
			// transport-level failure of every fetch attempt: no (valid) HTTP reply at all
			if hj, ok := w.(http.Hijacker); ok {
				if conn, _, err := hj.Hijack(); err == nil {
					if victimKind(cached.path) == "fetch-nonhttp" {
						conn.Write([]byte("\x01\x02 definitely not http\r\n\r\n"))
					} else if tc, ok := conn.(*net.TCPConn); ok {
						tc.SetLinger(0)
					}
					conn.Close()
					return
				}
			}
			http.Error(w, "chaos", 500)
		case "fetch-garbled":
			w.Header().Set("X-Inverting-Proxy-Request-Start-Time", time.Now().Format(time.RFC3339Nano))
			w.WriteHeader(200)
			w.Write([]byte("\x00\x00 this is not an HTTP request\r\n\r\n"))
		default:
			for k, v := range cached.header {
				w.Header()[k] = v
			}
			w.WriteHeader(cached.status)
			w.Write(cached.body)
		}
	}
}

type fetchReply struct {
	status int
	header http.Header
	body   []byte
	path   string
}

// relayFaults: C07. Healthy concurrent traffic around one faulty request per scenario; the
// oracle (RelayTrace) is that every client not hit by the fault gets its own OK response, the
// victim of an unreachable backend gets a 502, and the agent process survives.
func relayFaults(a *Args) {
	res := a.Res
	rng := hx.Rand("relay-faults")
	kinds := []string{"be-close", "be-oddstatus", "be-garbage", "be-reset", "be-short", "fetch-500", "fetch-404", "fetch-garbled", "fetch-nonhttp", "fetch-reset",
		"post-reject", "post-garble", "post-reset", "post-cut", "shim-input", "backend-down"}
	positions := []int{2}
	if hx.Thorough() {
		positions = []int{0, 3, 7, 9}
	}
	n := 0
	for _, kind := range kinds {
		for _, pos := range positions {
			seg := fmt.Sprintf("fault-%s-pos%d", kind, pos)
			hx.Reset(seg, "relay-fault-"+kind)
			var agentArgs []string
			if kind == "shim-input" {
				agentArgs = []string{"--shim-websockets", "--shim-path=shimx"}
			}
			e := &relayEnv{md: hx.StartMetadata(), backend: newEchoBackend()}
			e.backend.misbehave = backendMisbehave
			var err error
			e.proxy, e.port, err = hx.StartProxy(hx.Bin("proxy"), nil)
			if err != nil {
				res.Bad("cannot start proxy: %v", err)
				e.stop()
				return
			}
			shim := newChaosShim(e.proxyAddr())
			backendHost := e.backend.addr()
			if kind == "backend-down" {
				backendHost = fmt.Sprintf("127.0.0.1:%d", hx.FreePort())
			}
			// error paths of the agent run concurrently with its poll loop: use the race-detector build where
			// there is one (a report with repository frames makes the agent exit: halt_on_error)
			agentBin, agentEnv := hx.Bin("agent"), []string(nil)
			if _, serr := os.Stat(hx.Bin("agent-race")); serr == nil {
				agentBin, agentEnv = hx.Bin("agent-race"), []string{"GORACE=halt_on_error=1"}
			}
			e.agent, err = hx.StartAgent(agentBin, e.md, shim.url(), backendHost, "agent", agentArgs, agentEnv)
			if err != nil {
				res.Bad("cannot start agent: %v", err)
				shim.close()
				e.stop()
				return
			}
			total := 10
			var wg sync.WaitGroup
			run := func(path string, victim bool, timeout time.Duration) {
				defer wg.Done()
				if victim {
					hx.Emit("Fault", "r", path, "kind", kind)
				}
				k, t := relayClient(e.proxyAddr(), path, timeout)
				if k == "none" {
					hx.Emit("ClientGaveUp", "r", path)
					return
				}
				hx.Emit("ClientRecv", "r", path, "kind", k, "tok", t)
			}
			if kind == "backend-down" {
				// every request is a victim of the unreachable backend and must get a 502
				for c := 0; c < 6; c++ {
					n++
					wg.Add(1)
					go run(relayPath(rng, n, []int{0, 100})+"/vbackend-down", true, 20*time.Second)
				}
				wg.Wait()
			} else {
				// warm-up probe, then a burst with the victim at position pos, then a probe afterwards
				n++
				wg.Add(1)
				run(relayPath(rng, n, []int{10}), false, 10*time.Second)
				for c := 0; c < total; c++ {
					n++
					if c == pos {
						wg.Add(1)
						if kind == "shim-input" {
							go shimInputVictims(res, e.proxyAddr(), &wg, n)
						} else {
							go run(relayPath(rng, n, []int{100, 5000})+"/v"+kind, true, 4*time.Second)
						}
						continue
					}
					wg.Add(1)
					go run(relayPath(rng, n, []int{0, 1, 100, 5000, 70000}), false, 10*time.Second)
					if c%3 == 0 {
						time.Sleep(time.Millisecond)
					}
				}
				wg.Wait()
				n++
				wg.Add(1)
				run(relayPath(rng, n, []int{10}), false, 10*time.Second)
			}
			e.finalEvent(res)
			res.Case("fault:"+kind+fmt.Sprintf(":pos%d", pos), map[string]interface{}{"kind": kind, "position": pos, "healthy_concurrent": total - 1})
			// (the agent goes first: closing the shim under a live agent makes the agent's transport retry its
			// pending list call on another pooled connection while the shim is still closing them one by one)
			e.agent.Kill()
			shim.close()
			e.stop()
		}
	}
	faultVolume(res)
}

// faultVolume: many exchanges fail in the same way over the life of one agent (here: the upload of the response is
// reset on every attempt), one after the other with healthy requests in between; after the last of them healthy
// requests are still served.  No per-request events (hooks off); one summary event.
func faultVolume(res *hx.Result) {
	victims := 130
	if hx.Thorough() {
		victims = 1100
	}
	hx.Reset("fault-volume", "relay-fault-volume:post-reset+post-cut")
	e := &relayEnv{md: hx.StartMetadata(), backend: newEchoBackend()}
	e.backend.silent = true
	var err error
	e.proxy, e.port, err = hx.StartProxy(hx.Bin("proxy"), []string{"VERIF_TRACE="})
	if err != nil {
		res.Bad("cannot start proxy: %v", err)
		e.stop()
		return
	}
	shim := newChaosShim(e.proxyAddr())
	shim.silent = true
	defer shim.close()
	defer e.stop()
	e.agent, err = hx.StartAgent(hx.Bin("agent"), e.md, shim.url(), e.backend.addr(), "agent", nil, []string{"VERIF_TRACE="})
	if err != nil {
		res.Bad("cannot start agent: %v", err)
		return
	}
	var ok, wrong, unanswered, other int64
	var example atomic.Value
	healthy := func(path string) {
		k, t := relayClientOpt(e.proxyAddr(), path, 15*time.Second, false)
		switch {
		case k == "ok" && t == path:
			atomic.AddInt64(&ok, 1)
		case k == "none":
			atomic.AddInt64(&unanswered, 1)
			example.Store("no response for " + path)
		case k == "ok" || strings.HasPrefix(k, "mixed"):
			atomic.AddInt64(&wrong, 1)
			example.Store(fmt.Sprintf("request %s received the response of %s (%s)", path, t, k))
		default:
			atomic.AddInt64(&other, 1)
			example.Store(fmt.Sprintf("request %s: %s", path, k))
		}
	}
	healthy("/t/xwarm0000/b10/l0/q0/m2")
	healthyN := 1
	// victims in groups of ten at a time (their clients give up after 0.4 s), a healthy request after every group
	for g := 0; g*10 < victims; g++ {
		var wg sync.WaitGroup
		for i := 0; i < 10 && g*10+i < victims; i++ {
			wg.Add(1)
			go func(n int) {
				defer wg.Done()
				// (alternately: the agent's upload is reset before it reaches the proxy / reaches the proxy cut inside its head)
				kind := []string{"post-reset", "post-cut"}[n%2]
				relayClientOpt(e.proxyAddr(), fmt.Sprintf("/t/xvictim%05d/b100/l0/q0/m1/v%s", n, kind), 400*time.Millisecond, false)
			}(g*10 + i)
		}
		wg.Wait()
		healthy(fmt.Sprintf("/t/xhealthy%04d/b50/l0/q0/m0", g))
		healthyN++
	}
	time.Sleep(1500 * time.Millisecond) // the last uploads have failed for good
	for i := 0; i < 5; i++ {
		healthy(fmt.Sprintf("/t/xafter%04d/b50/l0/q0/m1", i))
		healthyN++
	}
	// ... and two bursts of healthy requests at the same time (what the failures left behind may only show when
	// several responses are in flight together)
	for b := 0; b < 2; b++ {
		var wg sync.WaitGroup
		for i := 0; i < 32; i++ {
			wg.Add(1)
			healthyN++
			go func(i int) {
				defer wg.Done()
				healthy(fmt.Sprintf("/t/xburst%d%04d/b%d/l%d/q0/m%d", b, i, []int{50, 5000, 70000}[i%3], i%7, i%3))
			}(i)
		}
		wg.Wait()
	}
	aEx, _ := e.agent.Exited()
	pEx, _ := e.proxy.Exited()
	ex, _ := example.Load().(string)
	hx.Emit("FaultVolume", "victims", victims, "healthy", healthyN, "ok", ok, "wrong", wrong, "unanswered", unanswered, "other", other,
		"agent_alive", !aEx, "proxy_alive", !pEx, "example", ex)
	res.Case("fault-volume:post-reset+post-cut", map[string]interface{}{"failed_exchanges": victims, "healthy_requests": healthyN, "healthy_ok": ok})
}

// MsgShapes are the JSON shapes a shim data call may carry as "msg": the shapes the shim accepts
// (string, one-element array holding a base64 string) and every near miss of them.
var MsgShapes = []struct {
	Name, JSON string
	Valid      bool
}{
	{"string", `"hello"`, true}, {"empty-string", `""`, true}, {"blob", `["aGVsbG8="]`, true}, {"blob-empty", `[""]`, true},
	{"blob-bad-base64", `["!!!not base64!!!"]`, false}, {"empty-array", `[]`, false}, {"array-number", `[42]`, false},
	{"array-null", `[null]`, false}, {"array-bool", `[true]`, false}, {"array-object", `[{}]`, false},
	{"array-array", `[["aGk="]]`, false}, {"array-two", `["aGk=","aGk="]`, false}, {"number", `42`, false},
	{"bool", `true`, false}, {"null", `null`, false}, {"object", `{"a":1}`, false}, {"missing", ``, false},
}

func shapedData(sid, shape string) string {
	if shape == "" {
		return fmt.Sprintf(`[{"id":%q}]`, sid)
	}
	return fmt.Sprintf(`[{"id":%q,"msg":%s}]`, sid, shape)
}

// shimInputVictims sends malformed calls to the websocket-shim endpoints through the proxy: first
// against sessions that do not exist, then - after opening a real session against the backend's
// websocket endpoint - every message shape of MsgShapes on the live session. Each call is a
// client request of its own (token = request URI, made unique by a query string).
func shimInputVictims(res *hx.Result, proxyAddr string, wg *sync.WaitGroup, n int) {
	defer wg.Done()
	i := 0
	post := func(ep, body string) (int, []byte) {
		i++
		p := fmt.Sprintf("/shimx/%s?u=%d-%d", ep, n, i)
		hx.Emit("Fault", "r", p, "kind", "shim-input")
		req, _ := http.NewRequest("POST", "http://"+proxyAddr+p, strings.NewReader(body))
		req.Header.Set("X-Websocket-Shim-Version", "1")
		tr := &http.Transport{DisableKeepAlives: true}
		cl := &http.Client{Transport: tr, Timeout: 10 * time.Second}
		hx.Emit("ClientSend", "r", p)
		resp, err := cl.Do(req)
		if err != nil {
			hx.Emit("ClientGaveUp", "r", p)
			return 0, nil
		}
		b, _ := io.ReadAll(resp.Body)
		resp.Body.Close()
		kind := fmt.Sprintf("status%d", resp.StatusCode)
		if resp.StatusCode == 502 {
			kind = "502"
		}
		hx.Emit("ClientRecv", "r", p, "kind", kind, "tok", p)
		return resp.StatusCode, b
	}
	for _, b := range []struct{ ep, body string }{
		{"open", "::::not a url"}, {"data", "not json"}, {"data", `[{"id":"nope","msg":"x"}]`},
		{"poll", `{"id":"zzz"}`}, {"close", `{"id":"zzz"}`}, {"data", `[{"id":"1","msg":{"a":1}}]`}, {"poll", `[1,2`},
	} {
		post(b.ep, b.body)
	}
	// a live session, then every message shape on it
	st, body := post("open", "ws://"+proxyAddr+"/ws-echo")
	var r struct {
		ID string `json:"id"`
	}
	json.Unmarshal(body, &r)
	hx.Emit("ShimSession", "status", st, "opened", st == 200 && r.ID != "")
	if st != 200 || r.ID == "" {
		if st == 0 {
			// no answer at all: the agent or the proxy is gone - the scenario's Final event says so; not a harness failure
			res.Note("shim-input: no answer to the shim open call (the agent is not serving)")
			return
		}
		res.Bad("shim-input: could not open a live shim session through the agent (status %d): the message shapes were not exercised", st)
		return
	}
	for _, sh := range MsgShapes {
		post("data", shapedData(r.ID, sh.JSON))
	}
	post("data", `[{"id":"`+r.ID+`","msg":"one"},{"id":"`+r.ID+`","msg":[]},{"id":"`+r.ID+`","msg":"two"}]`)
	post("poll", fmt.Sprintf(`{"id":%q}`, r.ID))
	post("close", fmt.Sprintf(`{"id":%q}`, r.ID))
	post("close", fmt.Sprintf(`{"id":%q}`, r.ID))
	// history: after all the calls that were refused (the second close among them), a healthy exchange on a new
	// session is served as if nothing had happened - what a refused call leaves behind must not reach later ones
	st1, body1 := post("open", "ws://"+proxyAddr+"/ws-echo")
	var r2 struct {
		ID string `json:"id"`
	}
	json.Unmarshal(body1, &r2)
	if st1 == 0 {
		res.Note("shim-input: no answer to the second shim open call (the agent is not serving)")
		return
	}
	st2, _ := post("data", fmt.Sprintf(`[{"id":%q,"msg":"ping-after-faults"}]`, r2.ID))
	st3, body3 := post("poll", fmt.Sprintf(`{"id":%q}`, r2.ID))
	st4, _ := post("close", fmt.Sprintf(`{"id":%q}`, r2.ID))
	ok := st1 == 200 && r2.ID != "" && st2 == 200 && st3 == 200 && strings.Contains(string(body3), "ping-after-faults") && st4 == 200
	hx.Emit("ShimHealthy", "ok", ok, "open", st1, "data", st2, "poll", st3, "close", st4)
}
