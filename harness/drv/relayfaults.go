package drv

// relayFaults is the C07 driver (fault injection around healthy traffic); see c07 in props.py.
func relayFaults(a *Args) {
	a.Res.Bad("faults mode not built yet")
}
