// Package drv contains one driver per specification module.
package drv

import (
	"bufio"
	"net"

	"verifharness/hx"
)

// Args are the common driver arguments.
type Args struct {
	Cases string
	Mode  string
	Res   *hx.Result
}

// Drivers maps driver names to their entry points.
var Drivers = map[string]func(*Args){}

func listen() net.Listener {
	ln, err := net.Listen("tcp", "127.0.0.1:0")
	if err != nil {
		panic(err)
	}
	return ln
}

func newBufReader(c net.Conn) *bufio.Reader { return bufio.NewReaderSize(c, 64*1024) }
