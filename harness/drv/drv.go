// Package drv contains one driver per specification module.
package drv

import "verifharness/hx"

// Args are the common driver arguments.
type Args struct {
	Cases string
	Mode  string
	Res   *hx.Result
}

// Drivers maps driver names to their entry points.
var Drivers = map[string]func(*Args){}
