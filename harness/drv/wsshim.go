package drv

import (
	"bytes"
	"context"
	"encoding/base64"
	"encoding/json"
	"fmt"
	"io"
	"math/big"
	"math/rand"
	"net"
	"net/http"
	"net/http/httptest"
	"net/url"
	"os"
	"os/exec"
	"reflect"
	"sort"
	"strconv"
	"strings"
	"sync"
	"sync/atomic"
	"time"

	"github.com/gorilla/websocket"

	"github.com/google/inverting-proxy/agent/metrics"
	"github.com/google/inverting-proxy/agent/websockets"
	"github.com/google/inverting-proxy/verifhook"

	"verifharness/hx"
)

func init() {
	Drivers["wsmsg"] = wsMsgDriver
	Drivers["wscalls"] = wsCallsDriver
	Drivers["wsurls"] = wsURLDriver
}

type wsMsg struct {
	typ     int
	payload []byte
}

// wsBackend is a real gorilla websocket server that records what it receives per session label.
type wsBackend struct {
	srv   *httptest.Server
	mu    sync.Mutex
	conns map[string]*websocket.Conn
	sidOf map[string]string        // label -> shim session id
	sentC map[string]map[int]wsMsg // label -> client message n -> what the client sent
	paths map[string][2]string     // label -> path, query seen at the handshake
	hdrs  map[string]http.Header
	wmu   map[string]*sync.Mutex
	gone  map[string]bool // the backend closed this connection itself
	rcnt  map[string]int  // label -> non-empty messages received
	seenC map[string]bool // label -> the backend observed the close
}

func (b *wsBackend) received(label string) int {
	b.mu.Lock()
	defer b.mu.Unlock()
	return b.rcnt[label]
}

func (b *wsBackend) sawClose(label string) bool {
	b.mu.Lock()
	defer b.mu.Unlock()
	return b.seenC[label]
}

func newWsBackend() *wsBackend {
	b := &wsBackend{conns: map[string]*websocket.Conn{}, sidOf: map[string]string{}, sentC: map[string]map[int]wsMsg{},
		paths: map[string][2]string{}, hdrs: map[string]http.Header{}, wmu: map[string]*sync.Mutex{}, gone: map[string]bool{},
		rcnt: map[string]int{}, seenC: map[string]bool{}}
	up := websocket.Upgrader{CheckOrigin: func(*http.Request) bool { return true }}
	b.srv = httptest.NewServer(http.HandlerFunc(func(w http.ResponseWriter, r *http.Request) {
		label := r.URL.Query().Get("s")
		if strings.HasPrefix(r.URL.Path, "/redir/") {
			// an open-redirect endpoint of the backend: answers (also a websocket handshake) with a redirect
			code, _ := strconv.Atoi(strings.TrimPrefix(r.URL.Path, "/redir/"))
			w.Header().Set("Location", r.URL.Query().Get("to"))
			w.WriteHeader(code)
			return
		}
		if !websocket.IsWebSocketUpgrade(r) {
			w.Header().Set("X-Plain", "1")
			w.Write([]byte("plain:" + r.URL.RequestURI()))
			return
		}
		c, err := up.Upgrade(w, r, nil)
		if err != nil {
			return
		}
		b.mu.Lock()
		b.conns[label] = c
		b.paths[label] = [2]string{r.URL.EscapedPath(), r.URL.RawQuery}
		b.hdrs[label] = r.Header.Clone()
		b.hdrs[label].Set("X-Seen-Host", r.Host) // (the Host of the handshake, kept with the other header fields)
		b.wmu[label] = &sync.Mutex{}
		wmu := b.wmu[label]
		b.mu.Unlock()
		if strings.HasPrefix(label, "wo-") {
			// a backend that only writes (an event stream): it never reads, so it never answers a close
			// frame; it notices the end of the connection when a write fails
			go func() {
				for i := 0; i < 400; i++ {
					time.Sleep(25 * time.Millisecond)
					wmu.Lock()
					err := c.WriteControl(websocket.PingMessage, nil, time.Now().Add(time.Second))
					wmu.Unlock()
					if err != nil {
						hx.Emit("BackendSawClose", "sid", b.sid(label), "how", "write failed")
						b.mu.Lock()
						b.seenC[label] = true
						b.mu.Unlock()
						return
					}
				}
			}()
			return
		}
		go b.readLoop(label, c)
	}))
	return b
}

func (b *wsBackend) host() string { return strings.TrimPrefix(b.srv.URL, "http://") }

func (b *wsBackend) sid(label string) string {
	for i := 0; i < 400; i++ {
		b.mu.Lock()
		s := b.sidOf[label]
		b.mu.Unlock()
		if s != "" {
			return s
		}
		time.Sleep(5 * time.Millisecond)
	}
	return "?"
}

func (b *wsBackend) readLoop(label string, c *websocket.Conn) {
	if strings.HasPrefix(label, "churn") {
		// sessions that only exist to be counted: no events
		for {
			if _, _, err := c.ReadMessage(); err != nil {
				return
			}
		}
	}
	if strings.HasPrefix(label, "stall-") {
		time.Sleep(6500 * time.Millisecond) // a backend that is busy for a while before it reads again
	}
	for {
		typ, data, err := c.ReadMessage()
		if err != nil {
			hx.Emit("BackendSawClose", "sid", b.sid(label))
			b.mu.Lock()
			b.seenC[label] = true
			b.mu.Unlock()
			return
		}
		if len(data) == 0 {
			hx.Emit("BackendRecvEmpty", "sid", b.sid(label), "typ", typ)
			continue
		}
		// payload = "<n>:" + body
		n := 0
		if i := bytes.IndexByte(data, ':'); i > 0 {
			fmt.Sscanf(string(data[:i]), "%d", &n)
		}
		var jn struct {
			N int `json:"n"`
		}
		if n == 0 && json.Unmarshal(data, &jn) == nil {
			n = jn.N
		}
		b.mu.Lock()
		want, ok := b.sentC[label][n]
		b.rcnt[label]++
		b.mu.Unlock()
		same := ok && want.typ == typ && bytes.Equal(want.payload, data)
		if ok && !same && want.typ == typ && len(want.payload) > 0 && want.payload[0] == '{' {
			same = jsonEqualAfterInjection(want.payload, data)
		}
		if same {
			hx.Emit("BackendRecv", "sid", b.sid(label), "n", n, "same", same, "len", len(data))
		} else {
			hx.Emit("BackendRecv", "sid", b.sid(label), "n", n, "same", same, "len", len(data), "got", headOf(data, 300), "want", headOf(want.payload, 300))
		}
	}
}

func (b *wsBackend) send(label string, n int, m wsMsg) bool {
	var c *websocket.Conn
	var mu *sync.Mutex
	for i := 0; i < 400; i++ {
		b.mu.Lock()
		c = b.conns[label]
		mu = b.wmu[label]
		b.mu.Unlock()
		if c != nil {
			break
		}
		time.Sleep(5 * time.Millisecond) // the handshake handler registers the connection a moment after the dial returns
	}
	b.mu.Lock()
	gone := b.gone[label]
	b.mu.Unlock()
	if c == nil || gone {
		return false
	}
	hx.Emit("BackendSend", "sid", b.sid(label), "n", n)
	mu.Lock()
	defer mu.Unlock()
	return c.WriteMessage(m.typ, m.payload) == nil
}

func (b *wsBackend) closeConn(label string) {
	b.mu.Lock()
	c := b.conns[label]
	b.gone[label] = true
	b.mu.Unlock()
	if c != nil {
		hx.Emit("BackendClose", "sid", b.sid(label))
		c.Close()
	}
}

// injectedHeaders are the request headers of every data post when injection is on.
var injectedHeaders = map[string]string{"X-Inject-A": "alpha", "Authorization": "Bearer tok", "Content-Type": "application/json", "X-Websocket-Shim-Version": "1"}

// jsonEqualAfterInjection: got must equal want as JSON values except that resource.headers gained
// exactly the request headers that were not present.
func jsonEqualAfterInjection(want, got []byte) bool {
	dec := func(b []byte) (map[string]interface{}, bool) {
		d := json.NewDecoder(bytes.NewReader(b))
		d.UseNumber()
		var v map[string]interface{}
		if d.Decode(&v) != nil {
			return nil, false
		}
		return v, true
	}
	w, ok1 := dec(want)
	g, ok2 := dec(got)
	if !ok1 || !ok2 {
		return false
	}
	res, ok := w["resource"].(map[string]interface{})
	if !ok {
		return jsonValuesEqual(w, g)
	}
	hd, ok := res["headers"].(map[string]interface{})
	if !ok {
		return jsonValuesEqual(w, g)
	}
	for k, v := range injectedHeaders {
		if _, present := hd[k]; !present {
			hd[k] = v
		}
	}
	// ... and the header that differs from post to post: its value must be that of (one of) the post(s) that carried
	// this very message - not what an earlier post of the session had
	if _, present := hd["X-Post-Seq"]; !present {
		if gr, ok := g["resource"].(map[string]interface{}); ok {
			if gh, ok := gr["headers"].(map[string]interface{}); ok {
				if v, ok := gh["X-Post-Seq"].(string); ok {
					if allowed, _ := postSeqs.Load(string(want)); allowed != nil {
						for _, a := range allowed.([]string) {
							if a == v {
								hd["X-Post-Seq"] = v
							}
						}
					}
				}
			}
		}
	}
	return jsonValuesEqual(w, g)
}

// postSeqs: message payload -> values of X-Post-Seq of the data posts that carried it (injection on)
var postSeqs sync.Map
var postSeqCtr int64

// notePost gives a data post its own X-Post-Seq value and remembers which messages it carries.
func notePost(req *http.Request, body string) {
	k := fmt.Sprintf("post-%d", atomic.AddInt64(&postSeqCtr, 1))
	req.Header.Set("X-Post-Seq", k)
	var arr []struct {
		Msg json.RawMessage `json:"msg"`
	}
	if json.Unmarshal([]byte(body), &arr) != nil {
		return
	}
	for _, e := range arr {
		var text string
		var bin []string
		payload := ""
		if json.Unmarshal(e.Msg, &text) == nil {
			payload = text
		} else if json.Unmarshal(e.Msg, &bin) == nil && len(bin) == 1 {
			if b, err := base64.StdEncoding.DecodeString(bin[0]); err == nil {
				payload = string(b)
			}
		} else {
			continue
		}
		prev, _ := postSeqs.Load(payload)
		var l []string
		if prev != nil {
			l = append(l, prev.([]string)...)
		}
		postSeqs.Store(payload, append(l, k))
	}
}

// jsonValuesEqual compares decoded JSON values; numbers (json.Number) are compared by their exact
// mathematical value, so 1e3 equals 1000 but 9007199254740993 differs from 9007199254740992.
func jsonValuesEqual(a, b interface{}) bool {
	switch x := a.(type) {
	case map[string]interface{}:
		y, ok := b.(map[string]interface{})
		if !ok || len(x) != len(y) {
			return false
		}
		for k, v := range x {
			w, ok := y[k]
			if !ok || !jsonValuesEqual(v, w) {
				return false
			}
		}
		return true
	case []interface{}:
		y, ok := b.([]interface{})
		if !ok || len(x) != len(y) {
			return false
		}
		for i := range x {
			if !jsonValuesEqual(x[i], y[i]) {
				return false
			}
		}
		return true
	case json.Number:
		y, ok := b.(json.Number)
		if !ok {
			return false
		}
		p, ok1 := new(big.Rat).SetString(string(x))
		q, ok2 := new(big.Rat).SetString(string(y))
		return ok1 && ok2 && p.Cmp(q) == 0
	default:
		return reflect.DeepEqual(a, b)
	}
}

// shimClient plays the injected browser shim against the handler.
type shimClient struct {
	h        http.Handler
	prefix   string
	inject   bool
	panicked bool
	mu       sync.Mutex
}

func (s *shimClient) call(ep, body string, version string) (status int, respBody []byte) {
	var rd io.Reader = strings.NewReader(body)
	if atomic.AddInt64(&shimCallSeq, 1)%3 == 0 {
		// every third call carries its body without an announced length (Transfer-Encoding: chunked: a streamed
		// fetch body, an intermediary that re-frames)
		rd = struct{ io.Reader }{rd}
	}
	req := httptest.NewRequest("POST", "http://svc.example"+s.prefix+"/"+ep, rd)
	if req.ContentLength < 0 {
		req.TransferEncoding = []string{"chunked"}
	}
	req.Host = "svc.example"
	if version != "" {
		req.Header.Set("X-Websocket-Shim-Version", version)
	}
	if s.inject && ep == "data" {
		for k, v := range injectedHeaders {
			req.Header.Set(k, v)
		}
		notePost(req, body)
	}
	rec := httptest.NewRecorder()
	done := make(chan struct{})
	go func() {
		defer close(done)
		defer func() {
			if r := recover(); r != nil {
				s.mu.Lock()
				s.panicked = true
				s.mu.Unlock()
				hx.Emit("Panic", "where", ep, "what", fmt.Sprint(r))
				rec.Code = 0
			}
		}()
		s.h.ServeHTTP(rec, req)
	}()
	select {
	case <-done:
	case <-time.After(30 * time.Second):
		hx.Emit("Wedged", "where", ep)
		return -1, nil
	}
	return rec.Code, rec.Body.Bytes()
}

// abandonedPoll issues a poll whose client goes away after `after` (the request context is cancelled, as
// net/http does when the connection of a served request is closed) and returns once the handler is done.
func (s *shimClient) abandonedPoll(sid string, after time.Duration) {
	ctx, cancel := context.WithCancel(context.Background())
	req := httptest.NewRequest("POST", "http://svc.example"+s.prefix+"/poll", strings.NewReader(fmt.Sprintf(`{"id":%q}`, sid))).WithContext(ctx)
	req.Host = "svc.example"
	req.Header.Set("X-Websocket-Shim-Version", "1")
	done := make(chan struct{})
	go func() {
		defer close(done)
		defer func() { recover() }()
		s.h.ServeHTTP(httptest.NewRecorder(), req)
	}()
	time.Sleep(after)
	cancel()
	select {
	case <-done:
	case <-time.After(25 * time.Second): // (the handler may sit out its own 20 s poll timeout)
	}
}

func newShim(backendHost string, inject bool) (*shimClient, context.CancelFunc) {
	return newShimOpt(backendHost, inject, false)
}

// newShimOpt: rewriteHost is the shim's option --rewrite-websocket-host (the handshake carries the Host of the
// client's request instead of the backend's address).
func newShimOpt(backendHost string, inject, rewriteHost bool) (*shimClient, context.CancelFunc) {
	ctx, cancel := context.WithCancel(context.Background())
	wrapped := http.HandlerFunc(func(w http.ResponseWriter, r *http.Request) {
		w.Header().Set("X-Wrapped", "1")
		w.Write([]byte("wrapped:" + r.URL.RequestURI()))
	})
	h, _ := websockets.Proxy(ctx, wrapped, backendHost, "/shimq", rewriteHost, inject,
		func(h http.Handler, _ *metrics.MetricHandler) http.Handler { return h }, nil)
	return &shimClient{h: h, prefix: "/shimq", inject: inject}, cancel
}

func (s *shimClient) open(b *wsBackend, label, version string) (sid string, status int) {
	st, body := s.call("open", "ws://svc.example/ws/"+label+"?s="+label, version)
	if st != 200 {
		hx.Emit("WsOpenFailed", "status", st)
		return "", st
	}
	var r struct {
		ID string `json:"id"`
		V  int    `json:"v"`
	}
	json.Unmarshal(body, &r)
	b.mu.Lock()
	b.sidOf[label] = r.ID
	b.sentC[label] = map[int]wsMsg{}
	b.mu.Unlock()
	hx.Emit("WsOpened", "sid", r.ID, "v", r.V)
	return r.ID, st
}

var shimCallSeq int64 // shim calls made so far (every third one is sent without Content-Length)

var textSeq [2]int64 // text messages generated so far, per direction (0 = client to server, 1 = server to client)

func randomMsg(rng *rand.Rand, n int, big bool, inject bool, dir int) wsMsg {
	size := []int{0, 1, 10, 200, 5000}[rng.Intn(5)]
	if big {
		size = 1 << 20
	}
	switch rng.Intn(4) {
	case 0: // binary, arbitrary bytes
		p := make([]byte, size)
		rng.Read(p)
		return wsMsg{websocket.BinaryMessage, append([]byte(fmt.Sprintf("%d:", n)), p...)}
	case 1: // text over the character classes exported by TLC (WsShimGen.TextClasses); the k-th text message of
		// a direction always contains class k mod |classes|, so that every class travels in both directions
		al := textAlphabet()
		var sb strings.Builder
		fmt.Fprintf(&sb, "%d:", n)
		k := atomic.AddInt64(&textSeq[dir], 1)
		sb.WriteString(al[int(k)%len(al)])
		for sb.Len() < size {
			sb.WriteString(al[rng.Intn(len(al))])
		}
		return wsMsg{websocket.TextMessage, []byte(sb.String())}
	case 2: // JSON object with resource.headers (changed only when injection is on)
		extra := []string{`"id":9007199254740993`, `"f":1.5`, `"e":1e3`, `"t":true,"z":null`, `"s":"<>&😀"`, `"nested":{"a":[1,2,{"b":"c"}]}`}[rng.Intn(6)]
		hdrs := []string{`{}`, `{"X-Inject-A":"keep-me"}`, `{"Other":"v"}`}[rng.Intn(3)]
		typ := websocket.TextMessage
		if rng.Intn(3) == 0 {
			typ = websocket.BinaryMessage // (a JSON document may just as well travel in a binary frame: Blob / ArrayBuffer)
		}
		return wsMsg{typ, []byte(fmt.Sprintf(`{"n":%d,%s,"resource":{"headers":%s,"path":"/x"}}`, n, extra, hdrs))}
	default: // JSON that does not match the injection path
		return wsMsg{websocket.TextMessage, []byte(fmt.Sprintf(`{"n":%d,"resource":"not-an-object","k":[1,2,3]}`, n))}
	}
}

// TextClassNames is set from the case file (WsShimGen.TextClasses).
var TextClassNames []string

var textClassChars = map[string]string{"ascii": "a", "quote": "\"", "backslash": "\\", "lt": "<", "gt": ">", "amp": "&", "latin1": "é", "astral": "😀",
	"newline": "\n", "cr": "\r", "tab": "\t", "space": " ", "nbsp": "\u00a0", "replacement-char": "\ufffd", "bom": "\ufeff", "nul": "\x00", "del": "\x7f",
	"line-separator": "\u2028", "max-code-point": "\U0010ffff", "combining": "e\u0301", "rtl": "\u05d0\u202e"}

func textAlphabet() []string {
	names := TextClassNames
	if len(names) == 0 {
		names = []string{"ascii", "quote", "backslash", "lt", "gt", "amp", "latin1", "astral", "newline", "space", "nbsp"}
	}
	out := make([]string, 0, len(names))
	for _, n := range names {
		if c, ok := textClassChars[n]; ok {
			out = append(out, c)
		}
	}
	return out
}

func encodeMsg(sid string, m wsMsg) map[string]interface{} {
	if m.typ == websocket.TextMessage {
		return map[string]interface{}{"id": sid, "msg": string(m.payload)}
	}
	return map[string]interface{}{"id": sid, "msg": []string{base64.StdEncoding.EncodeToString(m.payload)}}
}

// decodePoll turns a poll reply into messages.
func decodePoll(body []byte) ([]wsMsg, bool) {
	var raw []interface{}
	if json.Unmarshal(body, &raw) != nil {
		return nil, false
	}
	var out []wsMsg
	for _, r := range raw {
		switch v := r.(type) {
		case string:
			out = append(out, wsMsg{websocket.TextMessage, []byte(v)})
		case []interface{}:
			if len(v) != 1 {
				return nil, false
			}
			s, _ := v[0].(string)
			d, err := base64.StdEncoding.DecodeString(s)
			if err != nil {
				return nil, false
			}
			out = append(out, wsMsg{websocket.BinaryMessage, d})
		default:
			return nil, false
		}
	}
	return out, true
}

// wsMsgDriver: C11. Random message histories in both directions with random batching.
func wsMsgDriver(a *Args) {
	res := a.Res
	if a.Mode == "slow-child" {
		// scenarios that consist mostly of waiting, each in its own process next to the histories
		be := newWsBackend()
		defer be.srv.Close()
		if hx.Child() == "stall" {
			wsStallScenario(res, be)
		} else if ms, err := strconv.Atoi(hx.Child()); err == nil {
			wsQuietScenario(res, be, time.Duration(ms)*time.Millisecond)
		}
		return
	}
	slowDone := make(chan []hx.ChildResult, 1)
	go func() {
		names := []string{"stall"}
		for _, d := range pauseClasses() {
			names = append(names, fmt.Sprint(d.Milliseconds()+1000))
		}
		slowDone <- hx.RunChildren("wsmsg", "slow-child", names, nil, 10*time.Minute)
	}()
	defer func() {
		for _, c := range <-slowDone {
			if c.Err != nil {
				res.Bad("slow websocket scenario %s did not run: %v: %s", c.Name, c.Err, headOf([]byte(c.Out), 600))
			}
			res.Case("slow:"+c.Name, map[string]interface{}{"scenario": c.Name})
			for _, ln := range strings.Split(c.Out, "\n") {
				if strings.HasPrefix(ln, "STALL ") {
					var m map[string]interface{}
					if json.Unmarshal([]byte(strings.TrimPrefix(ln, "STALL ")), &m) == nil {
						res.Extra["stalled_backend_case"] = m
					}
				}
			}
		}
	}()
	if a.Cases != "" {
		if loadWsCases(a) == nil {
			return
		}
		res.Extra["text_classes"] = len(TextClassNames)
	}
	rng := hx.Rand("wsmsg")
	be := newWsBackend()
	defer be.srv.Close()
	n := 40
	if hx.Thorough() {
		n = 600
	}
	for h := 0; h < n; h++ {
		inject := h%3 == 2
		shim, cancel := newShim(be.host(), inject)
		label := fmt.Sprintf("m%d", h)
		hx.Reset("wsmsg-"+label, fmt.Sprintf("wsmsg:inject=%v", inject))
		sid, st := shim.open(be, label, "1")
		if st != 200 {
			hx.Emit("Final", "panicked", shim.panicked)
			cancel()
			continue
		}
		cN, sN := 0, 0
		sent := map[int]wsMsg{}
		polled := 0
		steps := 3 + rng.Intn(8)
		var shape []string
		for s := 0; s < steps; s++ {
			switch rng.Intn(3) {
			case 0: // client batch
				k := []int{1, 2, 3, 12, 15}[rng.Intn(5)]
				var batch []map[string]interface{}
				from := cN + 1
				be.mu.Lock()
				for i := 0; i < k; i++ {
					cN++
					m := randomMsg(rng, cN, hx.Thorough() && rng.Intn(40) == 0, inject, 0)
					be.sentC[label][cN] = m
					batch = append(batch, encodeMsg(sid, m))
				}
				be.mu.Unlock()
				hx.Emit("DataBegin", "sid", sid, "from", from, "to", cN)
				body, _ := json.Marshal(batch)
				code, _ := shim.call("data", string(body), "1")
				hx.Emit("Call", "kind", "data", "arg", "valid", "sid", sid, "status", code)
				shape = append(shape, fmt.Sprintf("c%d", k))
			case 1: // backend sends
				k := []int{1, 2, 11, 25}[rng.Intn(4)]
				for i := 0; i < k; i++ {
					sN++
					m := randomMsg(rng, sN, false, false, 1)
					sent[sN] = m
					if !be.send(label, sN, m) {
						res.Bad("backend send failed")
					}
				}
				shape = append(shape, fmt.Sprintf("s%d", k))
			default:
				if polled < sN {
					polled = pollOnce(shim, sid, sent, polled)
					shape = append(shape, "p")
				}
			}
		}
		if h%3 == 2 {
			// the backend says a few last things and closes the websocket itself, while the client is
			// between two polls: the polls that follow deliver everything, then report the session closed
			time.Sleep(30 * time.Millisecond) // (everything the client sent has reached the backend)
			for k := 0; k < 1+h%12; k++ {
				sN++
				m := randomMsg(rng, sN, false, false, 1)
				sent[sN] = m
				be.send(label, sN, m)
			}
			shape = append(shape, fmt.Sprintf("s%d,backend-closes", 1+h%12))
			be.closeConn(label)
			time.Sleep(20 * time.Millisecond)
			for i := 0; i < 40; i++ {
				before := polled
				polled = pollOnce(shim, sid, sent, polled)
				if polled == before {
					break // a poll that delivered nothing: the session was reported closed (or the poll failed)
				}
			}
			time.Sleep(10 * time.Millisecond)
			hx.Emit("Final", "panicked", shim.panicked)
			cancel()
			res.Case(strings.Join(shape, ","), map[string]interface{}{"history": shape, "client_msgs": cN, "server_msgs": sN, "injection": inject})
			continue
		}
		for polled < sN {
			before := polled
			polled = pollOnce(shim, sid, sent, polled)
			if polled == before {
				break
			}
		}
		// wait for the backend to have everything, then close
		time.Sleep(30 * time.Millisecond)
		hx.Emit("CloseBegin", "sid", sid)
		code, _ := shim.call("close", fmt.Sprintf(`{"id":%q}`, sid), "1")
		hx.Emit("Call", "kind", "close", "arg", "valid", "sid", sid, "status", code)
		time.Sleep(30 * time.Millisecond)
		hx.Emit("Final", "panicked", shim.panicked)
		cancel()
		res.Case(strings.Join(shape, ","), map[string]interface{}{"history": shape, "client_msgs": cN, "server_msgs": sN, "injection": inject})
	}
}

// wsStallScenario: a backend that does not read for 6.5 s while the whole pipeline towards it is full (kernel
// buffers, the message being written and the ten queued ones), and a client that closes meanwhile: what was
// accepted is delivered, in order, before the close.  How much the kernel absorbs is measured first, so that the
// data post fills the pipeline exactly and still returns at once.
func wsStallScenario(res *hx.Result, be *wsBackend) {
	hx.Reset("wsmsg-stall", "wsmsg:backend-stalls-then-close")
	shim, cancel := newShim(be.host(), false)
	label := "stall-1"
	absorbed := loopbackAbsorbs()
	size := 1 << 20
	frac := float64(absorbed%(size+16)) / float64(size+16)
	if frac < 0.2 || frac > 0.8 {
		size = size * 3 / 4
	}
	count := absorbed/(size+16) + 11
	sid, st := shim.open(be, label, "1")
	var dataMs, closeMs int64
	if st == 200 {
		var batch []map[string]interface{}
		be.mu.Lock()
		for n := 1; n <= count; n++ {
			m := wsMsg{websocket.TextMessage, append([]byte(fmt.Sprintf("%d:", n)), bytes.Repeat([]byte{byte('a' + n%26)}, size-8)...)}
			be.sentC[label][n] = m
			batch = append(batch, encodeMsg(sid, m))
		}
		be.mu.Unlock()
		hx.Emit("DataBegin", "sid", sid, "from", 1, "to", count)
		body, _ := json.Marshal(batch)
		t0 := time.Now()
		code, _ := shim.call("data", string(body), "1")
		dataMs = time.Since(t0).Milliseconds()
		hx.Emit("Call", "kind", "data", "arg", "valid", "sid", sid, "status", code)
		hx.Emit("CloseBegin", "sid", sid)
		t0 = time.Now()
		code, _ = shim.call("close", fmt.Sprintf(`{"id":%q}`, sid), "1")
		closeMs = time.Since(t0).Milliseconds()
		hx.Emit("Call", "kind", "close", "arg", "valid", "sid", sid, "status", code)
		for i := 0; i < 2400 && !be.sawClose(label); i++ {
			time.Sleep(5 * time.Millisecond)
		}
	}
	hx.Emit("Final", "panicked", shim.panicked)
	cancel()
	stall := map[string]interface{}{"messages": count, "message_bytes": size, "stall_ms": 6500,
		"kernel_absorbs_bytes": absorbed, "data_post_ms": dataMs, "close_post_ms": closeMs}
	res.Case("stall:pipeline-full-then-close", stall)
	res.Extra["stalled_backend_case"] = stall
	if sb, err := json.Marshal(stall); err == nil {
		fmt.Println("STALL " + string(sb)) // (for the parent: a child's result file is not kept)
	}
}

// wsQuietScenario: a session that is idle for longer than common time-outs and then used again in both directions.
func wsQuietScenario(res *hx.Result, be *wsBackend, quiet time.Duration) {
	rng := hx.Rand("wsquiet")
	hx.Reset(fmt.Sprintf("wsmsg-quiet-%d", quiet.Milliseconds()), "wsmsg:idle-then-used-again")
	shim, cancel := newShim(be.host(), false)
	defer cancel()
	label := fmt.Sprintf("quiet%d", quiet.Milliseconds())
	sid, st := shim.open(be, label, "1")
	if st != 200 {
		hx.Emit("Final", "panicked", shim.panicked)
		return
	}
	cN, sN, polled := 0, 0, 0
	sent := map[int]wsMsg{}
	round := func(k int) {
		var batch []map[string]interface{}
		from := cN + 1
		be.mu.Lock()
		for i := 0; i < k; i++ {
			cN++
			m := randomMsg(rng, cN, false, false, 0)
			be.sentC[label][cN] = m
			batch = append(batch, encodeMsg(sid, m))
		}
		be.mu.Unlock()
		hx.Emit("DataBegin", "sid", sid, "from", from, "to", cN)
		body, _ := json.Marshal(batch)
		code, _ := shim.call("data", string(body), "1")
		hx.Emit("Call", "kind", "data", "arg", "valid", "sid", sid, "status", code)
		for i := 0; i < k; i++ {
			sN++
			m := randomMsg(rng, sN, false, false, 1)
			sent[sN] = m
			be.send(label, sN, m)
		}
		for polled < sN {
			before := polled
			polled = pollOnce(shim, sid, sent, polled)
			if polled == before {
				break
			}
		}
	}
	round(2)
	time.Sleep(quiet)
	round(1)
	time.Sleep(quiet / 3) // (a moment that is neither right after the open nor right after a period)
	round(3)
	time.Sleep(30 * time.Millisecond)
	hx.Emit("CloseBegin", "sid", sid)
	code, _ := shim.call("close", fmt.Sprintf(`{"id":%q}`, sid), "1")
	hx.Emit("Call", "kind", "close", "arg", "valid", "sid", sid, "status", code)
	time.Sleep(30 * time.Millisecond)
	hx.Emit("Final", "panicked", shim.panicked)
	res.Case("quiet:"+label, map[string]interface{}{"idle_ms": quiet.Milliseconds(), "client_msgs": cN, "server_msgs": sN})
}

// loopbackAbsorbs measures how many bytes a loopback TCP connection takes from a writer whose peer does not
// read (send buffer plus receive buffer with this kernel's settings).
func loopbackAbsorbs() int {
	ln, err := net.Listen("tcp", "127.0.0.1:0")
	if err != nil {
		return 0
	}
	defer ln.Close()
	hold := make(chan net.Conn, 1)
	go func() {
		c, err := ln.Accept()
		if err == nil {
			hold <- c
		}
	}()
	c, err := net.Dial("tcp", ln.Addr().String())
	if err != nil {
		return 0
	}
	defer c.Close()
	total := 0
	chunk := make([]byte, 4096)
	for total < 64<<20 {
		c.SetWriteDeadline(time.Now().Add(300 * time.Millisecond))
		n, err := c.Write(chunk)
		total += n
		if err != nil {
			break
		}
	}
	select {
	case pc := <-hold:
		pc.Close()
	default:
	}
	return total
}

func pollOnce(shim *shimClient, sid string, sent map[int]wsMsg, polled int) int {
	n, _ := pollOnceStatus(shim, sid, sent, polled)
	return n
}

func pollOnceStatus(shim *shimClient, sid string, sent map[int]wsMsg, polled int) (int, int) {
	hx.Emit("PollBegin", "sid", sid)
	code, body := shim.call("poll", fmt.Sprintf(`{"id":%q}`, sid), "1")
	if code != 200 {
		hx.Emit("Call", "kind", "poll", "arg", "valid", "sid", sid, "status", code)
		return polled, code
	}
	msgs, ok := decodePoll(body)
	same := ok
	for i, m := range msgs {
		w, have := sent[polled+1+i]
		if !have || w.typ != m.typ || !bytes.Equal(w.payload, m.payload) {
			same = false
		}
	}
	hx.Emit("Call", "kind", "poll", "arg", "valid", "sid", sid, "status", code, "first", polled+1, "count", len(msgs), "same", same)
	return polled + len(msgs), code
}


type wsCases struct {
	Seqs     [][]string `json:"seqs"`
	URLs     []string   `json:"urls"`
	Reserved []string   `json:"reserved"`
	Text     []string   `json:"textclasses"`
}

func loadWsCases(a *Args) *wsCases {
	var c wsCases
	b, err := os.ReadFile(a.Cases)
	if err != nil || json.Unmarshal(b, &c) != nil {
		a.Res.Bad("cannot read cases %q: %v", a.Cases, err)
		return nil
	}
	sort.Strings(c.Text)
	TextClassNames = c.Text
	return &c
}

// wsCallsDriver: C12. TLC-enumerated call sequences with valid / unknown / closed / malformed
// arguments, and gated concurrent pairs (data racing close, close racing close) in a child process.
func wsCallsDriver(a *Args) {
	res := a.Res
	if a.Mode == "race-child" {
		wsRaceChild()
		return
	}
	cases := loadWsCases(a)
	if cases == nil {
		return
	}
	be := newWsBackend()
	defer be.srv.Close()
	for i, seq := range cases.Seqs {
		shim, cancel := newShim(be.host(), false)
		hx.Reset(fmt.Sprintf("wscalls-%d", i), "wscalls:"+strings.Join(seq, ","))
		var cur, curLabel, closedSid string
		sN, polled, cN := 0, 0, 0
		sent := map[int]wsMsg{}
		k := 0
		openOne := func() {
			k++
			curLabel = fmt.Sprintf("q%d-%d", i, k)
			cur, _ = shim.open(be, curLabel, "1")
			sN, polled, cN = 0, 0, 0
			sent = map[int]wsMsg{}
		}
		needOpen := func() {
			if cur == "" {
				openOne()
			}
		}
		needClosed := func() {
			if closedSid == "" {
				k++
				l := fmt.Sprintf("q%d-%d", i, k)
				s, _ := shim.open(be, l, "1")
				hx.Emit("CloseBegin", "sid", s)
				code, _ := shim.call("close", fmt.Sprintf(`{"id":%q}`, s), "1")
				hx.Emit("Call", "kind", "close", "arg", "valid", "sid", s, "status", code)
				closedSid = s
			}
		}
		for _, op := range seq {
			parts := strings.SplitN(op, "-", 2)
			kind, arg := parts[0], ""
			if len(parts) > 1 {
				arg = parts[1]
			}
			switch {
			case op == "open":
				openOne()
			case op == "backend-send":
				needOpen()
				sN++
				m := wsMsg{websocket.TextMessage, []byte(fmt.Sprintf("%d:srv", sN))}
				sent[sN] = m
				be.send(curLabel, sN, m)
			case op == "backend-close":
				needOpen()
				be.closeConn(curLabel)
				time.Sleep(20 * time.Millisecond)
			case kind == "data":
				sid := "424242"
				body := ""
				switch arg {
				case "valid":
					needOpen()
					sid = cur
					cN++
					m := wsMsg{websocket.TextMessage, []byte(fmt.Sprintf("%d:cli", cN))}
					be.mu.Lock()
					if be.sentC[curLabel] == nil {
						be.sentC[curLabel] = map[int]wsMsg{} // (the open call did not produce a session)
					}
					be.sentC[curLabel][cN] = m
					be.mu.Unlock()
					hx.Emit("DataBegin", "sid", sid, "from", cN, "to", cN)
					b, _ := json.Marshal([]map[string]interface{}{encodeMsg(sid, m)})
					body = string(b)
				case "closed":
					needClosed()
					sid = closedSid
					body = fmt.Sprintf(`[{"id":%q,"msg":"x"}]`, sid)
				case "unknown":
					body = fmt.Sprintf(`[{"id":%q,"msg":"x"}]`, sid)
				case "malformed":
					body = `[{"id":`
				case "wrongtype":
					needOpen()
					sid = cur
					body = fmt.Sprintf(`[{"id":%q,"msg":{"a":1}}]`, sid)
					arg = "malformed"
				}
				code, _ := shim.call("data", body, "1")
				if arg == "valid" && code != 200 {
					// a valid data call may be refused only because the session has ended meanwhile
					hx.Emit("Call", "kind", "data", "arg", "valid-refused", "sid", sid, "status", code)
				} else {
					hx.Emit("Call", "kind", "data", "arg", arg, "sid", sid, "status", code)
				}
			case kind == "poll":
				sid := "424242"
				body := ""
				switch arg {
				case "valid":
					needOpen()
					sid = cur
					if polled >= sN {
						// nothing pending: an empty poll would wait 20 s; let the backend say something first
						sN++
						m := wsMsg{websocket.TextMessage, []byte(fmt.Sprintf("%d:srv", sN))}
						sent[sN] = m
						if !be.send(curLabel, sN, m) {
							sN--
						}
						time.Sleep(10 * time.Millisecond)
					}
					var st int
					polled, st = pollOnceStatus(shim, sid, sent, polled)
					if st == 400 {
						// the poll reported the end of the session: like after a close call that was answered 200,
						// the session is gone and the next "valid" step starts a new one
						closedSid, cur = sid, ""
					}
					continue
				case "closed":
					needClosed()
					sid = closedSid
					body = fmt.Sprintf(`{"id":%q}`, sid)
				case "unknown":
					body = fmt.Sprintf(`{"id":%q}`, sid)
				case "malformed":
					body = `{"id":[`
				}
				code, _ := shim.call("poll", body, "1")
				hx.Emit("Call", "kind", "poll", "arg", arg, "sid", sid, "status", code)
			case kind == "close":
				sid := "424242"
				body := ""
				switch arg {
				case "valid":
					needOpen()
					sid = cur
					body = fmt.Sprintf(`{"id":%q}`, sid)
				case "closed":
					needClosed()
					sid = closedSid
					body = fmt.Sprintf(`{"id":%q}`, sid)
				case "unknown":
					body = fmt.Sprintf(`{"id":%q}`, sid)
				case "malformed":
					body = `not json at all`
				}
				if arg == "valid" {
					hx.Emit("CloseBegin", "sid", sid)
				}
				code, _ := shim.call("close", body, "1")
				hx.Emit("Call", "kind", "close", "arg", arg, "sid", sid, "status", code)
				if arg == "valid" && code == 200 {
					closedSid, cur = sid, ""
				}
			}
		}
		time.Sleep(25 * time.Millisecond)
		hx.Emit("Final", "panicked", shim.panicked)
		cancel()
		res.Case(strings.Join(seq, ","), map[string]interface{}{"sequence": seq})
	}
	// a client that abandons a poll (nothing to deliver, the client goes away): the session stays usable
	{
		hx.Reset("wspoll-abandoned", "wspoll:abandoned-by-client")
		shim, cancel := newShim(be.host(), false)
		label := "ab-1"
		sid, st := shim.open(be, label, "1")
		if st == 200 {
			stop := make(chan struct{})
			go func() { shim.abandonedPoll(sid, 150*time.Millisecond); close(stop) }()
			time.Sleep(400 * time.Millisecond)
			sent := map[int]wsMsg{}
			for n := 1; n <= 2; n++ {
				m := wsMsg{websocket.TextMessage, []byte(fmt.Sprintf("%d:after-abandon", n))}
				sent[n] = m
				be.send(label, n, m)
			}
			// the abandoned poll may still be parked in the handler and take the messages with it - the
			// pinned code answers it (to nobody) with them; what is judged is that the session survives:
			// further calls are answered for a session that exists, and close reaches the backend
			time.Sleep(50 * time.Millisecond)
			m := wsMsg{websocket.TextMessage, []byte("1:still-here")}
			be.mu.Lock()
			be.sentC[label][1] = m
			be.mu.Unlock()
			hx.Emit("DataBegin", "sid", sid, "from", 1, "to", 1)
			b, _ := json.Marshal([]map[string]interface{}{encodeMsg(sid, m)})
			code, _ := shim.call("data", string(b), "1")
			hx.Emit("Call", "kind", "data", "arg", "valid", "sid", sid, "status", code)
			for i := 0; i < 100 && be.received(label) < 1; i++ {
				time.Sleep(5 * time.Millisecond)
			}
			hx.Emit("CloseBegin", "sid", sid)
			code, _ = shim.call("close", fmt.Sprintf(`{"id":%q}`, sid), "1")
			hx.Emit("Call", "kind", "close", "arg", "valid", "sid", sid, "status", code)
			for i := 0; i < 200 && !be.sawClose(label); i++ {
				time.Sleep(5 * time.Millisecond)
			}
			select {
			case <-stop:
			case <-time.After(25 * time.Second):
			}
		}
		shim.mu.Lock()
		p := shim.panicked
		shim.mu.Unlock()
		hx.Emit("Final", "panicked", p)
		cancel()
		res.Case("poll:abandoned-by-client", map[string]interface{}{})
	}
	// a session whose backend said three things and closed, left unpolled while more than a thousand other sessions
	// are opened and closed on the same shim: its polls still deliver the three messages and then report it closed
	{
		hx.Reset("wspoll-churn", "wspoll:unpolled-amid-many-opens")
		shim, cancel := newShim(be.host(), false)
		label := "keep-1"
		sid, st := shim.open(be, label, "1")
		if st == 200 {
			sent := map[int]wsMsg{}
			for n := 1; n <= 3; n++ {
				m := wsMsg{websocket.TextMessage, []byte(fmt.Sprintf("%d:before-the-crowd", n))}
				sent[n] = m
				be.send(label, n, m)
			}
			time.Sleep(30 * time.Millisecond)
			be.closeConn(label)
			time.Sleep(30 * time.Millisecond)
			opens := 1100
			if hx.Thorough() {
				opens = 9000
			}
			for i := 0; i < opens; i++ {
				st, body := shim.call("open", "ws://svc.example/ws/churn?s=churn", "1")
				if st != 200 {
					continue
				}
				var r struct {
					ID string `json:"id"`
				}
				json.Unmarshal(body, &r)
				shim.call("close", fmt.Sprintf(`{"id":%q}`, r.ID), "1")
			}
			polled := 0
			for i := 0; i < 6; i++ {
				before := polled
				polled = pollOnce(shim, sid, sent, polled)
				if polled == before {
					break
				}
			}
		}
		shim.mu.Lock()
		p := shim.panicked
		shim.mu.Unlock()
		hx.Emit("Final", "panicked", p)
		cancel()
		res.Case("poll:unpolled-amid-many-opens", map[string]interface{}{"other_sessions_opened_and_closed": 1100})
	}
	// a backend that never reads (it only streams events): closing the session must still close its websocket
	for r := 0; r < 2; r++ {
		hx.Reset(fmt.Sprintf("wsclose-writeonly-%d", r), "wsclose:write-only-backend")
		shim, cancel := newShim(be.host(), false)
		label := fmt.Sprintf("wo-%d", r)
		sid, st := shim.open(be, label, "1")
		if st == 200 {
			sent := map[int]wsMsg{}
			for n := 1; n <= 2+r*9; n++ { // the second round leaves more than ten messages undelivered at the close
				m := wsMsg{websocket.TextMessage, []byte(fmt.Sprintf("%d:event", n))}
				sent[n] = m
				be.send(label, n, m)
			}
			time.Sleep(20 * time.Millisecond)
			if r == 0 {
				pollOnce(shim, sid, sent, 0)
			}
			hx.Emit("CloseBegin", "sid", sid)
			code, _ := shim.call("close", fmt.Sprintf(`{"id":%q}`, sid), "1")
			hx.Emit("Call", "kind", "close", "arg", "valid", "sid", sid, "status", code)
			for i := 0; i < 240 && !be.sawClose(label); i++ {
				time.Sleep(25 * time.Millisecond)
			}
		}
		shim.mu.Lock()
		p := shim.panicked
		shim.mu.Unlock()
		hx.Emit("Final", "panicked", p)
		cancel()
		res.Case(fmt.Sprintf("close:write-only-backend:%d", r), map[string]interface{}{"round": r})
	}
	// gated concurrent pairs in a child process (a panic in a connection goroutine kills the process)
	for _, pair := range []string{"shapes", "data-vs-close", "close-vs-close", "poll-gated", "poll-vs-poll", "stress"} {
		rounds := 1
		if pair == "stress" && hx.Thorough() {
			rounds = 5
		}
		for r := 0; r < rounds; r++ {
			hx.Reset("wsrace-"+pair, "wsrace:"+pair)
			bin := hx.Bin("vdrive-race")
			if _, err := os.Stat(bin); err != nil {
				bin = hx.Bin("vdrive")
			}
			cmd := exec.Command(bin, "-mode", "race-child", "-out", os.DevNull, "wscalls")
			cmd.Env = append(os.Environ(), "GORACE=halt_on_error=1", "VERIF_PAIR="+pair, "VERIF_TRACE=")
			if pair == "shapes" {
				// this child records its own segments into the shared trace (the parent waits meanwhile)
				cmd.Env = append(os.Environ(), "GORACE=halt_on_error=1", "VERIF_PAIR="+pair)
			}
			out, err := cmd.CombinedOutput()
			kind, inRepo, ex := hx.RaceReport(string(out))
			panicked := err != nil
			if err != nil {
				res.Note("race child %s failed (%v, %s, inRepo=%v): %s", pair, err, kind, inRepo, headOf([]byte(ex), 1500))
				if kind == "race" && !inRepo {
					res.Bad("race report outside repository code: %s", headOf([]byte(ex), 500))
				}
			}
			hx.Emit("Final", "panicked", panicked, "report", kind)
			res.Case("race:"+pair, map[string]interface{}{"pair": pair, "child_failed": panicked})
		}
	}
}

// wsRaceChild forces the interleavings of the WsShim attack counterexample with gates.
func wsRaceChild() {
	pair := os.Getenv("VERIF_PAIR")
	be := newWsBackend()
	defer be.srv.Close()
	shim, cancel := newShim(be.host(), false)
	defer cancel()
	type gate struct{ reached, release chan struct{} }
	var gmu sync.Mutex
	gates := map[string]*gate{}
	arm := func(point string) *gate {
		g := &gate{make(chan struct{}, 1), make(chan struct{})}
		gmu.Lock()
		gates[point] = g
		gmu.Unlock()
		return g
	}
	verifhook.GateFunc = func(point string, kv ...interface{}) {
		gmu.Lock()
		g := gates[point]
		delete(gates, point) // each armed gate stops one goroutine once
		gmu.Unlock()
		if g == nil {
			return
		}
		g.reached <- struct{}{}
		select {
		case <-g.release:
		case <-time.After(10 * time.Second):
		}
	}
	switch pair {
	case "shapes":
		wsShapes(be)
		return
	case "poll-gated":
		// the counterexample of WsShim_Attack_DrainByCount, forced with the gate between a poll's first
		// receive and its drain: two polls each take one message of a burst of eight and are held; then
		// both drain the rest at the same moment; then the backend closes
		for round := 0; round < 40; round++ {
			label := fmt.Sprintf("pg%d", round)
			sid, st := shim.open(be, label, "1")
			if st != 200 {
				fmt.Println("open failed")
				os.Exit(6)
			}
			var pmu sync.Mutex
			arrived := 0
			both := make(chan struct{})
			release := make(chan struct{})
			verifhook.GateFunc = func(point string, kv ...interface{}) {
				if point != "ws.poll.first" {
					return
				}
				pmu.Lock()
				arrived++
				if arrived == 2 {
					close(both)
				}
				pmu.Unlock()
				select {
				case <-release:
				case <-time.After(10 * time.Second):
				}
			}
			type ans struct {
				code int
				body []byte
			}
			ch := make(chan ans, 2)
			for p := 0; p < 2; p++ {
				go func() {
					c, b := shim.call("poll", fmt.Sprintf(`{"id":%q}`, sid), "1")
					ch <- ans{c, b}
				}()
			}
			time.Sleep(20 * time.Millisecond)
			const gburst = 8
			for n := 1; n <= gburst; n++ {
				be.send(label, n, wsMsg{websocket.TextMessage, []byte(fmt.Sprintf("%d:g-%s", n, label))})
			}
			select {
			case <-both:
			case <-time.After(5 * time.Second):
				fmt.Println("the two polls did not both reach the gate")
				os.Exit(6)
			}
			time.Sleep(20 * time.Millisecond) // the rest of the burst is queued by now
			close(release)
			time.Sleep(20 * time.Millisecond)
			be.closeConn(label)
			seen := map[string]int{}
			for p := 0; p < 2; p++ {
				select {
				case a := <-ch:
					if a.code != 200 {
						fmt.Printf("gated poll answered %d\n", a.code)
						os.Exit(5)
					}
					msgs, _ := decodePoll(a.body)
					for _, m := range msgs {
						seen[string(m.payload)]++
					}
				case <-time.After(26 * time.Second):
					fmt.Println("gated poll wedged (no answer within 26 s)")
					os.Exit(3)
				}
			}
			verifhook.GateFunc = nil
			for n := 1; n <= gburst; n++ {
				if c := seen[fmt.Sprintf("%d:g-%s", n, label)]; c != 1 {
					fmt.Printf("gated polls: message %d delivered %d times\n", n, c)
					os.Exit(5)
				}
			}
		}
	case "poll-vs-poll":
		// several polls in flight on the same session while the backend sends a burst and closes: every
		// poll is answered, and together the polls deliver every message exactly once. Eight sessions at
		// a time, so that goroutines really run in parallel.
		nsess := 480
		if hx.Thorough() {
			nsess = 4000
		}
		var failMu sync.Mutex
		failCode, failMsg := 0, ""
		fail := func(code int, format string, a ...interface{}) {
			failMu.Lock()
			if failCode == 0 {
				failCode, failMsg = code, fmt.Sprintf(format, a...)
			}
			failMu.Unlock()
		}
		oneSession := func(s int) {
			label := fmt.Sprintf("pp%d", s)
			sid, st := shim.open(be, label, "1")
			if st != 200 {
				return
			}
			const burst = 10
			pollers := 2 + s%3
			var mu sync.Mutex
			seen := map[string]int{}
			var wg sync.WaitGroup
			for p := 0; p < pollers; p++ {
				wg.Add(1)
				go func() {
					defer wg.Done()
					for i := 0; i < 40; i++ {
						type ans struct {
							code int
							body []byte
						}
						ch := make(chan ans, 1)
						go func() {
							c, b := shim.call("poll", fmt.Sprintf(`{"id":%q}`, sid), "1")
							ch <- ans{c, b}
						}()
						var a ans
						select {
						case a = <-ch:
						case <-time.After(26 * time.Second):
							fail(3, "session %s: a poll call wedged (no answer within 26 s)", label)
							return
						}
						if a.code != 200 {
							if a.code == 400 {
								return // session reported closed
							}
							continue
						}
						msgs, _ := decodePoll(a.body)
						mu.Lock()
						for _, m := range msgs {
							seen[string(m.payload)]++
						}
						mu.Unlock()
					}
				}()
			}
			// the burst arrives before the polls, while they start, or when all of them are parked
			time.Sleep(time.Duration(s%4) * 4 * time.Millisecond)
			for n := 1; n <= burst; n++ {
				be.send(label, n, wsMsg{websocket.TextMessage, []byte(fmt.Sprintf("%d:burst-%s", n, label))})
			}
			if s%2 == 1 {
				time.Sleep(15 * time.Millisecond)
			}
			be.closeConn(label)
			wg.Wait()
			for n := 1; n <= burst; n++ {
				if c := seen[fmt.Sprintf("%d:burst-%s", n, label)]; c != 1 {
					shim.mu.Lock()
					p := shim.panicked
					shim.mu.Unlock()
					fail(5, "session %s: message %d delivered %d times by %d concurrent polls (handler panicked: %v)", label, n, c, pollers, p)
					return
				}
			}
		}
		sem := make(chan struct{}, 8)
		var swg sync.WaitGroup
		for s := 0; s < nsess; s++ {
			failMu.Lock()
			stop := failCode != 0
			failMu.Unlock()
			if stop {
				break
			}
			sem <- struct{}{}
			swg.Add(1)
			go func(s int) {
				defer swg.Done()
				defer func() { <-sem }()
				oneSession(s)
			}(s)
		}
		swg.Wait()
		if failCode != 0 {
			fmt.Println(failMsg)
			os.Exit(failCode)
		}
	case "data-vs-close":
		sid, _ := shim.open(be, "r1", "1")
		g := arm("ws.send.checked")
		done := make(chan int, 1)
		go func() {
			c, _ := shim.call("data", fmt.Sprintf(`[{"id":%q,"msg":"1:late"}]`, sid), "1")
			done <- c
		}()
		select {
		case <-g.reached:
		case <-time.After(5 * time.Second):
		}
		shim.call("close", fmt.Sprintf(`{"id":%q}`, sid), "1")
		time.Sleep(20 * time.Millisecond)
		close(g.release)
		select {
		case <-done:
		case <-time.After(15 * time.Second):
			fmt.Println("data call wedged")
			os.Exit(3)
		}
	case "close-vs-close":
		sid, _ := shim.open(be, "r2", "1")
		g := arm("ws.closecall.loaded")
		done := make(chan int, 2)
		go func() {
			c, _ := shim.call("close", fmt.Sprintf(`{"id":%q}`, sid), "1")
			done <- c
		}()
		select {
		case <-g.reached:
		case <-time.After(5 * time.Second):
		}
		go func() {
			c, _ := shim.call("close", fmt.Sprintf(`{"id":%q}`, sid), "1")
			done <- c
		}()
		time.Sleep(50 * time.Millisecond)
		close(g.release)
		for i := 0; i < 2; i++ {
			select {
			case <-done:
			case <-time.After(15 * time.Second):
				fmt.Println("close call wedged")
				os.Exit(3)
			}
		}
	default: // ungated stress: data, poll and close racing on many sessions
		var wg sync.WaitGroup
		for s := 0; s < 20; s++ {
			label := fmt.Sprintf("st%d", s)
			sid, st := shim.open(be, label, "1")
			if st != 200 {
				continue
			}
			for g := 0; g < 3; g++ {
				wg.Add(1)
				go func(g int) {
					defer wg.Done()
					for i := 0; i < 15; i++ {
						shim.call("data", fmt.Sprintf(`[{"id":%q,"msg":"%d:x"}]`, sid, i), "1")
					}
				}(g)
			}
			wg.Add(2)
			go func() {
				defer wg.Done()
				time.Sleep(time.Millisecond)
				shim.call("close", fmt.Sprintf(`{"id":%q}`, sid), "1")
			}()
			go func() {
				defer wg.Done()
				time.Sleep(time.Millisecond)
				shim.call("close", fmt.Sprintf(`{"id":%q}`, sid), "1")
			}()
		}
		wg.Wait()
	}
	time.Sleep(100 * time.Millisecond)
	shim.mu.Lock()
	p := shim.panicked
	shim.mu.Unlock()
	if p {
		fmt.Println("panic: recovered in a shim call (the agent's bare worker goroutines would not recover)")
		os.Exit(4)
	}
}

// wsURLDriver: C13. URL syntax classes in shim open requests; every address the websocket dialer
// is asked to connect to is recorded.
func wsURLDriver(a *Args) {
	res := a.Res
	cases := loadWsCases(a)
	if cases == nil {
		return
	}
	rng := hx.Rand("wsurls")
	be := newWsBackend()
	defer be.srv.Close()
	var dmu sync.Mutex
	var dialed []string
	websocket.DefaultDialer.NetDialContext = func(ctx context.Context, network, addr string) (net.Conn, error) {
		dmu.Lock()
		dialed = append(dialed, addr)
		dmu.Unlock()
		if addr == "127.0.0.1:80" {
			// the backend of the pass that configures the agent with a host without a port (ws default port)
			return (&net.Dialer{}).DialContext(ctx, network, be.host())
		}
		if addr != be.host() {
			return nil, fmt.Errorf("harness: refusing to connect to foreign address %q", addr)
		}
		return (&net.Dialer{}).DialContext(ctx, network, addr)
	}
	shim, cancel := newShim(be.host(), false)
	defer cancel()
	per := 5
	if hx.Thorough() {
		per = 200
	}
	hx.Reset("wsurls", "wsurls")
	n := 0
	classes := append([]string{}, cases.URLs...)
	classes = append(classes, cases.Reserved...)
	// configuration classes of --host: "host:port" (every class, several times) and a host without a port, which
	// means the scheme's default port (every class once)
	backendName := be.host()
	for pass, hostForm := range []string{"host:port", "host", "host:port+rewrite-websocket-host"} {
		if pass == 2 {
			var cancel3 func()
			shim, cancel3 = newShimOpt(be.host(), false, true)
			defer cancel3()
			backendName = be.host()
		}
		if pass == 1 {
			var cancel2 func()
			shim, cancel2 = newShim("127.0.0.1", false)
			defer cancel2()
			backendName = "127.0.0.1:80"
		}
		for _, class := range classes {
			reps := per
			if strings.HasPrefix(class, "rsv|") {
				reps = (per + 4) / 5
			}
			if pass >= 1 {
				reps = 1
				if strings.HasPrefix(class, "rsv|") && n%3 != 0 {
					n++
					continue
				}
			}
			_ = hostForm
			for k := 0; k < reps; k++ {
				n++
				label := fmt.Sprintf("u%d", n)
				body := concreteURL(class, label, rng)
				dmu.Lock()
				dialed = nil
				dmu.Unlock()
				st, rb := shim.call("open", body, "1")
				time.Sleep(2 * time.Millisecond)
				dmu.Lock()
				d := append([]string{}, dialed...)
				dmu.Unlock()
				wantPath, wantQuery := "", ""
				if u, err := url.Parse(body); err == nil {
					wantPath, wantQuery = u.EscapedPath(), u.RawQuery
				}
				sawPath, sawQuery := "", ""
				sawHost := "" // Host of the handshake, where the connection could be identified by its label
				if st == 200 {
					var r struct {
						ID string `json:"id"`
					}
					json.Unmarshal(rb, &r)
					be.mu.Lock()
					var found bool
					for l, p := range be.paths {
						if strings.Contains(p[1], "s="+label) || l == label {
							sawPath, sawQuery, found = p[0], p[1], true
							if h := be.hdrs[l]; h != nil {
								sawHost = h.Get("X-Seen-Host")
							}
						}
					}
					be.mu.Unlock()
					if !found {
						// the handshake carried no label (URL class without query): take the newest connection
						be.mu.Lock()
						if p, ok := be.paths[""]; ok {
							sawPath, sawQuery = p[0], p[1]
						}
						be.mu.Unlock()
					}
					shim.call("close", fmt.Sprintf(`{"id":%q}`, r.ID), "1")
				}
				if !strings.HasPrefix(wantPath, "/") {
					// a relative path is attached to the backend authority with a slash
					wantPath = "/" + wantPath
				}
				if sawPath == "" {
					sawPath = "/"
				}
				sig := "url:" + class
				if pass == 1 {
					sig += ":host-without-port"
				}
				hx.Emit("OpenCase", "class", class, "sig", sig, "url", headOf([]byte(body), 120), "status", st, "dialed", d, "backend", backendName,
					"want_path", wantPath, "want_query", wantQuery, "saw_path", sawPath, "saw_query", sawQuery, "saw_host", sawHost, "req_host", "svc.example")
				res.Case(sig, map[string]interface{}{"class": class, "example": headOf([]byte(body), 100), "configured_host": hostForm})
			}
		}
	}
	// requests outside the shim prefix go to the wrapped handler untouched
	for _, p := range []string{"/", "/other/path?x=1", "/shimqx/open", "/shim", "/a/shimq/open"} {
		req := httptest.NewRequest("POST", "http://svc.example"+p, strings.NewReader("ws://evil.example/x"))
		rec := httptest.NewRecorder()
		shim.h.ServeHTTP(rec, req)
		ok := rec.Header().Get("X-Wrapped") == "1" && rec.Body.String() == "wrapped:"+p
		st := 200
		if !ok {
			st = 599
		}
		hx.Emit("OpenCase", "class", "outside-prefix", "sig", "url:outside-prefix", "url", p, "status", st, "dialed", []string{}, "backend", be.host(),
			"want_path", "", "want_query", "", "saw_path", "", "saw_query", "", "saw_host", "", "req_host", "svc.example")
	}
}

func concreteURL(class, label string, rng *rand.Rand) string {
	t := randToken(rng, 5)
	q := "?s=" + label
	if f := strings.Split(class, "|"); len(f) == 5 && f[0] == "rsv" {
		// rsv|<char>|<component>|<path form>|<reference form>
		ch, comp, pathForm, form := f[1], f[2], f[3], f[4]
		evil := "evil-" + t + ".example:9"
		base := map[string]string{"absolute": "ws://other-" + t + ".example", "scheme-relative": "//other-" + t + ".example", "relative": ""}[form]
		path := ""
		if pathForm == "nonempty" || comp == "path" {
			path = "/ws/p"
		}
		if comp == "path" {
			path += "/a" + ch + evil + "/x"
		}
		query := q
		if comp == "query" {
			query += "&next=a" + ch + evil + "/"
		}
		frag := ""
		if comp == "fragment" {
			frag = "#f" + ch + evil + "/"
		}
		return base + path + query + frag
	}
	switch class {
	case "abs-http-foreign":
		return "http://evil-" + t + ".example/ws/a" + q
	case "abs-https-foreign":
		return "https://evil-" + t + ".example:8443/ws/a" + q
	case "abs-ws-foreign":
		return "ws://evil-" + t + ".example/ws/a" + q
	case "abs-wss-foreign":
		return "wss://evil-" + t + ".example/ws/a" + q
	case "scheme-relative":
		return "//evil-" + t + ".example/ws/a" + q
	case "path-only":
		return "/ws/only/" + t
	case "path-query":
		return "/ws/pq/" + t + q + "&x=1"
	case "opaque":
		return []string{"x:y", "foo:bar" + t, "javascript:1", "x:y" + q}[rng.Intn(4)]
	case "opaque-mailto":
		return "mailto:a" + t + "@b.example"
	case "empty":
		return ""
	case "userinfo":
		return "ws://user:pass@evil-" + t + ".example/ws/a" + q
	case "ipv6":
		return "ws://[2001:db8::1]:9999/ws/a" + q
	case "odd-port":
		return "ws://evil.example:65535/ws/a" + q
	case "empty-port":
		return "ws://evil.example:/ws/a" + q
	case "fragment":
		return "ws://evil.example/ws/a" + q + "#frag"
	case "parse-error":
		return []string{"ws://[::1/x", "http://a b/", "%zz", "ws://evil.example/%zz"}[rng.Intn(4)]
	case "raw-bytes":
		b := make([]byte, 1+rng.Intn(40))
		rng.Read(b)
		return string(b)
	case "backend-host":
		return "ws://svc.example/ws/" + t + q
	case "dot-segments":
		return "ws://evil.example/ws/../../etc/" + t + q
	case "encoded-path":
		return "ws://evil.example/ws/a%2Fb%20c/" + t + q
	case "backend-redirect-301", "backend-redirect-302", "backend-redirect-307", "backend-redirect-308":
		return "/redir/" + strings.TrimPrefix(class, "backend-redirect-") + q + "&to=" + url.QueryEscape("ws://evil-"+t+".example:9/ws/x")
	case "backend-redirect-relative":
		return "/redir/302" + q + "&to=" + url.QueryEscape("//evil-"+t+".example:9/ws/x")
	}
	return "/ws/" + t
}

// wsShapes: every JSON shape of a data call's "msg" on a live session, between numbered valid
// messages, for both protocol versions and with header injection on and off. Runs in a child
// process (a panic in a connection goroutine kills the process) and records its own segments.
func wsShapes(be *wsBackend) {
	for _, version := range []string{"1", "0"} {
		for _, inject := range []bool{false, true} {
			shim, cancel := newShim(be.host(), inject)
			for _, sh := range MsgShapes {
				if sh.Valid && sh.Name != "empty-string" && sh.Name != "blob-empty" {
					continue // the numbered messages below are the valid shapes
				}
				if version == "0" && sh.Name == "blob-bad-base64" {
					continue // protocol version 0 carries the string itself: any string is a valid blob
				}
				label := fmt.Sprintf("shape-%s-v%s-%v", sh.Name, version, inject)
				hx.Reset("ws"+label, "wsshape:"+sh.Name)
				sid, st := shim.open(be, label, version)
				if st != 200 {
					hx.Emit("Final", "panicked", true, "report", "open failed")
					continue
				}
				n := 0
				valid := func(binary bool) {
					n++
					payload := []byte(fmt.Sprintf("%d:hello", n))
					m := wsMsg{websocket.TextMessage, payload}
					body := fmt.Sprintf(`[{"id":%q,"msg":%q}]`, sid, payload)
					if binary {
						m.typ = websocket.BinaryMessage
						enc := string(payload) // protocol version 0 carries the bytes as they are
						if version != "0" {
							enc = base64.StdEncoding.EncodeToString(payload)
						}
						body = fmt.Sprintf(`[{"id":%q,"msg":[%q]}]`, sid, enc)
					}
					be.mu.Lock()
					be.sentC[label][n] = m
					be.mu.Unlock()
					hx.Emit("DataBegin", "sid", sid, "from", n, "to", n)
					code, _ := shim.call("data", body, version)
					hx.Emit("Call", "kind", "data", "arg", "valid", "sid", sid, "status", code)
				}
				valid(false)
				valid(true)
				code, _ := shim.call("data", shapedData(sid, sh.JSON), version)
				hx.Emit("Call", "kind", "data", "arg", "shaped", "sid", sid, "status", code, "shape", sh.Name)
				valid(false)
				valid(true)
				// give the writer goroutine time to hand everything to the backend
				deadline := time.Now().Add(3 * time.Second)
				for time.Now().Before(deadline) {
					time.Sleep(5 * time.Millisecond)
					if be.received(label) >= n {
						break
					}
				}
				hx.Emit("CloseBegin", "sid", sid)
				code, _ = shim.call("close", fmt.Sprintf(`{"id":%q}`, sid), version)
				hx.Emit("Call", "kind", "close", "arg", "valid", "sid", sid, "status", code)
				for i := 0; i < 200 && !be.sawClose(label); i++ {
					time.Sleep(5 * time.Millisecond)
				}
				shim.mu.Lock()
				p := shim.panicked
				shim.mu.Unlock()
				hx.Emit("Final", "panicked", p)
			}
			cancel()
		}
	}
}
