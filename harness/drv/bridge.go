package drv

import (
	"bufio"
	"bytes"
	"encoding/json"
	"fmt"
	"io"
	"math/rand"
	"net"
	"net/http"
	"os"
	"strconv"
	"strings"
	"sync"
	"sync/atomic"
	"time"

	"context"
	"net/http/httptest"
	"net/url"

	"github.com/google/inverting-proxy/utils/tcpbridge/connection"

	"verifharness/hx"
)

func init() {
	Drivers["bridge"] = bridgeDriver
	Drivers["bridgelib"] = bridgeLibDriver
}

type bridgeCase struct {
	Closer, Up, Down, Wseg, Rbuf, Pace string
}

// streamByte is the content of stream (conn c, direction d) at offset i: all 256 byte values occur.
func streamByte(c int, d string, i int) byte {
	k := 7
	if d == "down" {
		k = 13
	}
	return byte((i*k + c*31 + i/251) & 0xff)
}

func streamChunk(c int, d string, off, n int) []byte {
	b := make([]byte, n)
	for i := range b {
		b[i] = streamByte(c, d, off+i)
	}
	return b
}

func sizeOf(class string, rng *rand.Rand) int {
	switch class {
	case "1":
		return 1
	case "7":
		return 7
	case "small":
		return 2 + rng.Intn(300)
	case "1024":
		return 1024
	case "1025":
		return 1025
	case "4096":
		return 4096
	case "64k":
		return 65536
	}
	return 100
}

func amountOf(class string, rng *rand.Rand) int {
	switch class {
	case "small":
		return 1 + rng.Intn(2000)
	case "in-flight-large":
		if hx.Thorough() {
			return 2<<20 + rng.Intn(1<<20)
		}
		return 200000 + rng.Intn(100000)
	}
	return 0
}

// bridgeServer is the TCP server behind the bridge backend; it also answers plain HTTP.
type bridgeServer struct {
	ln    net.Listener
	open  int64
	conns chan net.Conn
}

func newBridgeServer() *bridgeServer {
	s := &bridgeServer{ln: listen(), conns: make(chan net.Conn, 256)}
	go func() {
		for {
			c, err := s.ln.Accept()
			if err != nil {
				return
			}
			atomic.AddInt64(&s.open, 1)
			go s.sniff(c)
		}
	}()
	return s
}

type countedConn struct {
	net.Conn
	br   *bufio.Reader
	s    *bridgeServer
	once sync.Once
}

func (c *countedConn) Read(p []byte) (int, error) { return c.br.Read(p) }
func (c *countedConn) Close() error {
	c.once.Do(func() { atomic.AddInt64(&c.s.open, -1) })
	return c.Conn.Close()
}

func (s *bridgeServer) sniff(c net.Conn) {
	br := bufio.NewReader(c)
	cc := &countedConn{Conn: c, br: br, s: s}
	c.SetReadDeadline(time.Now().Add(300 * time.Millisecond))
	head, _ := br.Peek(5)
	c.SetReadDeadline(time.Time{})
	if bytes.HasPrefix(head, []byte("GET /")) || bytes.HasPrefix(head, []byte("POST ")) {
		defer cc.Close()
		req, err := http.ReadRequest(br)
		if err != nil {
			return
		}
		body, _ := io.ReadAll(req.Body)
		resp := fmt.Sprintf("%s %s %s %s %s", req.Method, req.URL.RequestURI(), req.Host, req.Header.Get("X-Pass"), hx.Hash(body))
		fmt.Fprintf(c, "HTTP/1.1 200 OK\r\nContent-Length: %d\r\nX-Backend: yes\r\nConnection: close\r\n\r\n%s", len(resp), resp)
		return
	}
	s.conns <- cc
}

func halfClose(c net.Conn) {
	if _, isTCP := c.(*net.TCPConn); !isTCP {
		if _, counted := c.(*countedConn); !counted {
			if cw, ok := c.(interface{ CloseWrite() error }); ok {
				cw.CloseWrite()
				return
			}
		}
	}
	switch t := c.(type) {
	case *net.TCPConn:
		t.CloseWrite()
	case *countedConn:
		if tc, ok := t.Conn.(*net.TCPConn); ok {
			tc.CloseWrite()
		}
	default:
		c.Close()
	}
}

// peer drives one end of a bridged connection.
type peer struct {
	conn   net.Conn
	c      int
	outDir string // direction this peer writes
	inDir  string // direction this peer reads
	rng    *rand.Rand
	read   int
	wrote  int // stream offset of the next byte this peer writes
	eof    chan struct{}
	agg    int  // > 0: report reads in batches of at least this many bytes (tiny read buffers, large streams)
	slow   bool // pause a millisecond after every read
	// pauseAt > 0: stop reading for `pause` once, after that many bytes (a consumer that is busy for a while)
	pauseAt int
	pause   time.Duration
}

func (p *peer) write(total int, seg string) {
	// "<class>+empty": zero-length writes in between (a Write of no bytes carries nothing and ends nothing)
	empty := strings.HasSuffix(seg, "+empty")
	seg = strings.TrimSuffix(seg, "+empty")
	end := p.wrote + total
	for p.wrote < end {
		// one announcement (Wr) per write - or, with agg set, per group of writes of at least agg bytes
		var group []int
		sum := 0
		for p.wrote+sum < end && (len(group) == 0 || (p.agg > 0 && sum < p.agg)) {
			n := sizeOf(seg, p.rng)
			if n > end-p.wrote-sum {
				n = end - p.wrote - sum
			}
			group = append(group, n)
			sum += n
		}
		hx.Emit("Wr", "c", p.c, "d", p.outDir, "n", sum)
		for _, n := range group {
			if empty && p.rng.Intn(3) == 0 {
				if _, err := p.conn.Write(nil); err != nil {
					return
				}
			}
			if _, err := p.conn.Write(streamChunk(p.c, p.outDir, p.wrote, n)); err != nil {
				return
			}
			p.wrote += n
		}
	}
}

func (p *peer) readLoop(rbuf string) {
	defer close(p.eof)
	aggN, aggOK := 0, true
	for {
		buf := make([]byte, sizeOf(rbuf, p.rng))
		n, err := p.conn.Read(buf)
		if p.slow && len(buf) >= 1024 {
			time.Sleep(time.Millisecond)
		}
		if p.pauseAt > 0 && p.read+n >= p.pauseAt {
			p.pauseAt = 0
			time.Sleep(p.pause)
		}
		if n > 0 {
			ok := bytes.Equal(buf[:n], streamChunk(p.c, p.inDir, p.read, n))
			p.read += n
			if p.agg == 0 {
				hx.Emit("Rd", "c", p.c, "d", p.inDir, "n", n, "ok", ok)
			} else {
				aggN += n
				aggOK = aggOK && ok
				if aggN >= p.agg {
					hx.Emit("Rd", "c", p.c, "d", p.inDir, "n", aggN, "ok", aggOK)
					aggN, aggOK = 0, true
				}
			}
		}
		if err != nil && aggN > 0 {
			hx.Emit("Rd", "c", p.c, "d", p.inDir, "n", aggN, "ok", aggOK)
			aggN = 0
		}
		if err != nil {
			if err == io.EOF || strings.Contains(err.Error(), "connection reset by peer") {
				hx.Emit("PeerEOF", "c", p.c, "d", p.inDir, "total", p.read)
			}
			return
		}
	}
}

func bridgeDriver(a *Args) {
	res := a.Res
	var cases struct {
		Cases []bridgeCase `json:"cases"`
	}
	b, err := os.ReadFile(a.Cases)
	if err != nil || json.Unmarshal(b, &cases) != nil {
		res.Bad("cannot read cases %q: %v", a.Cases, err)
		return
	}
	rng := hx.Rand("bridge")
	srv := newBridgeServer()
	defer srv.ln.Close()
	backendPort := srv.ln.Addr().(*net.TCPAddr).Port
	bbPort, fePort := hx.FreePort(), hx.FreePort()
	bb, err := hx.Start("bridge-backend", hx.Bin("tcp-bridge-backend"), []string{fmt.Sprintf("-frontend-port=%d", bbPort), fmt.Sprintf("-backend-port=%d", backendPort)}, nil)
	if err != nil {
		res.Bad("bridge backend: %v", err)
		return
	}
	defer bb.Kill()
	fe, err := hx.Start("bridge-frontend", hx.Bin("tcp-bridge-frontend"), []string{fmt.Sprintf("-frontend-port=%d", fePort), fmt.Sprintf("-backend=ws://127.0.0.1:%d", bbPort)}, nil)
	if err != nil {
		res.Bad("bridge frontend: %v", err)
		return
	}
	defer fe.Kill()
	feAddr := fmt.Sprintf("127.0.0.1:%d", fePort)
	for i := 0; i < 200; i++ {
		if c, err := net.Dial("tcp", feAddr); err == nil {
			c.Close()
			break
		}
		time.Sleep(10 * time.Millisecond)
	}
	// drain the probe connection (and wait until the bridge has let go of it, if it ever does)
	select {
	case c := <-srv.conns:
		c.Close()
	case <-time.After(2 * time.Second):
	}
	time.Sleep(100 * time.Millisecond)
	atomic.StoreInt64(&srv.open, 0)
	// what "the bridge releases its connections" means for a process: its open file descriptors return to
	// what they were before the connections existed
	fdCount := func(p *hx.Proc) int {
		ents, err := os.ReadDir(fmt.Sprintf("/proc/%d/fd", p.Cmd.Process.Pid))
		if err != nil {
			return -1
		}
		return len(ents)
	}
	time.Sleep(200 * time.Millisecond)
	baseFE, baseBB := fdCount(fe), fdCount(bb)
	fdsLeaked := func() int {
		worst := 0
		deadline := time.Now().Add(3 * time.Second)
		for {
			worst = 0
			if d := fdCount(fe) - baseFE; baseFE >= 0 && d > worst {
				worst = d
			}
			if d := fdCount(bb) - baseBB; baseBB >= 0 && d > worst {
				worst = d
			}
			if worst == 0 || time.Now().After(deadline) {
				return worst
			}
			time.Sleep(20 * time.Millisecond)
		}
	}

	cn := 0
	var cnMu sync.Mutex
	var noConn int32
	runCase := func(bc bridgeCase, sig string, rng *rand.Rand) {
		if atomic.LoadInt32(&noConn) >= 3 {
			return // (three connections in a row never reached the server: the rest would only repeat that)
		}
		cnMu.Lock()
		cn++
		c := cn
		cnMu.Unlock()
		quiet := 5500 * time.Millisecond // quiet periods of the paces "long-reply" and "idle-before-close"
		if f := strings.SplitN(bc.Pace, ":", 2); len(f) == 2 {
			ms, _ := strconv.Atoi(f[1])
			quiet = time.Duration(ms) * time.Millisecond
			bc.Pace = f[0]
		}
		hx.Emit("Open", "c", c)
		cnMu.Lock() // (one connection is set up at a time, so that the server side that appears is this one's)
		cl, err := net.Dial("tcp", feAddr)
		if err != nil {
			cnMu.Unlock()
			res.Bad("dial frontend: %v", err)
			return
		}
		// the bridge dials the server when the websocket is established; a first byte is not needed
		var sc net.Conn
		select {
		case sc = <-srv.conns:
			cnMu.Unlock()
		case <-time.After(4 * time.Second):
			// the client is connected to the front end but no connection reaches the server (whoever is to speak
			// first): an observation for the trace (no action of TcpBridge explains it), not a harness failure
			cnMu.Unlock()
			hx.Emit("NoServerConn", "c", c)
			atomic.AddInt32(&noConn, 1)
			cl.Close()
			return
		}
		client := &peer{conn: cl, c: c, outDir: "up", inDir: "down", rng: rand.New(rand.NewSource(rng.Int63())), eof: make(chan struct{})}
		server := &peer{conn: sc, c: c, outDir: "down", inDir: "up", rng: rand.New(rand.NewSource(rng.Int63())), eof: make(chan struct{})}
		client.slow, server.slow = bc.Pace == "slow-reader", bc.Pace == "slow-reader"
		go client.readLoop(bc.Rbuf)
		go server.readLoop(bc.Rbuf)
		var wg sync.WaitGroup
		wg.Add(2)
		upN, downN := amountOf(bc.Up, rng), amountOf(bc.Down, rng)
		if bc.Wseg == "1" || bc.Rbuf == "1" || bc.Rbuf == "7" {
			// byte-sized operations: keep the event count bounded
			if upN > 3000 {
				upN = 3000
			}
			if downN > 3000 {
				downN = 3000
			}
		}
		go func() { defer wg.Done(); client.write(upN, bc.Wseg) }()
		go func() { defer wg.Done(); server.write(downN, bc.Wseg) }()
		wg.Wait()
		if bc.Pace == "idle-before-close" {
			// nothing happens on the connection for longer than common time-outs; then it is closed
			time.Sleep(quiet)
		}
		// a peer closes gracefully: it stops sending (FIN) and keeps reading until it sees the end of
		// the stream itself, so that its own kernel never answers in-flight data with a reset
		abortEnd := func(p *peer) {
			// abortive close: the peer's socket is reset
			hx.Emit("PeerClose", "c", c, "d", p.outDir, "abortive", true)
			var tc *net.TCPConn
			switch t := p.conn.(type) {
			case *net.TCPConn:
				tc = t
			case *countedConn:
				tc, _ = t.Conn.(*net.TCPConn)
			}
			if tc != nil {
				tc.SetLinger(0)
			}
			p.conn.Close()
		}
		closeEnd := func(p *peer) {
			hx.Emit("PeerClose", "c", c, "d", p.outDir, "abortive", false)
			halfClose(p.conn)
			go func() {
				select {
				case <-p.eof:
				case <-time.After(12*time.Second + 2*quiet):
				}
				p.conn.Close()
			}()
		}
		waitEOF := func(p *peer) bool {
			select {
			case <-p.eof:
				return true
			case <-time.After(10 * time.Second):
				return false
			}
		}
		switch bc.Closer {
		case "client-abort":
			// let in-flight data drain first: an abort is judged only for "the other peer notices"
			time.Sleep(30 * time.Millisecond)
			abortEnd(client)
			waitEOF(server)
			server.conn.Close()
		case "server-abort":
			time.Sleep(30 * time.Millisecond)
			abortEnd(server)
			waitEOF(client)
			client.conn.Close()
		case "client":
			closeEnd(client)
			waitEOF(server)
			hx.Emit("PeerClose", "c", c, "d", server.outDir, "abortive", false)
			server.conn.Close()
			waitEOF(client) // the first closer only stopped sending: it reads until the end of the stream
		case "server":
			closeEnd(server)
			waitEOF(client)
			hx.Emit("PeerClose", "c", c, "d", client.outDir, "abortive", false)
			client.conn.Close()
			waitEOF(server)
		case "client-half-reply", "server-half-reply":
			// request / half-close / reply: the first closer only shuts down its sending side and keeps
			// reading; the other peer answers AFTER it has seen the end of the request, then closes
			first, second := client, server
			if bc.Closer == "server-half-reply" {
				first, second = server, client
			}
			closeEnd(first)
			if waitEOF(second) {
				reply := amountOf(map[bool]string{true: bc.Down, false: bc.Up}[second == server], rng)
				if reply == 0 {
					reply = 1 + rng.Intn(5000)
				}
				if (bc.Wseg == "1" || bc.Rbuf == "1" || bc.Rbuf == "7") && reply > 3000 {
					reply = 3000
				}
				if bc.Pace == "long-reply" {
					// the reply keeps flowing for longer than common time-outs after the request side was closed
					for k := 0; k < 8; k++ {
						second.write(1+reply/8, bc.Wseg)
						time.Sleep(quiet / 7)
					}
				} else {
					second.write(reply, bc.Wseg)
				}
				hx.Emit("PeerClose", "c", c, "d", second.outDir, "abortive", false)
				halfClose(second.conn)
				waitEOF(first)
				second.conn.Close()
			}
		case "client-then-server":
			closeEnd(client)
			time.Sleep(time.Duration(rng.Intn(5)) * time.Millisecond)
			closeEnd(server)
			waitEOF(server)
			waitEOF(client)
		default:
			closeEnd(server)
			time.Sleep(time.Duration(rng.Intn(5)) * time.Millisecond)
			closeEnd(client)
			waitEOF(client)
			waitEOF(server)
		}
		// make sure nothing is left open by the harness itself, and that both read loops have ended
		// before the scenario is declared finished (no late events in the next scenario)
		client.conn.Close()
		server.conn.Close()
		for _, p := range []*peer{client, server} {
			select {
			case <-p.eof:
			case <-time.After(3 * time.Second):
			}
		}
		res.Case(sig, map[string]interface{}{"case": bc, "up_bytes": upN, "down_bytes": downN})
	}
	for i, bc := range cases.Cases {
		sig := fmt.Sprintf("bridge:%s/%s/%s/%s/%s/%s", bc.Closer, bc.Up, bc.Down, bc.Wseg, bc.Rbuf, bc.Pace)
		hx.Reset(fmt.Sprintf("bridge-%d", i), sig)
		runCase(bc, sig, rng)
		time.Sleep(30 * time.Millisecond)
		hx.Emit("Final", "server_open", atomic.LoadInt64(&srv.open), "bridge_fds_leaked", fdsLeaked())
	}
	// connections on which little happens for longer than common time-outs, all at the same time: a reply that
	// keeps flowing long after the request side was closed, and connections that are idle before they are closed
	{
		var quietCases []bridgeCase
		for _, d := range pauseClasses() {
			ms := fmt.Sprint(d.Milliseconds())
			quietCases = append(quietCases,
				bridgeCase{Closer: "client-half-reply", Up: "small", Down: "small", Wseg: "1024", Rbuf: "4096", Pace: "long-reply:" + ms},
				bridgeCase{Closer: "server-half-reply", Up: "small", Down: "small", Wseg: "small", Rbuf: "1024", Pace: "long-reply:" + ms},
				bridgeCase{Closer: "client", Up: "small", Down: "small", Wseg: "1024", Rbuf: "4096", Pace: "idle-before-close:" + ms},
				bridgeCase{Closer: "server", Up: "small", Down: "none", Wseg: "small", Rbuf: "64k", Pace: "idle-before-close:" + ms},
				bridgeCase{Closer: "client-then-server", Up: "none", Down: "small", Wseg: "1025", Rbuf: "1024", Pace: "idle-before-close:" + ms})
		}
		hx.Reset("bridge-quiet", "bridge:quiet-connections")
		var qwg sync.WaitGroup
		for i, bc := range quietCases {
			qwg.Add(1)
			go func(i int, bc bridgeCase) {
				defer qwg.Done()
				runCase(bc, fmt.Sprintf("bridge:%s/%s/%s/%s/%s/%s", bc.Closer, bc.Up, bc.Down, bc.Wseg, bc.Rbuf, bc.Pace), rand.New(rand.NewSource(int64(hx.Seed())*104729+int64(i))))
			}(i, bc)
		}
		qwg.Wait()
		time.Sleep(30 * time.Millisecond)
		hx.Emit("Final", "server_open", atomic.LoadInt64(&srv.open), "bridge_fds_leaked", fdsLeaked())
	}
	// concurrent connections, full duplex, nobody closes until all data has arrived
	conc := 4
	if hx.Thorough() {
		conc = 16
	}
	hx.Reset("bridge-concurrent", fmt.Sprintf("bridge:concurrent-%d", conc))
	var wg sync.WaitGroup
	var pmu sync.Mutex
	var peers []*peer
	for k := 0; k < conc; k++ {
		cn++
		c := cn
		hx.Emit("Open", "c", c)
		cl, err := net.Dial("tcp", feAddr)
		if err != nil {
			res.Bad("dial: %v", err)
			return
		}
		// which accepted server connection belongs to which client is learnt from the first byte
		client := &peer{conn: cl, c: c, outDir: "up", inDir: "down", rng: rand.New(rand.NewSource(rng.Int63())), eof: make(chan struct{})}
		pmu.Lock()
		peers = append(peers, client)
		pmu.Unlock()
	}
	// pair server connections: each client first sends its connection number as one byte outside the judged stream
	sconn := map[int]net.Conn{}
	for _, p := range peers {
		p.conn.Write([]byte{byte(p.c >> 24), byte(p.c >> 16), byte(p.c >> 8), byte(p.c)})
	}
	for range peers {
		select {
		case sc := <-srv.conns:
			four := make([]byte, 4)
			if _, err := io.ReadFull(sc, four); err == nil {
				sconn[int(four[0])<<24|int(four[1])<<16|int(four[2])<<8|int(four[3])] = sc
			}
		case <-time.After(10 * time.Second):
			res.Bad("missing bridged connection")
			return
		}
	}
	total := 256 * 1024
	if hx.Thorough() {
		total = 8 << 20
	}
	var servers []*peer
	for _, p := range peers {
		sp := &peer{conn: sconn[p.c], c: p.c, outDir: "down", inDir: "up", rng: rand.New(rand.NewSource(rng.Int63())), eof: make(chan struct{})}
		if sp.conn == nil {
			res.Bad("pairing failed for connection %d", p.c)
			return
		}
		servers = append(servers, sp)
		go p.readLoop("4096")
		go sp.readLoop("64k")
		wg.Add(2)
		go func(p *peer) { defer wg.Done(); p.write(total, "small") }(p)
		go func(sp *peer) { defer wg.Done(); sp.write(total, "64k") }(sp)
	}
	wg.Wait()
	// wait until everything has been read, then close from the client side and expect EOF at the servers
	deadline := time.Now().Add(60 * time.Second)
	for time.Now().Before(deadline) {
		done := true
		for i := range peers {
			if peers[i].read < total || servers[i].read < total {
				done = false
			}
		}
		if done {
			break
		}
		time.Sleep(5 * time.Millisecond)
	}
	for i, p := range peers {
		hx.Emit("PeerClose", "c", p.c, "d", "up", "abortive", false)
		halfClose(p.conn)
		select {
		case <-servers[i].eof:
		case <-time.After(10 * time.Second):
		}
		hx.Emit("PeerClose", "c", p.c, "d", "down", "abortive", false)
		servers[i].conn.Close()
		select {
		case <-p.eof:
		case <-time.After(10 * time.Second):
		}
	}
	time.Sleep(50 * time.Millisecond)
	hx.Emit("Final", "server_open", atomic.LoadInt64(&srv.open), "bridge_fds_leaked", fdsLeaked())
	res.Case(fmt.Sprintf("concurrent:%d", conc), map[string]interface{}{"connections": conc, "bytes_each_way": total})

	// many connections opened and closed over time, 16 at a time, closed from either side: afterwards the
	// bridge processes hold nothing
	churn := 400
	if hx.Thorough() {
		churn = 3000
	}
	for done := 0; done < churn; done += 200 {
		hx.Reset(fmt.Sprintf("bridge-churn-%d", done/200), "bridge:churn")
		batch := 200
		if churn-done < batch {
			batch = churn - done
		}
		var cw sync.WaitGroup
		sem := make(chan struct{}, 16)
		var pmu2 sync.Mutex
		pending := map[int]net.Conn{}
		accept := func(c int) net.Conn {
			deadline := time.After(10 * time.Second)
			for {
				pmu2.Lock()
				if x, ok := pending[c]; ok {
					delete(pending, c)
					pmu2.Unlock()
					return x
				}
				pmu2.Unlock()
				select {
				case x := <-srv.conns:
					four := make([]byte, 4)
					if _, err := io.ReadFull(x, four); err != nil {
						x.Close()
						continue
					}
					id := int(four[0])<<24 | int(four[1])<<16 | int(four[2])<<8 | int(four[3])
					if id == c {
						return x
					}
					pmu2.Lock()
					pending[id] = x
					pmu2.Unlock()
				case <-time.After(3 * time.Millisecond):
				case <-deadline:
					return nil
				}
			}
		}
		for k := 0; k < batch; k++ {
			cn++
			c := cn
			seed := rng.Int63()
			sem <- struct{}{}
			cw.Add(1)
			go func(k int) {
				defer cw.Done()
				defer func() { <-sem }()
				hx.Emit("Open", "c", c)
				cl, err := net.Dial("tcp", feAddr)
				if err != nil {
					res.Bad("churn dial: %v", err)
					return
				}
				cl.Write([]byte{byte(c >> 24), byte(c >> 16), byte(c >> 8), byte(c)})
				sc := accept(c)
				if sc == nil {
					hx.Emit("NoServerConn", "c", c)
					cl.Close()
					return
				}
				r := rand.New(rand.NewSource(seed))
				client := &peer{conn: cl, c: c, outDir: "up", inDir: "down", rng: r, eof: make(chan struct{})}
				server := &peer{conn: sc, c: c, outDir: "down", inDir: "up", rng: rand.New(rand.NewSource(seed + 1)), eof: make(chan struct{})}
				go client.readLoop("4096")
				go server.readLoop("4096")
				client.write(1+r.Intn(1500), "small")
				server.write(1+r.Intn(1500), "small")
				first, second := client, server
				if k%2 == 1 {
					first, second = server, client
				}
				hx.Emit("PeerClose", "c", c, "d", first.outDir, "abortive", false)
				halfClose(first.conn)
				select {
				case <-second.eof:
				case <-time.After(10 * time.Second):
				}
				hx.Emit("PeerClose", "c", c, "d", second.outDir, "abortive", false)
				second.conn.Close()
				select {
				case <-first.eof:
				case <-time.After(10 * time.Second):
				}
				first.conn.Close()
			}(k)
		}
		cw.Wait()
		time.Sleep(50 * time.Millisecond)
		hx.Emit("Final", "server_open", atomic.LoadInt64(&srv.open), "bridge_fds_leaked", fdsLeaked())
	}
	res.Case(fmt.Sprintf("churn:%d", churn), map[string]interface{}{"connections": churn, "parallel": 16})

	// plain HTTP to the bridge backend is passed through to the backend port
	hx.Reset("bridge-http", "bridge:http-passthrough")
	for _, m := range []string{"GET", "POST"} {
		var body io.Reader
		if m == "POST" {
			body = bytes.NewReader(pattern("bridge-http", 70000))
		}
		req, _ := http.NewRequest(m, fmt.Sprintf("http://127.0.0.1:%d/some/%%2Fpath?q=1&q=2", bbPort), body)
		req.Header.Set("X-Pass", "through")
		req.Host = "bridged.example"
		resp, err := (&http.Client{Timeout: 10 * time.Second}).Do(req)
		ok := false
		if err == nil {
			rb, _ := io.ReadAll(resp.Body)
			resp.Body.Close()
			wantBody := []byte(nil)
			if m == "POST" {
				wantBody = pattern("bridge-http", 70000)
			}
			want := fmt.Sprintf("%s /some/%%2Fpath?q=1&q=2 bridged.example through %s", m, hx.Hash(wantBody))
			ok = resp.StatusCode == 200 && resp.Header.Get("X-Backend") == "yes" && string(rb) == want
		}
		hx.Emit("Http", "method", m, "ok", ok)
		res.Case("http:"+m, map[string]interface{}{"method": m})
	}
	hx.Emit("Final", "server_open", 0, "bridge_fds_leaked", 0)
}

// bridgeLibDriver: C15 at the level of the connection package. The client end is the net.Conn that
// connection.DialWebsocket returns (a *WebsocketNetConn used directly, as programs embedding the
// bridge do), the server end is connection.Handler in process in front of a TCP server. Unlike the
// copy loops of the bridge binaries (32 KB buffers, never smaller than a message), the harness
// reads from the WebsocketNetConn with buffers of 1 byte .. 64 KB, so that the partially consumed
// message (bufferedMsg) is exercised, one connection at a time and 16 connections at once.
func bridgeLibDriver(a *Args) {
	res := a.Res
	rng := hx.Rand("bridgelib")
	srv := newBridgeServer()
	defer srv.ln.Close()
	backendPort := srv.ln.Addr().(*net.TCPAddr).Port
	hs := httptest.NewServer(connection.Handler(backendPort, http.NotFoundHandler()))
	defer hs.Close()
	u, _ := url.Parse("ws" + strings.TrimPrefix(hs.URL, "http") + connection.StreamingPath)
	cn := 0
	var cmu sync.Mutex
	one := func(rbuf, wseg string, upN, downN int) {
		cmu.Lock()
		cn++
		c := cn
		cmu.Unlock()
		hx.Emit("Open", "c", c)
		cl, err := connection.DialWebsocket(context.Background(), u, nil)
		if err != nil {
			res.Bad("DialWebsocket: %v", err)
			return
		}
		// pairing: the first four bytes name the connection (outside the judged stream)
		cl.Write([]byte{byte(c >> 24), byte(c >> 16), byte(c >> 8), byte(c)})
		var sc net.Conn
		deadline := time.After(10 * time.Second)
		for sc == nil {
			select {
			case x := <-srv.conns:
				four := make([]byte, 4)
				if _, err := io.ReadFull(x, four); err != nil {
					x.Close()
					continue
				}
				id := int(four[0])<<24 | int(four[1])<<16 | int(four[2])<<8 | int(four[3])
				if id == c {
					sc = x
				} else {
					libPending.Store(id, x)
				}
			case <-time.After(5 * time.Millisecond):
				if x, ok := libPending.LoadAndDelete(c); ok {
					sc = x.(net.Conn)
				}
			case <-deadline:
				hx.Emit("NoServerConn", "c", c)
				cl.Close()
				return
			}
		}
		client := &peer{conn: cl, c: c, outDir: "up", inDir: "down", rng: rand.New(rand.NewSource(rng.Int63())), eof: make(chan struct{}), agg: 4096}
		server := &peer{conn: sc, c: c, outDir: "down", inDir: "up", rng: rand.New(rand.NewSource(rng.Int63())), eof: make(chan struct{}), agg: 4096}
		go client.readLoop(rbuf)
		go server.readLoop("4096")
		var wg sync.WaitGroup
		wg.Add(2)
		go func() { defer wg.Done(); client.write(upN, wseg) }()
		go func() { defer wg.Done(); server.write(downN, wseg) }()
		wg.Wait()
		// wait until everything has arrived, then close from the client side
		deadline2 := time.Now().Add(60 * time.Second)
		for time.Now().Before(deadline2) && (client.read < downN || server.read < upN) {
			time.Sleep(2 * time.Millisecond)
		}
		hx.Emit("PeerClose", "c", c, "d", "up", "abortive", false)
		halfClose(cl)
		select {
		case <-server.eof:
		case <-time.After(10 * time.Second):
		}
		hx.Emit("PeerClose", "c", c, "d", "down", "abortive", false)
		sc.Close()
		select {
		case <-client.eof:
		case <-time.After(10 * time.Second):
		}
		cl.Close()
	}
	amount := 60000
	if hx.Thorough() {
		amount = 256 << 10
	}
	n := 0
	for _, rbuf := range []string{"1", "7", "small", "1024", "4096", "64k"} {
		wsegs := []string{"small", "1025", "64k"}
		if rbuf == "7" || rbuf == "4096" {
			wsegs = append(wsegs, "small+empty")
		}
		for _, wseg := range wsegs {
			n++
			hx.Reset(fmt.Sprintf("bridgelib-%d", n), fmt.Sprintf("bridgelib:rbuf=%s/wseg=%s", rbuf, wseg))
			up, down := amount, amount
			if rbuf == "1" {
				up, down = 3000, 3000
			}
			one(rbuf, wseg, up, down)
			time.Sleep(20 * time.Millisecond)
			hx.Emit("Final", "server_open", 0, "judge_close", false, "bridge_fds_leaked", 0)
			res.Case(fmt.Sprintf("lib:rbuf=%s/wseg=%s", rbuf, wseg), map[string]interface{}{"read_buffer": rbuf, "write_segments": wseg, "bytes_each_way": up})
		}
	}
	// a reader that stops reading for eleven seconds while megabytes are on their way: nothing may be cut short
	{
		hx.Reset("bridgelib-paused", "bridgelib:paused-reader")
		cmu.Lock()
		cn++
		c := cn
		cmu.Unlock()
		hx.Emit("Open", "c", c)
		cl, err := connection.DialWebsocket(context.Background(), u, nil)
		if err != nil {
			res.Bad("DialWebsocket: %v", err)
			return
		}
		cl.Write([]byte{byte(c >> 24), byte(c >> 16), byte(c >> 8), byte(c)})
		var sc net.Conn
		select {
		case sc = <-srv.conns:
			io.ReadFull(sc, make([]byte, 4))
		case <-time.After(10 * time.Second):
			hx.Emit("NoServerConn", "c", c)
			return
		}
		const big = 12 << 20
		client := &peer{conn: cl, c: c, outDir: "up", inDir: "down", rng: rand.New(rand.NewSource(rng.Int63())), eof: make(chan struct{}), agg: 1 << 20, pauseAt: 4096, pause: 11 * time.Second}
		server := &peer{conn: sc, c: c, outDir: "down", inDir: "up", rng: rand.New(rand.NewSource(rng.Int63())), eof: make(chan struct{}), agg: 1 << 20}
		go client.readLoop("64k")
		go server.readLoop("4096")
		sc.SetWriteDeadline(time.Now().Add(30 * time.Second)) // (a bridge that stops forwarding must not hang the harness)
		server.write(big, "64k")
		hx.Emit("PeerClose", "c", c, "d", "down", "abortive", false)
		halfClose(sc)
		select {
		case <-client.eof:
		case <-time.After(20 * time.Second):
		}
		hx.Emit("PeerClose", "c", c, "d", "up", "abortive", false)
		cl.Close()
		select {
		case <-server.eof:
		case <-time.After(10 * time.Second):
		}
		sc.Close()
		time.Sleep(20 * time.Millisecond)
		hx.Emit("Final", "server_open", 0, "judge_close", false, "bridge_fds_leaked", 0)
		res.Case("lib:paused-reader-11s", map[string]interface{}{"bytes": big, "pause_s": 11})
	}
	// 16 connections at once, small read buffers on the websocket side, messages larger than the buffers
	rounds := 2
	if hx.Thorough() {
		rounds = 10
	}
	for r := 0; r < rounds; r++ {
		hx.Reset(fmt.Sprintf("bridgelib-conc-%d", r), "bridgelib:concurrent-16")
		var wg sync.WaitGroup
		for k := 0; k < 16; k++ {
			wg.Add(1)
			rb, ws := []string{"7", "small", "1024"}[k%3], []string{"1025", "64k"}[k%2]
			go func() {
				defer wg.Done()
				one(rb, ws, amount, amount)
			}()
		}
		wg.Wait()
		time.Sleep(20 * time.Millisecond)
		hx.Emit("Final", "server_open", 0, "judge_close", false, "bridge_fds_leaked", 0)
		res.Case(fmt.Sprintf("lib:concurrent-16:round%d", r), map[string]interface{}{"connections": 16, "bytes_each_way": amount})
	}
}

var libPending sync.Map
