package drv

import (
	"bufio"
	"bytes"
	"encoding/json"
	"fmt"
	"io"
	"net"
	"net/http"
	"os"
	"strings"
	"sync"
	"time"

	"verifharness/hx"
)

func init() {
	Drivers["proxyenv"] = proxyEnvDriver
}

type envStep struct {
	Op string `json:"op"`
	R  string `json:"r"`
}

// traceTail follows the shared trace file so that the harness can wait for hook events of the proxy
// (e.g. the Register event that tells which request ID a client request was given).
type traceTail struct {
	path string
	off  int64
	evs  []map[string]interface{}
}

func (t *traceTail) poll() {
	f, err := os.Open(t.path)
	if err != nil {
		return
	}
	defer f.Close()
	f.Seek(t.off, io.SeekStart)
	br := bufio.NewReader(f)
	for {
		line, err := br.ReadBytes('\n')
		if err != nil {
			return // an incomplete last line is read again next time
		}
		t.off += int64(len(line))
		var ev map[string]interface{}
		if json.Unmarshal(line, &ev) == nil {
			t.evs = append(t.evs, ev)
		}
	}
}

func (t *traceTail) waitFor(pred func(map[string]interface{}) bool, d time.Duration) map[string]interface{} {
	deadline := time.Now().Add(d)
	seen := 0
	for {
		t.poll()
		for ; seen < len(t.evs); seen++ {
			if pred(t.evs[seen]) {
				return t.evs[seen]
			}
		}
		if time.Now().After(deadline) {
			return nil
		}
		time.Sleep(time.Millisecond)
	}
}

// proxyEnvDriver: TLC-enumerated schedules of the proxy's environment, performed step by step against
// the real proxy binary with the harness playing clients, agent and foreign poller (C01/C04 proxy side).
func proxyEnvDriver(a *Args) {
	res := a.Res
	var cases struct {
		Schedules [][]envStep `json:"schedules"`
	}
	b, err := os.ReadFile(a.Cases)
	if err != nil || json.Unmarshal(b, &cases) != nil {
		res.Bad("cannot read cases %q: %v", a.Cases, err)
		return
	}
	tracePath := os.Getenv("VERIF_TRACE")
	for n, sched := range cases.Schedules {
		var shape []string
		for _, s := range sched {
			shape = append(shape, s.Op+s.R)
		}
		hx.Reset(fmt.Sprintf("proxyenv-%d", n), "proxyenv:"+strings.Join(shape, ","))
		tail := &traceTail{path: tracePath}
		if st, err := os.Stat(tracePath); err == nil {
			tail.off = st.Size()
		}
		proxy, port, err := hx.StartProxy(hx.Bin("proxy"), nil)
		if err != nil {
			res.Bad("proxy: %v", err)
			return
		}
		addr := fmt.Sprintf("127.0.0.1:%d", port)
		type client struct {
			path      string
			conn      net.Conn
			done      chan struct{}
			id        string
			victim    bool
			cancelled bool
			fetched   string // token found in the fetched request
		}
		clients := map[string]*client{}
		var emitMu sync.Mutex
		seen := map[string]bool{}
		agentCall := func(method, path, backend, id string, body []byte, timeout time.Duration) (int, []byte) {
			req, _ := http.NewRequest(method, "http://"+addr+path, bytes.NewReader(body))
			req.Header.Set("X-Inverting-Proxy-Backend-ID", backend)
			if id != "" {
				req.Header.Set("X-Inverting-Proxy-Request-ID", id)
			}
			cl := &http.Client{Transport: &http.Transport{DisableKeepAlives: true}, Timeout: timeout}
			resp, err := cl.Do(req)
			if err != nil {
				return 0, nil
			}
			defer resp.Body.Close()
			rb, _ := io.ReadAll(resp.Body)
			return resp.StatusCode, rb
		}
		markVictim := func(c *client, why string) {
			if !c.victim {
				c.victim = true
				hx.Emit("Fault", "r", c.path, "kind", why)
			}
		}
		for _, st := range sched {
			switch st.Op {
			case "Send":
				c := &client{path: fmt.Sprintf("/t/env%d-%s", n, st.R), done: make(chan struct{})}
				clients[st.R] = c
				conn, err := net.Dial("tcp", addr)
				if err != nil {
					res.Bad("dial proxy: %v", err)
					proxy.Kill()
					return
				}
				c.conn = conn
				hx.Emit("ClientSend", "r", c.path)
				fmt.Fprintf(conn, "GET %s HTTP/1.1\r\nHost: svc.example\r\nX-Req-Token: %s\r\n\r\n", c.path, c.path)
				go func(c *client) {
					defer close(c.done)
					resp, err := http.ReadResponse(bufio.NewReader(c.conn), nil)
					if err != nil {
						return
					}
					body, _ := io.ReadAll(resp.Body)
					kind, tok := "ok", strings.TrimPrefix(string(body), "resp-for-")
					if resp.StatusCode != 200 || !strings.HasPrefix(string(body), "resp-for-") {
						kind = fmt.Sprintf("status%d", resp.StatusCode)
						tok = c.path
					}
					emitMu.Lock()
					hx.Emit("ClientRecv", "r", c.path, "kind", kind, "tok", tok)
					emitMu.Unlock()
				}(c)
				// wait until the proxy has registered the request (and learn its ID)
				ev := tail.waitFor(func(e map[string]interface{}) bool { return e["ev"] == "Register" && e["uri"] == c.path }, 5*time.Second)
				if ev == nil {
					res.Bad("no Register event for %s", c.path)
					proxy.Kill()
					return
				}
				c.id, _ = ev["id"].(string)
				time.Sleep(2 * time.Millisecond) // let the handler park on the ID channel
			case "Cancel":
				c := clients[st.R]
				markVictim(c, "client-disconnect")
				c.cancelled = true
				c.conn.Close()
				// the proxy notices the disconnect; if the ID was still on offer it is withdrawn
				tail.waitFor(func(e map[string]interface{}) bool { return e["ev"] == "ClientCancel" && e["id"] == c.id }, 3*time.Second)
			case "List", "ForeignList":
				backend := "agent"
				if st.Op == "ForeignList" {
					backend = "harness"
				}
				code, body := agentCall("GET", "/agent/pending", backend, "", nil, 5*time.Second)
				var ids []string
				json.Unmarshal(body, &ids)
				if code != 200 {
					res.Note("list call answered %d", code)
				}
				if backend == "agent" {
					if ids == nil {
						ids = []string{}
					}
					hx.Emit("ListOK", "ids", ids)
					for _, id := range ids {
						hx.Emit("Dedup", "id", id)
						if !seen[id] {
							seen[id] = true
							hx.Emit("Spawn", "id", id)
						}
					}
				} else {
					for _, id := range ids {
						for _, c := range clients {
							if c.id == id {
								markVictim(c, "foreign-poller")
							}
						}
					}
				}
			case "Fetch":
				c := clients[st.R]
				code, body := agentCall("GET", "/agent/request", "agent", c.id, nil, 5*time.Second)
				if code == 200 {
					if req, err := http.ReadRequest(bufio.NewReader(bytes.NewReader(body))); err == nil {
						c.fetched = req.URL.Path
					}
				}
				hx.Emit("WForward", "id", c.id, "user", "")
				hx.Emit("BackendHandle", "tok", c.fetched, "method", "GET")
				hx.Emit("BackendReply", "tok", c.fetched)
			case "Post":
				c := clients[st.R]
				text := "resp-for-" + c.fetched
				raw := fmt.Sprintf("HTTP/1.1 200 OK\r\nContent-Length: %d\r\n\r\n%s", len(text), text)
				timeout := 5 * time.Second
				if c.cancelled {
					timeout = 300 * time.Millisecond // nobody is waiting: the call can only end by giving up
				}
				agentCall("POST", "/agent/response", "agent", c.id, []byte(raw), timeout)
				if !c.cancelled {
					select {
					case <-c.done:
					case <-time.After(5 * time.Second):
					}
				}
			}
		}
		// wind down: whoever was not served is a victim of the schedule itself (never listed, taken by the
		// foreign poller, cancelled, fetched but never answered)
		for _, c := range clients {
			select {
			case <-c.done:
				continue
			default:
			}
			markVictim(c, "not-served-by-schedule")
			if !c.cancelled {
				c.conn.Close()
				tail.waitFor(func(e map[string]interface{}) bool { return e["ev"] == "ClientCancel" && e["id"] == c.id }, 2*time.Second)
			}
			emitMu.Lock()
			hx.Emit("ClientGaveUp", "r", c.path)
			emitMu.Unlock()
		}
		ex, _ := proxy.Exited()
		hx.Emit("Final", "agent_alive", true, "proxy_alive", !ex)
		proxy.Kill()
		res.Case(strings.Join(shape, ","), map[string]interface{}{"schedule": shape})
	}
}
