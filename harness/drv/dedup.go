package drv

import (
	"encoding/json"
	"fmt"
	"io"
	"net/http"
	"os"
	"sort"
	"strings"
	"sync"
	"time"

	"verifharness/fakes"
	"verifharness/hx"
)

func init() {
	Drivers["dedup"] = dedupDriver
}

type dedupCases struct {
	Histories [][][]string `json:"histories"`
	// Window scenarios: number of distinct IDs listed before the first one is listed again.
	Window []int `json:"window"`
}

// dedupDriver replays TLC-generated pending-list histories (AgentDedupGen) against the real
// agent binary: a scripted fake proxy plays each history, a counting backend records forwards.
func dedupDriver(a *Args) {
	res := a.Res
	var cases dedupCases
	b, err := os.ReadFile(a.Cases)
	if err != nil {
		res.Bad("cannot read cases: %v", err)
		return
	}
	if err := json.Unmarshal(b, &cases); err != nil {
		res.Bad("cannot parse cases: %v", err)
		return
	}
	rng := hx.Rand("dedup")
	md := hx.StartMetadata()
	defer md.Close()

	var mu sync.Mutex
	calls := map[string]int{}
	posts := map[string]int{}
	backend := &http.Server{Handler: http.HandlerFunc(func(w http.ResponseWriter, r *http.Request) {
		id := strings.TrimPrefix(r.URL.Path, "/d/")
		mu.Lock()
		calls[id]++
		mu.Unlock()
		hx.Emit("BackendHandle", "tok", r.URL.Path, "id", id)
		io.WriteString(w, "served "+id)
	})}
	bln := listen()
	go backend.Serve(bln)
	defer backend.Close()

	fp := fakes.NewFakeProxy()
	defer fp.Close()
	fp.OnList = func(ids []string) { hx.Emit("FakeList", "ids", ids) }
	fp.OnListFail = func(kind string) { hx.Emit("FakeListFail", "kind", kind) }
	fp.Fetch = func(id string) ([]byte, string, int) {
		hx.Emit("FakeFetch", "id", id)
		if d := rng.Intn(4); d > 0 {
			time.Sleep(time.Duration(d) * time.Millisecond)
		}
		return []byte("GET /d/" + id + " HTTP/1.1\r\nHost: backend.example\r\n\r\n"), "", 200
	}
	// uploads of IDs marked "-uf" fail at transport level: the proxy hangs up on every attempt
	var fmu sync.Mutex
	failedPosts := map[string]int{}
	fp.Post = func(w http.ResponseWriter, r *http.Request, id string) {
		if !strings.HasSuffix(id, "-uf") {
			u := fp.ReadUpload(r, id)
			if fp.OnUpload != nil {
				fp.OnUpload(u)
			}
			w.WriteHeader(200)
			return
		}
		fmu.Lock()
		failedPosts[id]++
		n := failedPosts[id]
		fmu.Unlock()
		mu.Lock()
		if n >= 3 {
			posts[id]++ // the exchange is over for the driver's wait loop: nothing more will come
		}
		mu.Unlock()
		hx.Emit("FakePostFail", "id", id, "attempt", n, "final", n == 3)
		if hj, ok := w.(http.Hijacker); ok {
			if c, _, err := hj.Hijack(); err == nil {
				c.Close()
				return
			}
		}
		w.WriteHeader(500)
	}
	fp.OnUpload = func(u *fakes.Upload) {
		ok := u.Err == nil && u.Resp != nil && u.Resp.StatusCode == 200 && string(u.Body) == "served "+u.ID
		mu.Lock()
		posts[u.ID]++
		mu.Unlock()
		hx.Emit("FakePost", "id", u.ID, "ok", ok)
	}

	var agent *hx.Proc
	cfg := hx.AgentConfig{} // the configuration the next agent is started with
	idsUsed := 0
	unserved := 0
	startAgent := func() bool {
		if agent != nil {
			agent.Kill()
			// the killed agent's list call may still be parked at the fake proxy: let it go before anything is pushed
			fp.WaitNoParked(5 * time.Second)
		}
		var err error
		agent, err = hx.StartAgentCfg(hx.Bin("agent"), md, fp.URL(), bln.Addr().String(), "agent", cfg, nil, nil)
		if err != nil {
			res.Bad("cannot start agent: %v", err)
			return false
		}
		idsUsed = 0
		return true
	}
	defer func() {
		if agent != nil {
			agent.Kill()
		}
	}()

	play := func(name, sig string, hist [][]string, distinct int) {
		if agent == nil || idsUsed+distinct > 900 {
			// fresh agent so that IDs of earlier histories can never be evicted from its window
			if !startAgent() {
				return
			}
		}
		idsUsed += distinct + 1
		hx.Reset(name, sig)
		want := map[string]bool{}
		for _, batch := range hist {
			for _, id := range batch {
				want[id] = true
			}
			if len(batch) == 0 {
				// a failing list call (AgentDedup!EnvListFail): what the agent has seen must survive it
				fp.Push([]string{"!fail"})
				continue
			}
			fp.Push(batch)
			if d := rng.Intn(6); d > 0 {
				time.Sleep(time.Duration(d) * time.Millisecond)
			}
		}
		// IDs whose uploads fail for good are listed once more after the last hang-up: a request that was
		// forwarded must not be forwarded again because its upload failed
		var again []string
		for id := range want {
			if strings.HasSuffix(id, "-uf") {
				again = append(again, id)
			}
		}
		if len(again) > 0 {
			sort.Strings(again)
			deadline := time.Now().Add(8 * time.Second)
			for time.Now().Before(deadline) {
				fmu.Lock()
				all := true
				for _, id := range again {
					if failedPosts[id] < 3 {
						all = false
					}
				}
				fmu.Unlock()
				if all {
					break
				}
				time.Sleep(3 * time.Millisecond)
			}
			time.Sleep(10 * time.Millisecond)
			fp.Push(again)
			time.Sleep(30 * time.Millisecond)
		}
		// a last batch with one new ID: the agent works its lists off one after the other, so when this ID has been
		// served every earlier list has been processed - nothing of this history is logged into the next one
		want[name+"-end"] = true
		fp.Push([]string{name + "-end"})
		// wait until every listed ID was served once, then a settle time for stray duplicates. (An ID that
		// is never served is a fact the trace shows; after three such histories the remaining ones wait
		// only briefly, so that a broken agent does not turn the run into hours of waiting.)
		wait := 20 * time.Second
		if unserved >= 3 {
			wait = 400 * time.Millisecond
		}
		deadline := time.Now().Add(wait)
		done := false
		for time.Now().Before(deadline) {
			mu.Lock()
			done = true
			for id := range want {
				if posts[id] < 1 {
					done = false
				}
			}
			mu.Unlock()
			if done {
				break
			}
			time.Sleep(2 * time.Millisecond)
		}
		if !done {
			unserved++
		}
		time.Sleep(15 * time.Millisecond)
		ex, code := agent.Exited()
		kv := []interface{}{"agent_alive", !ex}
		if ex {
			kv = append(kv, "agent_exit", code)
			res.Note("agent exited with %d: %s", code, hx.Tail(agent.Output(), 1500))
			agent = nil
		}
		hx.Emit("Final", kv...)
	}

	n := 0
	for _, h := range cases.Histories {
		n++
		// fresh ID namespace per history
		hist := make([][]string, len(h))
		distinct := map[string]bool{}
		shape := ""
		failing := ""
		if n%4 == 0 && len(h) > 0 && len(h[0]) > 0 {
			failing = h[0][0] // in every fourth history the uploads of the first listed ID fail at transport level
		}
		for i, batch := range h {
			for _, x := range batch {
				id := fmt.Sprintf("h%d-%s", n, x)
				if x == failing {
					id += "-uf"
				}
				hist[i] = append(hist[i], id)
				distinct[x] = true
			}
			if len(batch) == 0 {
				shape += "FAIL"
			}
			shape += strings.Join(batch, "") + "|"
		}
		if failing != "" {
			shape += "upload-fails:" + failing
		}
		play(fmt.Sprintf("dedup-h%d", n), "dedup-history", hist, len(distinct))
		res.Case("hist:"+shape, map[string]interface{}{"history": h})
	}
	for wi, total := range cases.Window {
		// `total` distinct IDs in batches of 100, then the first ID again, then the last one again
		var hist [][]string
		var batch []string
		for k := 0; k < total; k++ {
			batch = append(batch, fmt.Sprintf("w%d-%d-%d", wi, total, k))
			if len(batch) == 100 || k == total-1 {
				hist = append(hist, batch)
				batch = nil
			}
		}
		hist = append(hist, []string{fmt.Sprintf("w%d-%d-%d", wi, total, 0)})
		hist = append(hist, []string{fmt.Sprintf("w%d-%d-%d", wi, total, total-1)})
		if agent != nil { // force a fresh agent: the window must contain only this scenario's IDs
			agent.Kill()
			agent = nil
			fp.WaitNoParked(5 * time.Second)
		}
		play(fmt.Sprintf("dedup-window-%d", total), fmt.Sprintf("dedup-window-%d", total), hist, 10000)
		res.Case(fmt.Sprintf("window:%d", total), map[string]interface{}{"distinct_ids": total, "relisted": "first and last"})
	}
	// de-duplication does not depend on the agent's other settings (spec/AgentConfig.tla, Neutral.C04): under every
	// configuration chosen for this run a fresh agent plays a few of the histories and a window of 60 IDs whose
	// first and last are listed again
	cfgs := hx.AgentConfigs()
	res.Extra["agent_configurations"] = len(cfgs)
	for ci, c := range cfgs {
		if c.Name() == "default" {
			continue
		}
		cfg = c
		if agent != nil {
			agent.Kill()
			agent = nil
			fp.WaitNoParked(5 * time.Second)
		}
		played := 0
		for hi, h := range cases.Histories {
			if hi%7 != ci%7 || len(h) == 0 || played >= 6 {
				continue
			}
			played++
			hist := make([][]string, len(h))
			distinct := map[string]bool{}
			for i, batch := range h {
				for _, x := range batch {
					hist[i] = append(hist[i], fmt.Sprintf("c%d-h%d-%s", ci, hi, x))
					distinct[x] = true
				}
			}
			play(fmt.Sprintf("dedup-c%d-h%d", ci, hi), "dedup-history@"+c.Name(), hist, len(distinct))
		}
		var hist [][]string
		var batch []string
		for k := 0; k < 60; k++ {
			batch = append(batch, fmt.Sprintf("c%d-w-%d", ci, k))
			if len(batch) == 20 {
				hist = append(hist, batch)
				batch = nil
			}
		}
		hist = append(hist, []string{fmt.Sprintf("c%d-w-%d", ci, 0)}, []string{fmt.Sprintf("c%d-w-%d", ci, 59)})
		play(fmt.Sprintf("dedup-c%d-window", ci), "dedup-window-60@"+c.Name(), hist, 60)
		res.Case("config:"+c.Name(), map[string]interface{}{"agent_configuration": c.Name()})
	}
}
