package drv

import (
	"bufio"
	"bytes"
	"encoding/json"
	"fmt"
	"io"
	"net"
	"net/http"
	"net/http/httputil"
	"os"
	"os/exec"
	"reflect"
	"strconv"
	"strings"
	"sync"
	"sync/atomic"
	"time"

	"github.com/google/inverting-proxy/agent/utils"
	"github.com/google/inverting-proxy/verifhook"

	"verifharness/fakes"
	"verifharness/hx"
)

func init() {
	Drivers["upload"] = uploadDriver
	Drivers["stream"] = streamDriver
}

// ---------------------------------------------------------------------------------------------
// handler scripts: what the backend-facing handler writes into the response forwarder
// ---------------------------------------------------------------------------------------------

type handlerScript struct {
	Name    string
	Pieces  []int
	Trailer bool
	// Pause is how long the handler waits before it writes piece k (k >= 1): a backend that goes quiet in the
	// middle of its response for longer than common time-outs
	Pause time.Duration
}

func (h handlerScript) piece(k int) []byte {
	return pattern(fmt.Sprintf("%s/piece%d", h.Name, k), h.Pieces[k])
}

// streamObserver incrementally parses an uploaded serialised response and reports when each
// body piece of the script has been received completely.
type streamObserver struct {
	pw      *io.PipeWriter
	done    chan struct{}
	mu      sync.Mutex
	got     int
	pieceCh chan int
	status  int
	header  http.Header
	trailer http.Header
	body    []byte
	err     error
}

func newStreamObserver(h handlerScript, keepBody bool) *streamObserver {
	pr, pw := io.Pipe()
	o := &streamObserver{pw: pw, done: make(chan struct{}), pieceCh: make(chan int, len(h.Pieces)+1)}
	go func() {
		defer close(o.done)
		defer io.Copy(io.Discard, pr)
		resp, err := http.ReadResponse(bufio.NewReader(pr), nil)
		if err != nil {
			o.err = err
			return
		}
		o.status, o.header = resp.StatusCode, resp.Header
		bound := 0
		k := 0
		buf := make([]byte, 64*1024)
		total := 0
		for {
			n, err := resp.Body.Read(buf)
			if n > 0 {
				total += n
				if keepBody {
					o.body = append(o.body, buf[:n]...)
				}
				for k < len(h.Pieces) && total >= bound+h.Pieces[k] {
					bound += h.Pieces[k]
					k++
					o.pieceCh <- k
				}
			}
			if err != nil {
				if err != io.EOF {
					o.err = err
				}
				break
			}
		}
		o.trailer = resp.Trailer
	}()
	return o
}

// ---------------------------------------------------------------------------------------------
// byte-level fault server for the upload endpoint
// ---------------------------------------------------------------------------------------------

type upStep struct{ Kind, Pos string }

type faultServer struct {
	ln      net.Listener
	script  []upStep
	ref     []byte // reference serialisation (decoded upload body) or nil while recording it
	mu      sync.Mutex
	attempt int
	acked   [][]byte
	wg      sync.WaitGroup
}

func newFaultServer(script []upStep, ref []byte) *faultServer {
	s := &faultServer{ln: listen(), script: script, ref: ref}
	go s.acceptLoop()
	return s
}

func (s *faultServer) url() string { return "http://" + s.ln.Addr().String() + "/" }
func (s *faultServer) close() {
	s.ln.Close()
}

func (s *faultServer) acceptLoop() {
	for {
		c, err := s.ln.Accept()
		if err != nil {
			return
		}
		go s.serveConn(c)
	}
}

func (s *faultServer) nextAttempt() (int, upStep) {
	s.mu.Lock()
	defer s.mu.Unlock()
	s.attempt++
	a := s.attempt
	st := upStep{"ack", "end"}
	if a <= len(s.script) {
		st = s.script[a-1]
	}
	hx.Emit("UpStart", "a", a, "kind", st.Kind, "pos", st.Pos)
	return a, st
}

func (s *faultServer) fail(c net.Conn, br *bufio.Reader, a int, st upStep, got int) (keep bool) {
	hx.Emit("UpFail", "a", a, "kind", st.Kind, "pos", st.Pos, "got", got)
	switch st.Kind {
	case "5xx-keep":
		c.Write([]byte("HTTP/1.1 500 Internal Server Error\r\nContent-Length: 5\r\n\r\nerror"))
		// keep the connection open and swallow whatever the (stale) writer still sends
		go func() {
			io.Copy(io.Discard, br)
			c.Close()
		}()
		return true
	case "307-keep", "308-keep":
		// a redirect that obliges a client which follows it to repeat the POST with its body; whatever arrives
		// at the new location is the next attempt of the script
		line := map[string]string{"307-keep": "307 Temporary Redirect", "308-keep": "308 Permanent Redirect"}[st.Kind]
		fmt.Fprintf(c, "HTTP/1.1 %s\r\nLocation: /agent/response-moved-%d\r\nContent-Length: 0\r\n\r\n", line, a)
		go func() {
			io.Copy(io.Discard, br)
			c.Close()
		}()
		return true
	case "5xx-close":
		c.Write([]byte("HTTP/1.1 500 Internal Server Error\r\nConnection: close\r\nContent-Length: 5\r\n\r\nerror"))
		c.Close()
	case "reset":
		if tc, ok := c.(*net.TCPConn); ok {
			tc.SetLinger(0)
		}
		c.Close()
	default:
		c.Close()
	}
	return false
}

func posLimit(pos string) int {
	switch pos {
	case "early":
		return 50
	case "limit":
		return 4096
	case "past":
		return 6000
	}
	return -1
}

func (s *faultServer) serveConn(c net.Conn) {
	br := bufio.NewReaderSize(c, 64*1024)
	for {
		// wait for the first byte of a request (or fail before reading anything)
		if _, err := br.Peek(1); err != nil {
			c.Close()
			return
		}
		a, st := s.nextAttempt()
		if st.Kind != "ack" && st.Pos == "pre" {
			s.fail(c, br, a, st, 0)
			return
		}
		if st.Kind != "ack" && st.Pos == "head" {
			br.Discard(20)
			s.fail(c, br, a, st, 0)
			return
		}
		req, err := http.ReadRequest(br)
		if err != nil {
			c.Close()
			return
		}
		_ = req
		if st.Kind != "ack" && st.Pos == "body0" {
			s.fail(c, br, a, st, 0)
			return
		}
		body := httputil.NewChunkedReader(br)
		var got bytes.Buffer
		limit := -1
		if st.Kind != "ack" {
			limit = posLimit(st.Pos)
		}
		buf := make([]byte, 32*1024)
		complete := false
		for {
			max := len(buf)
			if limit >= 0 && limit-got.Len() < max {
				max = limit - got.Len()
			}
			if max == 0 {
				break
			}
			n, err := body.Read(buf[:max])
			got.Write(buf[:n])
			if err == io.EOF {
				complete = true
				break
			}
			if err != nil {
				// the client gave up on this attempt
				hx.Emit("UpAbort", "a", a, "got", got.Len())
				c.Close()
				return
			}
		}
		if st.Kind != "ack" {
			s.fail(c, br, a, st, got.Len())
			return
		}
		if !complete {
			c.Close()
			return
		}
		// consume the trailing CRLF of the chunked body
		br.Discard(2)
		eq, detail := true, ""
		if s.ref != nil {
			eq, detail = sameUpload(got.Bytes(), s.ref)
		}
		s.mu.Lock()
		s.acked = append(s.acked, append([]byte(nil), got.Bytes()...))
		s.mu.Unlock()
		hx.Emit("UpAck", "a", a, "eq", eq, "len", got.Len(), "detail", detail)
		c.Write([]byte("HTTP/1.1 200 OK\r\nContent-Length: 0\r\n\r\n"))
	}
}

type parsedUpload struct {
	Status  int
	Header  http.Header
	Body    []byte
	Trailer http.Header
}

func parseUpload(b []byte) (*parsedUpload, error) {
	br := bufio.NewReader(bytes.NewReader(b))
	resp, err := http.ReadResponse(br, nil)
	if err != nil {
		return nil, fmt.Errorf("head: %v", err)
	}
	body, err := io.ReadAll(resp.Body)
	if err != nil {
		return nil, fmt.Errorf("body after %d bytes: %v", len(body), err)
	}
	if rest, _ := io.ReadAll(br); len(rest) > 0 {
		return nil, fmt.Errorf("%d bytes after the end of the response", len(rest))
	}
	return &parsedUpload{resp.StatusCode, resp.Header, body, resp.Trailer}, nil
}

// sameUpload compares an acknowledged upload with the reference serialisation.
func sameUpload(got, ref []byte) (bool, string) {
	if bytes.Equal(got, ref) {
		return true, ""
	}
	g, err := parseUpload(got)
	if err != nil {
		return false, fmt.Sprintf("acknowledged upload does not parse (%v); %d bytes vs %d reference bytes; starts %q", err, len(got), len(ref), headOf(got, 60))
	}
	r, err := parseUpload(ref)
	if err != nil {
		return false, "reference does not parse: " + err.Error()
	}
	if g.Status != r.Status || !reflect.DeepEqual(g.Header, r.Header) || !bytes.Equal(g.Body, r.Body) || !reflect.DeepEqual(g.Trailer, r.Trailer) {
		return false, fmt.Sprintf("parsed upload differs: status %d/%d body %d/%d bytes", g.Status, r.Status, len(g.Body), len(r.Body))
	}
	return true, "framing differs, content equal"
}

func headOf(b []byte, n int) string {
	if len(b) > n {
		b = b[:n]
	}
	return string(b)
}

// runForwarder drives one response through utils.NewResponseForwarder against the given upload URL.
func runForwarder(url string, h handlerScript, id string, gate func(k int)) (closeOK bool, blocked bool, werr error) {
	tr := &http.Transport{}
	defer tr.CloseIdleConnections()
	// (the client time-out plays the part of the agent's --proxy-timeout: it covers the whole upload, so it has to
	// be longer than the handler's quiet periods)
	client := &http.Client{Transport: tr, Timeout: 30*time.Second + time.Duration(len(h.Pieces))*h.Pause}
	req, _ := http.NewRequest("GET", "http://backend.example/x", nil)
	rw, err := utils.NewResponseForwarder(client, url, "backend", id, req, nil)
	if err != nil {
		return false, false, err
	}
	done := make(chan error, 1)
	go func() {
		if h.Trailer {
			rw.Header().Set("Trailer", "X-Sum")
		}
		if !strings.Contains(h.Name, "-noct") {
			// (scripts named "...-noct": a backend that says nothing about the media type of its response)
			rw.Header().Set("Content-Type", "application/octet-stream")
		}
		rw.Header().Set("X-Script", h.Name)
		if strings.HasSuffix(h.Name, "-cl") {
			// the backend announces the length of its response (as ReverseProxy passes it on)
			total := 0
			for _, n := range h.Pieces {
				total += n
			}
			rw.Header().Set("Content-Length", strconv.Itoa(total))
		}
		rw.WriteHeader(200)
		var werr error
		for k := range h.Pieces {
			if gate != nil {
				gate(k)
			}
			if k > 0 && h.Pause > 0 {
				time.Sleep(h.Pause)
			}
			if gate != nil {
				hx.Emit("Produce", "k", k+1, "n", h.Pieces[k])
			} else {
				hx.Emit("HWrite", "k", k+1, "n", h.Pieces[k])
			}
			if _, err := rw.Write(h.piece(k)); err != nil {
				werr = err
				break
			}
		}
		if h.Trailer {
			rw.Header().Set("X-Sum", "sum-of-"+h.Name)
		}
		hx.Emit("HandlerDone", "werr", werr != nil)
		cerr := rw.Close()
		if werr != nil && cerr == nil {
			cerr = werr
		}
		done <- cerr
	}()
	select {
	case err := <-done:
		return err == nil, false, err
	case <-time.After(blockedWait() + time.Duration(len(h.Pieces))*h.Pause):
		atomic.AddInt32(&blockedSeen, 1)
		return false, true, nil
	}
}

// blockedWait is how long a Close() that does not return is waited for: 20 s, and 3 s once three calls have been
// seen blocked (a tree on which Close blocks would otherwise turn the run into hours of waiting; the verdict - the
// handler was left blocked - is the same).
var blockedSeen int32

func blockedWait() time.Duration {
	if atomic.LoadInt32(&blockedSeen) >= 3 {
		return 3 * time.Second
	}
	return 20 * time.Second
}

// pauseClasses are the quiet periods of the slow scenarios: beyond 5 s in every run, beyond 30 s and 60 s in the
// thorough tier (the round numbers time-outs are usually set to).
func pauseClasses() []time.Duration {
	if hx.Thorough() {
		return []time.Duration{5500 * time.Millisecond, 31 * time.Second, 62 * time.Second}
	}
	// quick: beyond 5 s and beyond 10 s (keep-alive and idle time-outs cluster there)
	return []time.Duration{5500 * time.Millisecond, 11500 * time.Millisecond}
}

// uploadSlowChild: one upload whose handler goes quiet between two pieces, with a failure after the whole body
// and then an acknowledgement - small enough to be replayed, or too large to be retried at all.
func uploadSlowChild() {
	f := strings.Split(hx.Child(), "/") // <size>/<pause ms>
	if len(f) != 2 {
		return
	}
	ms, _ := strconv.Atoi(f[1])
	h := handlerScript{Name: "quiet-" + f[0], Pieces: []int{6, 5}}
	if f[0] == "large" {
		h.Pieces = []int{3000, 3071}
	}
	hx.Reset("upload-ref-"+h.Name, "upload-ref")
	fs := newFaultServer(nil, nil)
	ok, blocked, _ := runForwarder(fs.url(), h, "ref-"+h.Name, nil)
	hx.Emit("CloseDone", "ok", ok, "blocked", blocked)
	fs.close()
	if !ok || len(fs.acked) != 1 {
		fmt.Println("reference run failed")
		os.Exit(3)
	}
	ref := fs.acked[0]
	h.Pause = time.Duration(ms) * time.Millisecond
	for _, script := range [][]upStep{{{"5xx-close", "end"}, {"ack", "end"}}, {{"ack", "end"}}} {
		var shape []string
		for _, st := range script {
			shape = append(shape, st.Kind+"@"+st.Pos)
		}
		hx.Reset(fmt.Sprintf("upload-quiet-%s-%d-%d", f[0], ms, len(script)), fmt.Sprintf("upload:[%s]:%s:quiet%dms", strings.Join(shape, ","), h.Name, ms))
		fs := newFaultServer(script, ref)
		ok, blocked, _ := runForwarder(fs.url(), h, fmt.Sprintf("req-quiet-%s-%d", f[0], len(script)), nil)
		hx.Emit("CloseDone", "ok", ok, "blocked", blocked)
		time.Sleep(5 * time.Millisecond)
		fs.close()
	}
}

type uploadCases struct {
	Scripts [][][]string `json:"scripts"`
}

// uploadDriver: C06. TLC-enumerated fault scripts x response sizes against the real forwarder.
func uploadDriver(a *Args) {
	res := a.Res
	if a.Mode == "stress-child" {
		uploadStressChild()
		return
	}
	if a.Mode == "slow-child" {
		uploadSlowChild()
		return
	}
	var cases uploadCases
	b, err := os.ReadFile(a.Cases)
	if err != nil || json.Unmarshal(b, &cases) != nil {
		res.Bad("cannot read cases %q: %v", a.Cases, err)
		return
	}
	sizes := []handlerScript{
		{Name: "tiny", Pieces: []int{10}, Trailer: false},
		{Name: "one1", Pieces: []int{1, 2000}, Trailer: true},
		{Name: "mid", Pieces: []int{1500, 1500}, Trailer: false},
		{Name: "edgeA", Pieces: []int{3950}, Trailer: false},
		{Name: "edgeB", Pieces: []int{4010}, Trailer: true},
		{Name: "big", Pieces: []int{3000, 3000, 3000}, Trailer: false},
		{Name: "big1", Pieces: []int{20000}, Trailer: true},
	}
	if hx.Thorough() {
		sizes = append(sizes, handlerScript{Name: "huge", Pieces: []int{300000}, Trailer: false}, handlerScript{Name: "edgeC", Pieces: []int{3800, 1, 400}, Trailer: true})
	}
	// uploads whose handler goes quiet for longer than common time-outs, in child processes next to everything else
	slowDone := make(chan []hx.ChildResult, 1)
	go func() {
		var names []string
		for _, d := range pauseClasses() {
			names = append(names, fmt.Sprintf("small/%d", d.Milliseconds()), fmt.Sprintf("large/%d", d.Milliseconds()))
		}
		slowDone <- hx.RunChildren("upload", "slow-child", names, nil, 10*time.Minute)
	}()
	defer func() {
		for _, c := range <-slowDone {
			if c.Err != nil {
				res.Bad("slow upload scenario %s did not run: %v: %s", c.Name, c.Err, headOf([]byte(c.Out), 600))
			}
			res.Case("quiet:"+c.Name, map[string]interface{}{"handler_quiet_for_ms": c.Name})
		}
	}()
	rng := hx.Rand("upload")
	// reference serialisation per handler script (fault-free run)
	refs := map[string][]byte{}
	for _, h := range sizes {
		hx.Reset("upload-ref-"+h.Name, "upload-ref")
		fs := newFaultServer(nil, nil)
		ok, blocked, err := runForwarder(fs.url(), h, "ref-"+h.Name, nil)
		hx.Emit("CloseDone", "ok", ok, "blocked", blocked)
		fs.close()
		if !ok || len(fs.acked) != 1 {
			res.Bad("reference run of %s failed: ok=%v blocked=%v err=%v acked=%d", h.Name, ok, blocked, err, len(fs.acked))
			return
		}
		if _, err := parseUpload(fs.acked[0]); err != nil {
			res.Bad("reference upload of %s does not parse: %v", h.Name, err)
			return
		}
		refs[h.Name] = fs.acked[0]
		res.Extra["ref_len_"+h.Name] = len(fs.acked[0])
	}
	n := 0
	// boundary sweep: serialised lengths around the 4096-byte replay buffer, a failure after the
	// whole body was read (so the retry must either replay everything or be refused), then an ack
	if base, ok := refs["edgeA"]; ok {
		for target := 4088; target <= 4108; target++ {
			b := 3950 + (target - len(base))
			if b < 256 || b > 4095 {
				continue
			}
			h := handlerScript{Name: fmt.Sprintf("sweep%d", target), Pieces: []int{b}, Trailer: false}
			hx.Reset("upload-ref-"+h.Name, "upload-ref")
			fs := newFaultServer(nil, nil)
			ok, blocked, _ := runForwarder(fs.url(), h, "ref-"+h.Name, nil)
			hx.Emit("CloseDone", "ok", ok, "blocked", blocked)
			fs.close()
			if !ok || len(fs.acked) != 1 {
				continue
			}
			ref := fs.acked[0]
			for _, kind := range []string{"5xx-close", "reset", "5xx-keep"} {
				for _, script := range [][]upStep{{{kind, "end"}, {"ack", "end"}}, {{kind, "end"}, {kind, "end"}, {"ack", "end"}}} {
					n++
					var shape []string
					for _, st := range script {
						shape = append(shape, st.Kind+"@"+st.Pos)
					}
					sig := fmt.Sprintf("upload:[%s]:len%d", strings.Join(shape, ","), len(ref))
					hx.Reset(fmt.Sprintf("upload-%d", n), sig)
					fs := newFaultServer(script, ref)
					ok, blocked, _ := runForwarder(fs.url(), h, fmt.Sprintf("req-%d", n), nil)
					hx.Emit("CloseDone", "ok", ok, "blocked", blocked)
					time.Sleep(3 * time.Millisecond)
					fs.close()
					res.Case(fmt.Sprintf("%s:len%d", strings.Join(shape, ","), len(ref)), map[string]interface{}{"script": shape, "serialised_len": len(ref)})
				}
			}
		}
	}
	// concurrent forwarders (child process, no trace): state shared between forwarders must not let one
	// upload carry another's bytes
	{
		hx.Reset("upload-stress", "upload-stress")
		cmd := exec.Command(hx.Bin("vdrive"), "-mode", "stress-child", "-out", os.DevNull, "upload")
		cmd.Env = append(os.Environ(), "VERIF_TRACE=")
		out, err := cmd.CombinedOutput()
		var sum struct {
			Runs, Acked, Corrupt, Blocked, Refused int
			Example                                string
		}
		parsed := false
		for _, ln := range strings.Split(string(out), "\n") {
			if strings.HasPrefix(ln, "STRESS ") {
				parsed = json.Unmarshal([]byte(strings.TrimPrefix(ln, "STRESS ")), &sum) == nil
			}
		}
		if err != nil || !parsed {
			res.Note("upload stress child failed (%v): %s", err, headOf(out, 1500))
		}
		hx.Emit("UploadStress", "ok", err == nil && parsed, "runs", sum.Runs, "acked", sum.Acked, "corrupt", sum.Corrupt, "blocked", sum.Blocked, "refused", sum.Refused, "example", sum.Example)
		res.Case("stress:16-forwarders", map[string]interface{}{"runs": sum.Runs, "acked": sum.Acked, "corrupt": sum.Corrupt})
	}
	// gated replay of the Upload attack counterexample (StaleReader): attempt 1 is failed before any body
	// byte exists, so its transport writer stays parked in the source read; the reader of attempt 2 is held
	// at the gate in front of ITS source read until the stale one has taken the first piece
	for round := 0; round < 3; round++ {
		n++
		h := sizes[2] // "mid"
		script := []upStep{{"5xx-keep", "body0"}, {"ack", "end"}}
		hx.Reset(fmt.Sprintf("upload-%d", n), "upload:[5xx-keep@body0,ack@end]:gatedstale")
		var gmu sync.Mutex
		sourceCalls := 0
		staleBooked := make(chan struct{})
		var once sync.Once
		verifhook.GateFunc = func(point string, kv ...interface{}) {
			switch point {
			case "brs.source":
				gmu.Lock()
				sourceCalls++
				k := sourceCalls
				gmu.Unlock()
				if k == 2 {
					// second reader to reach its source read = attempt 2: wait for the stale reader
					select {
					case <-staleBooked:
					case <-time.After(3 * time.Second):
					}
				}
			case "brs.book":
				once.Do(func() { close(staleBooked) })
			}
		}
		fs := newFaultServer(script, refs[h.Name])
		ok, blocked, _ := runForwarder(fs.url(), h, fmt.Sprintf("req-%d", n), nil)
		verifhook.GateFunc = nil
		hx.Emit("CloseDone", "ok", ok, "blocked", blocked)
		time.Sleep(5 * time.Millisecond)
		fs.close()
		res.Case("gated:5xx-keep@body0,ack@end:mid", map[string]interface{}{"script": "gated stale reader replay", "round": round})
	}
	// scripts that every run contains whatever the sample: every attempt fails with a 5xx before the body was read
	// to its end (the handler must be released all the same), and a 5xx after the replay window has moved on
	for _, kind := range []string{"5xx-keep", "5xx-close"} {
		for _, m := range []struct {
			script []upStep
			size   int
		}{
			{[]upStep{{kind, "early"}, {kind, "early"}, {kind, "early"}}, 5},
			{[]upStep{{kind, "body0"}, {kind, "head"}, {kind, "early"}}, 2},
			{[]upStep{{kind, "past"}, {"ack", "end"}}, 6},
			{[]upStep{{kind, "limit"}, {"ack", "end"}}, 5},
		} {
			n++
			h := sizes[m.size]
			var shape []string
			for _, st := range m.script {
				shape = append(shape, st.Kind+"@"+st.Pos)
			}
			hx.Reset(fmt.Sprintf("upload-%d", n), fmt.Sprintf("upload:[%s]:%s", strings.Join(shape, ","), h.Name))
			fs := newFaultServer(m.script, refs[h.Name])
			ok, blocked, _ := runForwarder(fs.url(), h, fmt.Sprintf("req-%d", n), nil)
			hx.Emit("CloseDone", "ok", ok, "blocked", blocked)
			time.Sleep(5 * time.Millisecond)
			fs.close()
			res.Case(strings.Join(shape, ",")+":"+h.Name, map[string]interface{}{"script": shape, "response": h.Name, "pieces": h.Pieces, "close_ok": ok})
		}
	}
	for _, sc := range cases.Scripts {
		var script []upStep
		var shape []string
		for _, st := range sc {
			script = append(script, upStep{st[0], st[1]})
			shape = append(shape, st[0]+"@"+st[1])
		}
		// each script with two response sizes (all sizes in the thorough tier for short scripts)
		var hs []handlerScript
		if hx.Thorough() && len(script) <= 2 {
			hs = sizes
		} else {
			hs = []handlerScript{sizes[rng.Intn(len(sizes))], sizes[rng.Intn(len(sizes))]}
		}
		for _, h := range hs {
			n++
			sig := fmt.Sprintf("upload:[%s]:%s", strings.Join(shape, ","), h.Name)
			hx.Reset(fmt.Sprintf("upload-%d", n), sig)
			fs := newFaultServer(script, refs[h.Name])
			ok, blocked, _ := runForwarder(fs.url(), h, fmt.Sprintf("req-%d", n), nil)
			hx.Emit("CloseDone", "ok", ok, "blocked", blocked)
			// let a stale writer of a kept-open connection finish before the next case
			time.Sleep(5 * time.Millisecond)
			fs.close()
			res.Case(strings.Join(shape, ",")+":"+h.Name, map[string]interface{}{"script": shape, "response": h.Name, "pieces": h.Pieces, "close_ok": ok})
		}
	}
}

// streamDriver: C05. A lock-step producer (the next chunk is produced only after the proxy side
// has observed the previous one) through (a) the forwarder in process and (b) the real agent
// binary with ReverseProxy in front of a flushing backend.
func streamDriver(a *Args) {
	res := a.Res
	if a.Mode == "stress-child" {
		streamStressChild()
		return
	}
	if a.Mode == "slow-child" {
		// one lock-step stream whose handler goes quiet between chunks for longer than common time-outs
		ms, _ := strconv.Atoi(hx.Child())
		c := []int{700, 1, 5000}
		h := handlerScript{Name: fmt.Sprintf("quiet%d", ms), Pieces: c, Trailer: true, Pause: time.Duration(ms) * time.Millisecond}
		lockStepInProcess(res, 9000, h, c, fmt.Sprintf(":quiet%dms", ms))
		return
	}
	slowDone := make(chan []hx.ChildResult, 1)
	go func() {
		var names []string
		for _, d := range pauseClasses() {
			names = append(names, fmt.Sprint(d.Milliseconds()))
		}
		slowDone <- hx.RunChildren("stream", "slow-child", names, nil, 10*time.Minute)
	}()
	defer func() {
		for _, c := range <-slowDone {
			if c.Err != nil {
				res.Bad("quiet stream scenario %s did not run: %v: %s", c.Name, c.Err, headOf([]byte(c.Out), 600))
			}
			res.Case("inproc:quiet:"+c.Name, map[string]interface{}{"mode": "in-process forwarder", "handler_quiet_between_chunks_ms": c.Name})
		}
	}()
	rng := hx.Rand("stream")
	chunkings := [][]int{{1}, {1, 1, 1}, {1, 4096, 1}, {32768, 32768, 32768, 32768, 32769}, {5, 70000, 3}}
	n := 12
	if hx.Thorough() {
		n = 200
	}
	for i := 0; i < n; i++ {
		cnt := 1 + rng.Intn(6)
		var c []int
		for k := 0; k < cnt; k++ {
			switch rng.Intn(5) {
			case 0:
				c = append(c, 1)
			case 1:
				c = append(c, 1+rng.Intn(100))
			case 2:
				c = append(c, 4000+rng.Intn(200))
			case 3:
				c = append(c, 32000+rng.Intn(1600))
			default:
				if hx.Thorough() {
					c = append(c, 1+rng.Intn(4<<20))
				} else {
					c = append(c, 1+rng.Intn(200000))
				}
			}
		}
		chunkings = append(chunkings, c)
	}
	// (a) in process; the last chunkings once more with an announced Content-Length (totals below and above
	// 2 KB and 4 KB: the response is streamed all the same)
	nPlain := len(chunkings)
	chunkings = append(chunkings, []int{10, 10, 10}, []int{1024, 1024}, []int{683, 683, 683}, []int{1000, 1000, 1000}, []int{1, 4095}, []int{3000, 3000})
	// ... and small first chunks of a response that names no media type (nothing to sniff 512 bytes for)
	nCL := len(chunkings)
	chunkings = append(chunkings, []int{5, 5, 5}, []int{1, 600, 1}, []int{200, 200, 200, 200})
	for i, c := range chunkings {
		h := handlerScript{Name: fmt.Sprintf("lock%d", i), Pieces: c, Trailer: i%2 == 0}
		if i >= nCL {
			h = handlerScript{Name: fmt.Sprintf("lock%d-noct", i), Pieces: c, Trailer: i%2 == 0}
		} else if i >= nPlain {
			h = handlerScript{Name: fmt.Sprintf("lock%d-cl", i), Pieces: c, Trailer: false}
		}
		lockStepInProcess(res, i, h, c, "")
	}
	// (a'') history: an upload of this process failed earlier (its first attempt was refused, the retry acknowledged) -
	// responses that come afterwards are streamed exactly like the ones before
	{
		h0 := handlerScript{Name: "prior", Pieces: []int{6, 5}}
		hx.Reset("upload-ref-prior", "upload-ref")
		fs := newFaultServer(nil, nil)
		ok, blocked, _ := runForwarder(fs.url(), h0, "ref-prior", nil)
		hx.Emit("CloseDone", "ok", ok, "blocked", blocked)
		fs.close()
		if ok && len(fs.acked) == 1 {
			ref := fs.acked[0]
			for j, script := range [][]upStep{{{"5xx-close", "end"}, {"ack", "end"}}, {{"reset", "early"}, {"ack", "end"}}} {
				hx.Reset(fmt.Sprintf("upload-prior-%d", j), fmt.Sprintf("upload:[%s@%s,ack@end]:prior", script[0].Kind, script[0].Pos))
				fs := newFaultServer(script, ref)
				ok, blocked, _ := runForwarder(fs.url(), h0, fmt.Sprintf("req-prior-%d", j), nil)
				hx.Emit("CloseDone", "ok", ok, "blocked", blocked)
				time.Sleep(5 * time.Millisecond)
				fs.close()
			}
		} else {
			res.Note("reference run of the earlier upload failed")
		}
		for j, c := range [][]int{{1, 1, 1}, {5, 70000, 3}, {700, 1, 5000}, {10, 10, 10}} {
			h := handlerScript{Name: fmt.Sprintf("lockafter%d", j), Pieces: c, Trailer: j%2 == 0}
			lockStepInProcess(res, 8000+j, h, c, ":after-a-failed-upload")
		}
	}
	// (a') many lock-step rounds on 12 streams at once, in a child process without a trace: a wake-up that
	// is lost once in thousands of hand-overs between the handler and the serialiser shows as a stall
	{
		hx.Reset("stream-stress", "stream-stress")
		cmd := exec.Command(hx.Bin("vdrive"), "-mode", "stress-child", "-out", os.DevNull, "stream")
		cmd.Env = append(os.Environ(), "VERIF_TRACE=")
		out, err := cmd.CombinedOutput()
		var sum struct{ Streams, Chunks, Stalls, Failed int }
		parsed := false
		for _, ln := range strings.Split(string(out), "\n") {
			if strings.HasPrefix(ln, "STRESS ") {
				parsed = json.Unmarshal([]byte(strings.TrimPrefix(ln, "STRESS ")), &sum) == nil
			}
		}
		if err != nil || !parsed {
			res.Note("stream stress child failed (%v): %s", err, headOf(out, 1500))
		}
		hx.Emit("StreamStress", "ok", err == nil && parsed, "streams", sum.Streams, "chunks", sum.Chunks, "stalls", sum.Stalls, "failed", sum.Failed)
		res.Case("stress:12-streams-lockstep", map[string]interface{}{"streams": sum.Streams, "chunks": sum.Chunks, "stalls": sum.Stalls})
	}
	// (b) black box: real agent binary, ReverseProxy (100 ms flush interval), flushing backend
	streamAgent(a, chunkings)
}

// lockStepInProcess runs one lock-step stream through the forwarder in process: chunk k+1 is produced only after
// the proxy side has observed chunk k (and after h.Pause, if the handler goes quiet in between).
func lockStepInProcess(res *hx.Result, i int, h handlerScript, c []int, tag string) {
	hx.Reset(fmt.Sprintf("stream-inproc-%d%s", i, tag), fmt.Sprintf("stream-inproc:%v%s", sizeClasses(c), tag))
	obsCh := make(chan *streamObserver, 1)
	fp := fakes.NewFakeProxy()
	fp.Post = func(w http.ResponseWriter, r *http.Request, id string) {
		o := newStreamObserver(h, false)
		obsCh <- o
		io.Copy(o.pw, r.Body)
		o.pw.Close()
		<-o.done
		hx.Emit("UpAck", "a", 1, "eq", o.err == nil, "len", 0, "detail", fmt.Sprint(o.err))
		w.WriteHeader(200)
	}
	var obs *streamObserver
	stalled := false
	gate := func(k int) {
		if k == 0 {
			return
		}
		if obs == nil {
			select {
			case obs = <-obsCh:
			case <-time.After(10 * time.Second):
				stalled = true
				hx.Emit("Stall", "k", k)
				return
			}
		}
		select {
		case got := <-obs.pieceCh:
			hx.Emit("Observe", "k", got)
		case <-time.After(10 * time.Second):
			stalled = true
			hx.Emit("Stall", "k", k)
		}
	}
	ok, blocked, _ := runForwarder(fp.URL(), h, fmt.Sprintf("lock-%d", i), gate)
	// the last piece
	if obs == nil {
		select {
		case obs = <-obsCh:
		case <-time.After(5 * time.Second):
		}
	}
	if obs != nil && !stalled {
		select {
		case got := <-obs.pieceCh:
			hx.Emit("Observe", "k", got)
		case <-time.After(10 * time.Second):
			hx.Emit("Stall", "k", len(c))
		}
	}
	hx.Emit("StreamDone", "n", len(c))
	hx.Emit("CloseDone", "ok", ok, "blocked", blocked)
	fp.Close()
	res.Case(fmt.Sprintf("inproc:%v%s", sizeClasses(c), tag), map[string]interface{}{"mode": "in-process forwarder", "chunks": c})
}

func sizeClasses(c []int) []string {
	var out []string
	for _, n := range c {
		switch {
		case n == 1:
			out = append(out, "1")
		case n < 4096:
			out = append(out, "<4K")
		case n < 32768:
			out = append(out, "<32K")
		case n < 1<<20:
			out = append(out, "<1M")
		default:
			out = append(out, ">=1M")
		}
	}
	return out
}

func streamAgent(a *Args, chunkings [][]int) {
	res := a.Res
	md := hx.StartMetadata()
	defer md.Close()
	type cur struct {
		h        handlerScript
		obs      chan *streamObserver
		finished chan struct{}
	}
	var mu sync.Mutex
	active := map[string]*cur{}
	fp := fakes.NewFakeProxy()
	defer fp.Close()
	fp.Fetch = func(id string) ([]byte, string, int) {
		return []byte("GET /stream/" + id + " HTTP/1.1\r\nHost: backend.example\r\n\r\n"), "", 200
	}
	fp.Post = func(w http.ResponseWriter, r *http.Request, id string) {
		mu.Lock()
		c := active[id]
		mu.Unlock()
		if c == nil {
			io.Copy(io.Discard, r.Body)
			w.WriteHeader(200)
			return
		}
		o := newStreamObserver(c.h, false)
		c.obs <- o
		io.Copy(o.pw, r.Body)
		o.pw.Close()
		<-o.done
		w.WriteHeader(200)
	}
	bln := listen()
	backend := &http.Server{Handler: http.HandlerFunc(func(w http.ResponseWriter, r *http.Request) {
		id := strings.TrimPrefix(r.URL.Path, "/stream/")
		mu.Lock()
		c := active[id]
		mu.Unlock()
		if c == nil {
			w.WriteHeader(404)
			return
		}
		defer close(c.finished)
		fl, _ := w.(http.Flusher)
		var obs *streamObserver
		if strings.Contains(c.h.Name, "-noct") {
			w.Header()["Content-Type"] = nil // (a backend that names no media type; net/http must not sniff one either)
		} else {
			w.Header().Set("Content-Type", "application/octet-stream")
		}
		w.WriteHeader(200)
		for k := range c.h.Pieces {
			hx.Emit("Produce", "k", k+1, "n", c.h.Pieces[k])
			w.Write(c.h.piece(k))
			if fl != nil {
				fl.Flush()
			}
			if obs == nil {
				select {
				case obs = <-c.obs:
				case <-time.After(10 * time.Second):
					hx.Emit("Stall", "k", k+1)
					return
				}
			}
			select {
			case got := <-obs.pieceCh:
				hx.Emit("Observe", "k", got)
			case <-time.After(10 * time.Second):
				hx.Emit("Stall", "k", k+1)
				return
			}
		}
		hx.Emit("StreamDone", "n", len(c.h.Pieces))
	})}
	go backend.Serve(bln)
	defer backend.Close()
	agent, err := hx.StartAgent(hx.Bin("agent"), md, fp.URL(), bln.Addr().String(), "agent", nil, []string{"VERIF_TRACE="})
	if err != nil {
		res.Bad("cannot start agent: %v", err)
		return
	}
	defer agent.Kill()
	for i, c := range chunkings {
		id := fmt.Sprintf("s%d", i)
		h := handlerScript{Name: "agentlock" + id, Pieces: c, Trailer: false}
		if i%4 == 3 || i >= len(chunkings)-3 {
			h.Name += "-noct" // every fourth stream (and the small-chunk ones at the end) names no media type
		}
		cu := &cur{h: h, obs: make(chan *streamObserver, 1), finished: make(chan struct{})}
		mu.Lock()
		active[id] = cu
		mu.Unlock()
		hx.Reset("stream-agent-"+id, fmt.Sprintf("stream-agent:%v", sizeClasses(c)))
		fp.Push([]string{id})
		select {
		case <-cu.finished:
		case <-time.After(60 * time.Second):
			hx.Emit("Stall", "k", 0)
		}
		if ex, _ := agent.Exited(); ex {
			res.Note("agent exited: %s", hx.Tail(agent.Output(), 800))
		}
		mu.Lock()
		delete(active, id)
		mu.Unlock()
		res.Case(fmt.Sprintf("agent:%v", sizeClasses(c)), map[string]interface{}{"mode": "agent binary + ReverseProxy", "chunks": c})
	}
}

// uploadStressChild: 16 response forwarders at a time, each against its own upload endpoint that
// fails the first attempt once the whole body has arrived (5xx or reset - no attempt is failed while
// its body is still streaming) and acknowledges the retry. Every acknowledged upload must be the
// forwarder's own response. Runs in a child process without a trace; prints one summary line.
func uploadStressChild() {
	const workers, rounds = 16, 30
	var runs, acked, corrupt, blocked, refused int64
	var example atomic.Value
	var wg sync.WaitGroup
	for g := 0; g < workers; g++ {
		wg.Add(1)
		go func(g int) {
			defer wg.Done()
			h := handlerScript{Name: fmt.Sprintf("stress%d", g), Pieces: []int{90 + 113*g}, Trailer: g%2 == 0}
			if g%3 == 0 {
				h.Pieces = []int{40 + 7*g, 300 + 29*g}
			}
			fs := newFaultServer(nil, nil)
			ok, _, _ := runForwarder(fs.url(), h, fmt.Sprintf("sref-%d", g), nil)
			fs.close()
			if !ok || len(fs.acked) != 1 {
				example.Store(fmt.Sprintf("reference run of %s failed", h.Name))
				atomic.AddInt64(&blocked, 1)
				return
			}
			ref := fs.acked[0]
			for i := 0; i < rounds; i++ {
				kind := []string{"5xx-keep", "5xx-close", "reset"}[(g+i)%3]
				fs := newFaultServer([]upStep{{kind, "end"}, {"ack", "end"}}, ref)
				ok, bl, _ := runForwarder(fs.url(), h, fmt.Sprintf("sreq-%d-%d", g, i), nil)
				time.Sleep(time.Millisecond)
				fs.close()
				atomic.AddInt64(&runs, 1)
				fs.mu.Lock()
				got := fs.acked
				fs.mu.Unlock()
				switch {
				case bl:
					atomic.AddInt64(&blocked, 1)
				case len(got) == 0:
					atomic.AddInt64(&refused, 1) // gave up: allowed (not acknowledged)
					_ = ok
				default:
					atomic.AddInt64(&acked, 1)
					for _, a := range got {
						if same, why := sameUpload(a, ref); !same {
							atomic.AddInt64(&corrupt, 1)
							example.Store(fmt.Sprintf("%s round %d (%s@end, ack@end): %s", h.Name, i, kind, why))
						}
					}
				}
			}
		}(g)
	}
	wg.Wait()
	ex, _ := example.Load().(string)
	b, _ := json.Marshal(map[string]interface{}{"Runs": runs, "Acked": acked, "Corrupt": corrupt, "Blocked": blocked, "Refused": refused, "Example": ex})
	fmt.Println("STRESS " + string(b))
}

// streamStressChild: 12 response forwarders at a time, each streaming 1500 small chunks in lock-step
// (chunk k+1 is written only after the upload endpoint has received chunk k completely).
func streamStressChild() {
	const streams, rounds = 12, 1500
	var chunks, stalls, failed int64
	var wg sync.WaitGroup
	for g := 0; g < streams; g++ {
		wg.Add(1)
		go func(g int) {
			defer wg.Done()
			pieces := make([]int, rounds)
			for k := range pieces {
				pieces[k] = 1 + (k*7+g)%48
			}
			h := handlerScript{Name: fmt.Sprintf("sstream%d", g), Pieces: pieces, Trailer: false}
			obsCh := make(chan *streamObserver, 1)
			fp := fakes.NewFakeProxy()
			defer fp.Close()
			fp.Post = func(w http.ResponseWriter, r *http.Request, id string) {
				o := newStreamObserver(h, false)
				obsCh <- o
				io.Copy(o.pw, r.Body)
				o.pw.Close()
				<-o.done
				w.WriteHeader(200)
			}
			var obs *streamObserver
			stalled := false
			gate := func(k int) {
				if k == 0 || stalled {
					return
				}
				if obs == nil {
					select {
					case obs = <-obsCh:
					case <-time.After(5 * time.Second):
						stalled = true
						atomic.AddInt64(&stalls, 1)
						return
					}
				}
				select {
				case <-obs.pieceCh:
					atomic.AddInt64(&chunks, 1)
				case <-time.After(2 * time.Second):
					stalled = true
					atomic.AddInt64(&stalls, 1)
				}
			}
			ok, blocked, _ := runForwarder(fp.URL(), h, fmt.Sprintf("sstream-%d", g), gate)
			if !ok || blocked {
				atomic.AddInt64(&failed, 1)
			}
		}(g)
	}
	wg.Wait()
	b, _ := json.Marshal(map[string]int64{"Streams": streams, "Chunks": chunks, "Stalls": stalls, "Failed": failed})
	fmt.Println("STRESS " + string(b))
}
