package drv

import (
	"encoding/json"
	"fmt"
	"io"
	"net"
	"net/http"
	"os"
	"sort"
	"strings"
	"sync"
	"syscall"
	"time"

	"github.com/google/inverting-proxy/agent/utils"

	"verifharness/fakes"
	"verifharness/hx"
)

func init() {
	Drivers["backoff"] = backoffDriver
	Drivers["life"] = lifeDriver
}

type lifeCases struct {
	Health []struct {
		Threshold int      `json:"threshold"`
		History   []string `json:"history"`
	} `json:"health"`
	Retry     []int      `json:"retry"`
	Patterns  [][]string `json:"patterns"`
	FailKinds []string   `json:"failkinds"`
}

func loadLifeCases(a *Args) *lifeCases {
	var c lifeCases
	b, err := os.ReadFile(a.Cases)
	if err != nil || json.Unmarshal(b, &c) != nil {
		a.Res.Bad("cannot read cases %q: %v", a.Cases, err)
		return nil
	}
	return &c
}

// backoffDriver: C08. (a) the real utils.ExponentialBackoffDuration over every retry count TLC
// enumerated (Big -> 2^32, 2^63-1, 2^63, 2^64-1); (b) the real agent binary against a fake proxy
// whose list calls fail in scripted patterns.
func backoffDriver(a *Args) {
	res := a.Res
	cases := loadLifeCases(a)
	if cases == nil {
		return
	}
	draws := 1000
	if hx.Thorough() {
		draws = 100000
	}
	tr := hx.NewTracer("backoff-fn")
	tr.Emit("Reset", "seg", "backoff-fn", "sig", "backoff-fn")
	call := func(n int, arg uint, label string) {
		var min, max int64 = 1 << 62, -(1 << 62)
		for i := 0; i < draws; i++ {
			d := utils.ExponentialBackoffDuration(arg).Microseconds()
			if utils.ExponentialBackoffDuration(arg) <= 0 {
				d = int64(utils.ExponentialBackoffDuration(arg)) / 1000
				if d == 0 {
					d = 0
				}
			}
			if d < min {
				min = d
			}
			if d > max {
				max = d
			}
		}
		clamp := func(v int64) int64 {
			if v > 2000000000 {
				return 2000000000
			}
			if v < -2000000000 {
				return -2000000000
			}
			return v
		}
		tr.Emit("BackoffFn", "n", n, "arg", label, "min_us", clamp(min), "max_us", clamp(max), "draws", draws)
		res.Case("fn:"+label, map[string]interface{}{"retry_count": label, "min_us": min, "max_us": max, "draws": draws})
	}
	for _, n := range cases.Retry {
		if n >= 0 {
			call(n, uint(n), fmt.Sprint(n))
		} else {
			for _, big := range []uint{64, 65, 100, 1 << 32, 1<<63 - 1, 1 << 63, ^uint(0)} {
				call(-1, big, fmt.Sprint(big))
			}
		}
	}
	tr.MergeInto()

	// (b) the poll loop
	// (fourteen failures in a row: the loop's counter passes the point where the delay stops doubling - about ten
	// seconds, side by side with the other sequences)
	patterns := []string{"FFFFFFFF", "FFFSFFF", "SFSFFS", "F", "FFFFFFFFFFFFFF"}
	if hx.Thorough() {
		patterns = append(patterns, "FFFFFFFFFFFFSFF", "X")
	}
	// every F/S pattern up to length 5 (enumerated by TLC), each failing call failing in one of the ways of
	// FailKinds (rotating, so that every kind also appears as first, middle and last failure)
	for _, p := range cases.Patterns {
		patterns = append(patterns, strings.Join(p, ""))
	}
	failKinds = append([]string{}, cases.FailKinds...)
	sort.Strings(failKinds)
	if len(failKinds) == 0 {
		failKinds = []string{"500-body"}
	}
	var wg sync.WaitGroup
	var trs []*hx.Tracer
	sem := make(chan struct{}, 12)
	type loopCase struct {
		pat string
		cfg hx.AgentConfig
	}
	var loops []loopCase
	for _, pat := range patterns {
		loops = append(loops, loopCase{pat, hx.AgentConfig{}})
	}
	// the back-off does not depend on the agent's other settings (spec/AgentConfig.tla, Neutral.C08): nine failures
	// in a row (delays up to 256 ms) under every configuration chosen for this run, twelve (up to 2 s) where the
	// client time-out is shorter than the longest delay
	cfgs := hx.AgentConfigs()
	for _, cfg := range cfgs {
		if cfg.Name() == "default" {
			continue
		}
		pat := "FFFFFFFFF"
		if cfg["timeout"] == "1s" {
			pat = "FFFFFFFFFFFF"
		}
		loops = append(loops, loopCase{pat, cfg})
	}
	res.Extra["agent_configurations"] = len(cfgs)
	for pi, lc := range loops {
		t := hx.NewTracer(fmt.Sprintf("backoff-loop-%d", pi))
		trs = append(trs, t)
		wg.Add(1)
		go func(lc loopCase, pi int, t *hx.Tracer) {
			defer wg.Done()
			sem <- struct{}{}
			defer func() { <-sem }()
			backoffLoop(res, lc.pat, pi, t, lc.cfg)
		}(lc, pi, t)
	}
	wg.Wait()
	for _, t := range trs {
		t.MergeInto()
	}
}

var failKinds []string

// failList answers a list call with one of the failure kinds.
func failList(w http.ResponseWriter, kind string) {
	switch kind {
	case "503-empty", "502-empty", "401-empty", "204-empty", "302-empty":
		code := 0
		fmt.Sscanf(kind, "%d", &code)
		if code == 302 {
			w.Header().Set("Location", "/nowhere-"+kind)
		}
		w.Header().Set("Content-Length", "0")
		w.WriteHeader(code)
	case "503-retry-after-0", "429-retry-after-past", "503-retry-after-1":
		// a proxy (or a load balancer in front of it) that says when to come back: the agent's own back-off is
		// the lower bound all the same
		code := 0
		fmt.Sscanf(kind, "%d", &code)
		switch {
		case strings.HasSuffix(kind, "-0"):
			w.Header().Set("Retry-After", "0")
		case strings.HasSuffix(kind, "-past"):
			w.Header().Set("Retry-After", time.Now().Add(-time.Minute).UTC().Format(http.TimeFormat))
		default:
			w.Header().Set("Retry-After", "1")
		}
		w.WriteHeader(code)
		w.Write([]byte("busy"))
	case "200-garbage":
		w.WriteHeader(200)
		w.Write([]byte("<html>not json</html>"))
	case "200-truncated":
		w.WriteHeader(200)
		w.Write([]byte(`["abc", "de`))
	case "reset":
		if hj, ok := w.(http.Hijacker); ok {
			if c, _, err := hj.Hijack(); err == nil {
				// the reset comes after the response has begun: a reset before the first response byte on a
				// reused connection is retried by net/http's transport itself, which is not the agent's poll loop
				c.Write([]byte("HTTP/1.1 200 OK\r\nContent-Type: application/json\r\nContent-Length: 100\r\n\r\n[\"abc\","))
				time.Sleep(2 * time.Millisecond)
				if tc, ok := c.(*net.TCPConn); ok {
					tc.SetLinger(0)
				}
				c.Close()
				return
			}
		}
		http.Error(w, "scripted failure", 500)
	default:
		http.Error(w, "scripted failure", 500)
	}
}

func backoffLoop(res *hx.Result, pattern string, pi int, tr *hx.Tracer, cfg hx.AgentConfig) {
	cfgName := ""
	if cfg.Name() != "default" {
		cfgName = "@" + cfg.Name()
	}
	tr.Emit("Reset", "seg", fmt.Sprintf("backoff-loop-%d-%s", pi, pattern), "sig", "backoff-loop:"+pattern+cfgName)
	tr.Emit("Cfg", "threshold", 2, "health", false, "grace_ms", 0, "latency_ms", 0)
	md := hx.StartMetadata()
	defer md.Close()
	start := time.Now()
	us := func() int64 { return time.Since(start).Microseconds() }
	var mu sync.Mutex
	k := 0
	done := make(chan struct{})
	fp := fakes.NewFakeProxy()
	defer fp.Close()
	proxyURL := fp.URL()
	if pattern == "X" {
		// unreachable proxy: nothing listens
		proxyURL = fmt.Sprintf("http://127.0.0.1:%d/", hx.FreePort())
	}
	fp.List = func(w http.ResponseWriter, r *http.Request) {
		mu.Lock()
		i := k
		k++
		mu.Unlock()
		tr.Emit("ListArrive", "t_us", us(), "k", i)
		if i < len(pattern) {
			if pattern[i] == 'F' {
				kind := "500-body"
				if len(failKinds) > 0 {
					kind = failKinds[(pi+i)%len(failKinds)]
				}
				tr.Emit("ListAnswer", "ok", false, "t_us", us(), "kind", kind)
				failList(w, kind)
				return
			}
			tr.Emit("ListAnswer", "ok", true, "t_us", us())
			w.Write([]byte("[]"))
			return
		}
		if i == len(pattern) {
			close(done)
		}
		// hold the call (long poll) until the scenario ends
		select {
		case <-r.Context().Done():
		case <-time.After(20 * time.Second):
		}
	}
	agent, err := hx.StartAgentCfg(hx.Bin("agent"), md, proxyURL, "127.0.0.1:1", "agent", cfg, nil, tr.Env())
	if err != nil {
		res.Bad("agent: %v", err)
		return
	}
	defer agent.Kill()
	wait := 40 * time.Second
	if pattern == "X" {
		wait = 12 * time.Second
		select {
		case <-time.After(wait):
		case <-agent.Done():
		}
	} else {
		reached := false
		select {
		case <-done:
			reached = true
		case <-time.After(wait):
			res.Note("pattern %s: the agent did not reach the end of the pattern within %s", pattern, wait)
		case <-agent.Done():
		}
		// every delay of the loop is bounded (3.3 s at most): an agent that is alive has worked the whole pattern off
		// long before the wait is over - one that stopped calling altogether shows here
		tr.Emit("PatternEnd", "reached", reached, "calls", len(pattern)+1, "waited_ms", wait.Milliseconds())
	}
	if ex, code := agent.Exited(); ex {
		tr.Emit("Exit", "code", code, "after_ms", time.Since(start).Milliseconds())
	} else {
		tr.Emit("StillAlive")
	}
	agent.Kill()
	res.Case("loop:"+pattern+cfgName, map[string]interface{}{"list_call_pattern": pattern, "agent_configuration": cfg.Name()})
}

// lifeDriver: C20. Health histories (TLC-enumerated) and signal placements against the real agent.
func lifeDriver(a *Args) {
	res := a.Res
	cases := loadLifeCases(a)
	if cases == nil {
		return
	}
	sem := make(chan struct{}, 12)
	var wg sync.WaitGroup
	var mu sync.Mutex
	var trs []*hx.Tracer
	for i, c := range cases.Health {
		t := hx.NewTracer(fmt.Sprintf("health-%d", i))
		mu.Lock()
		trs = append(trs, t)
		mu.Unlock()
		wg.Add(1)
		go func(i int, thr int, hist []string, t *hx.Tracer) {
			defer wg.Done()
			sem <- struct{}{}
			defer func() { <-sem }()
			healthScenario(res, thr, hist, t)
		}(i, c.Threshold, c.History, t)
	}
	type sigCase struct {
		place   string
		sig     syscall.Signal
		graceMs int
		latMs   int
	}
	var sigs []sigCase
	for _, place := range []string{"idle", "listed", "backend"} {
		for _, sg := range []syscall.Signal{syscall.SIGINT, syscall.SIGTERM} {
			sigs = append(sigs, sigCase{place, sg, 2000, 600})
		}
	}
	sigs = append(sigs, sigCase{"backend-list-returns", syscall.SIGINT, 2500, 700}, sigCase{"backend-list-returns", syscall.SIGTERM, 2500, 700})
	sigs = append(sigs, sigCase{"backend-list-fails", syscall.SIGTERM, 2500, 700}, sigCase{"backend-list-fails", syscall.SIGINT, 1500, 900}, sigCase{"idle-list-fails", syscall.SIGTERM, 2000, 0})
	// a signal while the agent still waits for its first healthy check (SIGTERM only: whether SIGINT is ignored
	// before the handler exists depends on the disposition the process inherited)
	sigs = append(sigs, sigCase{"before-healthy", syscall.SIGTERM, 0, 0}, sigCase{"before-healthy", syscall.SIGTERM, 1000, 0})
	sigs = append(sigs, sigCase{"backend+again", syscall.SIGTERM, 2000, 600}, sigCase{"backend+again", syscall.SIGINT, 1500, 600}, sigCase{"idle+again", syscall.SIGTERM, 1000, 0})
	sigs = append(sigs, sigCase{"idle", syscall.SIGTERM, 0, 0}, sigCase{"backend", syscall.SIGINT, 0, 600}, sigCase{"backend", syscall.SIGTERM, 1000, 3000})
	if hx.Thorough() {
		for _, place := range []string{"idle", "listed", "backend"} {
			sigs = append(sigs, sigCase{place, syscall.SIGINT, 3000, 1200}, sigCase{place, syscall.SIGTERM, 1000, 100}, sigCase{place, syscall.SIGINT, 0, 300})
		}
	}
	for i, s := range sigs {
		t := hx.NewTracer(fmt.Sprintf("signal-%d", i))
		mu.Lock()
		trs = append(trs, t)
		mu.Unlock()
		wg.Add(1)
		go func(s sigCase, t *hx.Tracer) {
			defer wg.Done()
			sem <- struct{}{}
			defer func() { <-sem }()
			signalScenario(res, s.place, s.sig, s.graceMs, s.latMs, t)
		}(s, t)
	}
	wg.Wait()
	for _, t := range trs {
		t.MergeInto()
	}
}

func healthScenario(res *hx.Result, threshold int, hist []string, tr *hx.Tracer) {
	shape := strings.Join(hist, "")
	tr.Emit("Reset", "seg", fmt.Sprintf("health-T%d-%s", threshold, shape), "sig", fmt.Sprintf("health:T%d:%s", threshold, shape))
	tr.Emit("Cfg", "threshold", threshold, "health", true, "grace_ms", 0, "latency_ms", 0)
	md := hx.StartMetadata()
	defer md.Close()
	start := time.Now()
	us := func() int64 { return time.Since(start).Microseconds() }
	var mu sync.Mutex
	k := 0
	bln := listen()
	backend := &http.Server{Handler: http.HandlerFunc(func(w http.ResponseWriter, r *http.Request) {
		if r.URL.Path == "/healthz" {
			mu.Lock()
			i := k
			k++
			mu.Unlock()
			ok := i >= len(hist) || hist[i] == "P"
			tr.Emit("HealthReply", "ok", ok, "k", i)
			if !ok {
				http.Error(w, "unhealthy", 503)
				return
			}
		}
		io.WriteString(w, "ok")
	})}
	go backend.Serve(bln)
	defer backend.Close()
	fp := fakes.NewFakeProxy()
	defer fp.Close()
	fp.List = func(w http.ResponseWriter, r *http.Request) {
		tr.Emit("ListArrive", "t_us", us(), "k", 0)
		select {
		case <-r.Context().Done():
		case <-time.After(25 * time.Second):
			tr.Emit("ListAnswer", "ok", true, "t_us", us())
			w.Write([]byte("[]"))
		}
	}
	args := []string{"--health-check-path=/healthz", "--health-check-interval-seconds=1", fmt.Sprintf("--health-check-unhealthy-threshold=%d", threshold)}
	agent, err := hx.StartAgent(hx.Bin("agent"), md, fp.URL(), bln.Addr().String(), "agent", args, tr.Env())
	if err != nil {
		res.Bad("agent: %v", err)
		return
	}
	defer agent.Kill()
	// run until the history is consumed plus two more (passing) checks, or until the agent exits
	deadline := time.Duration(len(hist)+3)*time.Second + 2*time.Second
	select {
	case <-agent.Done():
	case <-time.After(deadline):
	}
	if ex, code := agent.Exited(); ex {
		tr.Emit("Exit", "code", code, "after_ms", time.Since(start).Milliseconds())
	} else {
		tr.Emit("StillAlive")
	}
	res.Case(fmt.Sprintf("health:T%d:%s", threshold, shape), map[string]interface{}{"threshold": threshold, "history": shape})
}

func signalScenario(res *hx.Result, place string, sig syscall.Signal, graceMs, latMs int, tr *hx.Tracer) {
	name := fmt.Sprintf("signal:%s:%d:grace%d:lat%d", place, int(sig), graceMs, latMs)
	tr.Emit("Reset", "seg", name, "sig", name)
	// "+again": the signalling side delivers its signal twice (a supervisor that signals the process and its group,
	// Ctrl-C pressed twice): the second one changes nothing
	again := strings.HasSuffix(place, "+again")
	place = strings.TrimSuffix(place, "+again")
	health := place == "before-healthy"
	tr.Emit("Cfg", "threshold", 2, "health", health, "grace_ms", graceMs, "latency_ms", latMs)
	md := hx.StartMetadata()
	defer md.Close()
	start := time.Now()
	us := func() int64 { return time.Since(start).Microseconds() }
	atBackend := make(chan struct{}, 1)
	fetched := make(chan struct{}, 1)
	release := make(chan struct{})
	bln := listen()
	backend := &http.Server{Handler: http.HandlerFunc(func(w http.ResponseWriter, r *http.Request) {
		if r.URL.Path == "/healthz" {
			tr.Emit("HealthReply", "ok", false, "k", 0)
			http.Error(w, "not yet", 503)
			return
		}
		tr.Emit("BackendHandle", "tok", r.URL.Path, "id", "req1")
		select {
		case atBackend <- struct{}{}:
		default:
		}
		time.Sleep(time.Duration(latMs) * time.Millisecond)
		io.WriteString(w, "the answer")
	})}
	go backend.Serve(bln)
	defer backend.Close()
	fp := fakes.NewFakeProxy()
	defer fp.Close()
	fp.OnList = func(ids []string) { tr.Emit("ListAnswer", "ok", true, "t_us", us()) }
	fp.OnListArrive = func() { tr.Emit("ListArrive", "t_us", us(), "k", 0) }
	fp.FailKinds = []string{"503", "500-body"} // failures the agent's loop is certain to see (no transport-level re-send)
	fp.OnListFail = func(kind string) { tr.Emit("ListAnswer", "ok", false, "t_us", us(), "kind", kind) }
	first := true
	var lmu sync.Mutex
	fp.List = nil
	fp.Fetch = func(id string) ([]byte, string, int) {
		tr.Emit("FakeFetch", "id", id)
		select {
		case fetched <- struct{}{}:
		default:
		}
		if place == "listed" {
			<-release // hold the fetch reply until the signal has been delivered
		}
		return []byte("GET /work/" + id + " HTTP/1.1\r\nHost: backend.example\r\n\r\n"), "", 200
	}
	fp.OnUpload = func(u *fakes.Upload) {
		ok := u.Err == nil && u.Resp != nil && u.Resp.StatusCode == 200 && string(u.Body) == "the answer"
		tr.Emit("FakePost", "id", u.ID, "ok", ok)
	}
	_ = first
	_ = &lmu
	var args []string
	if graceMs > 0 {
		args = append(args, fmt.Sprintf("--graceful-shutdown-timeout=%dms", graceMs))
	}
	if health {
		args = append(args, "--health-check-path=/healthz", "--health-check-interval-seconds=1")
	}
	agent, err := hx.StartAgent(hx.Bin("agent"), md, fp.URL(), bln.Addr().String(), "agent", args, tr.Env())
	if err != nil {
		res.Bad("agent: %v", err)
		return
	}
	defer agent.Kill()
	// wait for the agent to be polling (first list call) unless the signal comes before it is healthy
	if place != "before-healthy" {
		deadline := time.Now().Add(15 * time.Second)
		for time.Now().Before(deadline) {
			if n := fp.ListCount(); n > 0 {
				break
			}
			time.Sleep(5 * time.Millisecond)
		}
	} else {
		time.Sleep(1500 * time.Millisecond)
	}
	switch place {
	case "listed":
		fp.Push([]string{"req1"})
		select {
		case <-fetched:
		case <-time.After(10 * time.Second):
		}
	case "backend", "backend-list-returns", "backend-list-fails":
		fp.Push([]string{"req1"})
		select {
		case <-atBackend:
		case <-time.After(10 * time.Second):
		}
		time.Sleep(20 * time.Millisecond)
	case "idle", "idle-list-fails":
		time.Sleep(100 * time.Millisecond)
	}
	sent := time.Now()
	if place == "before-healthy" {
		tr.Emit("KilledEarly", "sig", int(sig))
	} else {
		tr.Emit("SignalSent", "sig", int(sig))
	}
	agent.Signal(sig)
	if again {
		go func() {
			time.Sleep(150 * time.Millisecond)
			other := syscall.SIGTERM
			if sig == syscall.SIGTERM && graceMs%2000 == 0 {
				other = syscall.SIGINT
			}
			agent.Signal(other)
		}()
	}
	if place == "listed" {
		time.Sleep(50 * time.Millisecond)
		close(release)
	}
	if place == "backend-list-fails" || place == "idle-list-fails" {
		// the pending-list call that was in flight at the signal FAILS (and so would every later one): polling stops
		// all the same once that call has returned - no further list call is started during the grace period
		time.Sleep(60 * time.Millisecond)
		for k := 0; k < 6; k++ {
			fp.Push([]string{"!fail"})
		}
	}
	if place == "backend-list-returns" {
		// the pending-list call that was in flight at the signal returns (empty) while the request is
		// still at the backend: polling stops now - the forwarded request must still be answered
		time.Sleep(60 * time.Millisecond)
		fp.Push([]string{})
	}
	select {
	case <-agent.Done():
	case <-time.After(time.Duration(graceMs)*time.Millisecond + 6*time.Second):
	}
	if ex, code := agent.Exited(); ex {
		tr.Emit("Exit", "code", code, "after_ms", time.Since(sent).Milliseconds(), "early", place == "before-healthy")
	} else {
		tr.Emit("StillAlive")
	}
	res.Case(name, map[string]interface{}{"signal_at": place, "signal": int(sig), "grace_ms": graceMs, "backend_latency_ms": latMs})
}
