package drv

import (
	"bytes"
	"compress/gzip"
	"context"
	"encoding/json"
	"fmt"
	"io"
	"net"
	"net/http"
	"net/http/httptest"
	"net/http/httputil"
	"net/url"
	"os"
	"strings"
	"sync"
	"time"

	"github.com/google/inverting-proxy/agent/banner"
	"github.com/google/inverting-proxy/agent/metrics"
	"github.com/google/inverting-proxy/agent/websockets"

	"verifharness/hx"
)

func init() {
	Drivers["inject"] = injectDriver
}

type injectCase struct {
	N                                   int
	Method, Accept, Mode, Dest, Referer string
	Status                              int
	Ctype, Dispo, Body, First, Cenc     string
	Setup                               string // configuration class of the handlers
	Banner, Shim                        bool
}

// injectWire is the body as the backend puts it on the wire: the document itself, or its gzip coding.
func injectWire(ic injectCase) []byte {
	b := injectBody(ic.Body, ic.N)
	if ic.Cenc != "gzip" {
		return b
	}
	var z bytes.Buffer
	w := gzip.NewWriter(&z)
	w.Write(b)
	w.Close()
	return z.Bytes()
}

func injectBody(class string, n int) []byte {
	pad := func(k int) string { return "<!--" + strings.Repeat("p", k) + "-->" }
	tail := fmt.Sprintf("<body>case %d &amp; more</body></html>", n)
	switch class {
	case "no-head":
		return []byte("<html>" + tail)
	case "head-at-0":
		return []byte("<head><title>t</title></head>" + tail)
	case "head-early":
		return []byte("<!doctype html><html><head><title>t</title></head>" + tail)
	case "head-late":
		return []byte("<html>" + pad(3000) + "<head><title>late</title></head>" + tail)
	case "head-straddles":
		return []byte(pad(1014) + "<head><title>s</title></head>" + tail) // "<head>" spans byte 1024
	case "two-heads":
		return []byte("<html><head><title>1</title></head><body><head>again</head>" + tail)
	case "HEAD-upper":
		return []byte("<html><HEAD><title>u</title></HEAD>" + tail)
	case "empty":
		return nil
	case "big-no-head":
		return []byte("<html>" + pad(100000) + tail)
	}
	return []byte(tail)
}

func injectCtype(class string) string {
	return map[string]string{"html": "text/html", "html-charset": "text/html; charset=utf-8", "HTML-upper": "TEXT/HTML", "xhtml": "application/xhtml+xml",
		"json": "application/json", "plain": "text/plain", "none": "", "plain-mentions-html": "text/plain; note=html", "x-htmlish": "application/x-htmlish",
		"octet": "application/octet-stream"}[class]
}

func injectDriver(a *Args) {
	res := a.Res
	var cases struct {
		Cases []injectCase `json:"cases"`
	}
	b, err := os.ReadFile(a.Cases)
	if err != nil || json.Unmarshal(b, &cases) != nil {
		res.Bad("cannot read cases %q: %v", a.Cases, err)
		return
	}
	// raw backend with controlled segmentation
	var mu sync.Mutex
	script := map[string]injectCase{}
	ln := listen()
	defer ln.Close()
	go func() {
		for {
			c, err := ln.Accept()
			if err != nil {
				return
			}
			go func(c net.Conn) {
				defer c.Close()
				br := newBufReader(c)
				for {
					req, err := http.ReadRequest(br)
					if err != nil {
						return
					}
					io.Copy(io.Discard, req.Body)
					mu.Lock()
					ic, ok := script[req.Header.Get("X-Case")]
					mu.Unlock()
					if !ok {
						c.Write([]byte("HTTP/1.1 200 OK\r\nContent-Length: 0\r\n\r\n"))
						continue
					}
					body := injectWire(ic)
					var head bytes.Buffer
					text := http.StatusText(ic.Status)
					fmt.Fprintf(&head, "HTTP/1.1 %d %s\r\n", ic.Status, text)
					if ct := injectCtype(ic.Ctype); ct != "" {
						fmt.Fprintf(&head, "Content-Type: %s\r\n", ct)
					}
					switch ic.Dispo {
					case "inline":
						head.WriteString("Content-Disposition: inline\r\n")
					case "attachment":
						head.WriteString("Content-Disposition: attachment; filename=\"f.html\"\r\n")
					}
					if ic.Cenc == "gzip" {
						head.WriteString("Content-Encoding: gzip\r\n")
					}
					head.WriteString("Cache-Control: max-age=60\r\nX-Orig: 1\r\nX-Frame-Options: DENY\r\n")
					if ic.Status == 301 {
						head.WriteString("Location: /elsewhere\r\n")
					}
					fmt.Fprintf(&head, "Content-Length: %d\r\n\r\n", len(body))
					c.Write(head.Bytes())
					if req.Method == "HEAD" {
						continue
					}
					cut := len(body)
					switch ic.First {
					case "tiny":
						cut = 3
					case "half":
						cut = len(body) / 2
					}
					if cut > len(body) {
						cut = len(body)
					}
					c.Write(body[:cut])
					if cut < len(body) {
						time.Sleep(12 * time.Millisecond)
						c.Write(body[cut:])
					}
				}
			}(c)
		}
	}()
	backendHost := ln.Addr().String()
	// configurations of the two handlers (documented flags of the agent: --inject-banner, --banner-height,
	// --favicon-url, --shim-path)
	type injectSetup struct{ banner, height, favicon, shimPath string }
	setups := map[string]injectSetup{
		"plain":   {"<b>BANNER</b>", "40px", "", "shimp"},
		"favicon": {"<b>BANNER</b>", "40px", "https://icons.example/f.png?a=1&b=2", "shimp"},
		"rich":    {`<div class="b" style='c:d'>{{.Banner}} &amp; <i>more</i></div>`, "12%", "/static/fav.ico", "/x/shim-path"},
	}
	// the script the shim inserts, obtained from ShimBody itself on a minimal document
	shimCodes := map[string]string{}
	for name, st := range setups {
		shimFunc, _ := websockets.ShimBody(st.shimPath)
		probe := &http.Response{Header: http.Header{"Content-Type": {"text/html"}}, Body: io.NopCloser(strings.NewReader("<head>"))}
		shimFunc(probe)
		pb, _ := io.ReadAll(probe.Body)
		shimCodes[name] = strings.TrimPrefix(string(pb), "<head>")
	}

	type chainKey struct {
		bn, sh bool
		setup  string
	}
	chains := map[chainKey]http.Handler{}
	ctx, cancel := context.WithCancel(context.Background())
	defer cancel()
	for name, st := range setups {
		for _, bn := range []bool{false, true} {
			for _, sh := range []bool{false, true} {
				rp := httputil.NewSingleHostReverseProxy(&url.URL{Scheme: "http", Host: backendHost})
				rp.FlushInterval = 100 * time.Millisecond
				var h http.Handler = rp
				if sh {
					h, _ = websockets.Proxy(ctx, h, backendHost, st.shimPath, false, false, func(h http.Handler, _ *metrics.MetricHandler) http.Handler { return h }, nil)
					f, _ := websockets.ShimBody(st.shimPath)
					rp.ModifyResponse = f
				}
				if bn {
					h, _ = banner.Proxy(ctx, h, st.banner, st.height, st.favicon, nil)
				}
				chains[chainKey{bn, sh, name}] = h
			}
		}
	}
	runCase := func(ic injectCase, mode string) {
		id := fmt.Sprintf("j%d", ic.N)
		if _, ok := setups[ic.Setup]; !ok {
			ic.Setup = "plain"
		}
		shimCode := shimCodes[ic.Setup]
		mu.Lock()
		script[id] = ic
		mu.Unlock()
		target := fmt.Sprintf("http://svc.example/doc/%d?x=1&y=%s", ic.N, id)
		req := httptest.NewRequest(ic.Method, target, nil)
		req.Host = "svc.example"
		req.Header.Set("X-Case", id)
		// like a browser: name the codings the client can read itself (and keep net/http's transport from
		// transparently decompressing behind the handler chain's back)
		req.Header.Set("Accept-Encoding", "gzip")
		switch ic.Accept {
		case "html":
			req.Header.Set("Accept", "text/html")
		case "html-among-others":
			req.Header.Set("Accept", "application/json, text/html;q=0.9, */*;q=0.1")
		case "json":
			req.Header.Set("Accept", "application/json")
		case "any":
			req.Header.Set("Accept", "*/*")
		}
		if ic.Mode != "none" {
			req.Header.Set("Sec-Fetch-Mode", ic.Mode)
		}
		if ic.Dest != "none" {
			req.Header.Set("Sec-Fetch-Dest", ic.Dest)
		}
		switch ic.Referer {
		case "same":
			req.Header.Set("Referer", fmt.Sprintf("https://svc.example/doc/%d", ic.N))
		case "other-path":
			req.Header.Set("Referer", "https://svc.example/somewhere/else")
		case "other-host":
			req.Header.Set("Referer", fmt.Sprintf("https://other.example/doc/%d", ic.N))
		}
		rec := httptest.NewRecorder()
		requested := req.URL.String() // (taken before the handlers run: they share the request's URL value)
		panicked := false
		func() {
			// a panic in the chain is an observation (in the agent it would end the process: the workers are bare goroutines)
			defer func() {
				if r := recover(); r != nil {
					panicked = true
					res.Note("case %d: the handler chain panicked: %v", ic.N, r)
				}
			}()
			chains[chainKey{ic.Banner, ic.Shim, ic.Setup}].ServeHTTP(rec, req)
		}()
		got := rec.Body.Bytes()
		orig := injectWire(ic)
		if ic.Method == "HEAD" {
			orig = nil
		}
		kind := "other"
		withScript := []byte(strings.Replace(string(orig), "<head>", "<head>"+shimCode, 1))
		switch {
		case rec.Code != ic.Status:
			kind = "other"
		case bytes.Equal(got, orig):
			kind = "same"
		case ic.Cenc != "gzip" && bytes.Contains(orig, []byte("<head>")) && bytes.Equal(got, withScript):
			kind = "script"
		case bytes.Contains(got, []byte(`id="inverting-proxy-frame"`)) && bytes.Contains(got, []byte(setups[ic.Setup].banner)):
			kind = "frame"
		}
		if panicked {
			kind = "panic"
		}
		h := rec.Header()
		hdrsSame := h.Get("Content-Type") == injectCtype(ic.Ctype) && h.Get("Cache-Control") == "max-age=60" && h.Get("X-Orig") == "1" &&
			h.Get("X-Frame-Options") == "DENY" && len(h.Values("Content-Disposition")) == map[string]int{"none": 0, "inline": 1, "attachment": 1}[ic.Dispo]
		wantEnc := ""
		if ic.Cenc == "gzip" {
			wantEnc = "gzip"
		}
		reprSame := h.Get("Content-Type") == injectCtype(ic.Ctype) && h.Get("Content-Encoding") == wantEnc
		frameOK := h.Get("Content-Encoding") == "" && bytes.Contains(got, []byte(`src="`+requested+`"`)) && strings.Contains(h.Get("Cache-Control"), "no-store") &&
			strings.EqualFold(h.Get("X-Frame-Options"), "sameorigin") && bytes.Count(got, []byte("<iframe")) == 1 &&
			// the frame page stands in for the document: it is one page, and the backend's body is not part of it
			bytes.Count(got, []byte("</html>")) <= 1 && (len(orig) < 16 || !bytes.Contains(got, orig))
		c := map[string]interface{}{"method": ic.Method, "accept": ic.Accept, "mode": ic.Mode, "dest": ic.Dest, "referer": ic.Referer, "status": ic.Status,
			"ctype": ic.Ctype, "dispo": ic.Dispo, "body": ic.Body, "first": ic.First, "banner": ic.Banner, "shim": ic.Shim, "cenc": ic.Cenc, "setup": ic.Setup}
		out := map[string]interface{}{"kind": kind, "hdrs_same": hdrsSame && reprSame, "repr_same": reprSame, "frame_ok": frameOK, "status": rec.Code, "len": len(got), "orig_len": len(orig)}
		sig := fmt.Sprintf("inject:%s/%s/%s/%s/%s/%d/%s/%s/%s/%s/%s/b=%v/s=%v", ic.Method, ic.Accept, ic.Mode, ic.Dest, ic.Referer, ic.Status, ic.Ctype, ic.Dispo, ic.Body, ic.First, ic.Cenc, ic.Banner, ic.Shim) + "/" + ic.Setup
		if mode != "" {
			sig += ":" + mode
			id += mode
		}
		hx.Emit("InjectCase", "case", id, "sig", sig, "c", c, "out", out)
		res.Case(sig, map[string]interface{}{"classes": ic, "observed": kind})
	}
	hx.Reset("inject", "inject")
	for _, ic := range cases.Cases {
		runCase(ic, "")
	}
	// the same cases again, 16 at a time: the handlers are shared by all of the agent's workers
	var wg sync.WaitGroup
	work := make(chan injectCase, len(cases.Cases))
	for _, ic := range cases.Cases {
		ic.N += 1000000
		work <- ic
	}
	close(work)
	for w := 0; w < 16; w++ {
		wg.Add(1)
		go func() {
			defer wg.Done()
			for ic := range work {
				runCase(ic, "concurrent")
			}
		}()
	}
	wg.Wait()
	// stress of the shim splice path: many concurrent HTML documents in which nothing may be
	// inserted (no <head> in the first read), each with its own body, plus documents that do get the
	// script - shared state between responses shows up as a body that is neither
	n := 1600
	if hx.Thorough() {
		n = 12000
	}
	work2 := make(chan injectCase, n)
	bodies := []string{"no-head", "HEAD-upper", "head-late", "big-no-head", "head-early", "head-at-0"}
	for i := 0; i < n; i++ {
		work2 <- injectCase{N: 2000000 + i, Method: "GET", Accept: "html", Mode: "none", Dest: "none", Referer: "none", Status: 200,
			Ctype: "html", Dispo: "none", Body: bodies[i%len(bodies)], First: []string{"all", "tiny", "half"}[i%3], Banner: false, Shim: true, Setup: []string{"plain", "rich"}[(i/6)%2]}
	}
	close(work2)
	for w := 0; w < 32; w++ {
		wg.Add(1)
		go func() {
			defer wg.Done()
			for ic := range work2 {
				runCase(ic, "stress")
			}
		}()
	}
	wg.Wait()
}
