package drv

import (
	"bytes"
	"crypto/sha256"
	"encoding/json"
	"fmt"
	"github.com/gorilla/websocket"
	"io"
	"math/rand"
	"net"
	"net/http"
	"os"
	"strconv"
	"strings"
	"sync"
	"sync/atomic"
	"time"

	"verifharness/hx"
)

func init() {
	Drivers["relay"] = relayDriver
}

// pattern returns n deterministic bytes derived from key.
func pattern(key string, n int) []byte {
	out := make([]byte, 0, n+32)
	ctr := 0
	for len(out) < n {
		h := sha256.Sum256([]byte(key + "#" + strconv.Itoa(ctr)))
		out = append(out, h[:]...)
		ctr++
	}
	return out[:n]
}

// pathParam extracts the integer after the given one-letter prefix from a token path
// (/t/<rand>/b<resp>/l<lat>/q<req>).
func pathParam(path, prefix string) int {
	for _, seg := range strings.Split(path, "/") {
		if strings.HasPrefix(seg, prefix) {
			if v, err := strconv.Atoi(seg[len(prefix):]); err == nil {
				return v
			}
		}
	}
	return 0
}

// echoBackend is the harness backend: it echoes the token it received into every part of the
// response and records what it saw.
type echoBackend struct {
	silent  bool          // volume scenarios: no per-request events
	release chan struct{} // closed to let the requests with latency class 77777 ("held") go on
	ln      net.Listener
	srv     *http.Server
	mu      sync.Mutex
	calls   map[string]int
	// misbehave, if set, may take over a request (fault injection); it returns true if it did.
	misbehave func(w http.ResponseWriter, r *http.Request, tok string) bool
}

func newEchoBackend() *echoBackend {
	b := &echoBackend{calls: map[string]int{}, release: make(chan struct{})}
	ln, err := net.Listen("tcp", "127.0.0.1:0")
	if err != nil {
		panic(err)
	}
	b.ln = ln
	b.srv = &http.Server{Handler: http.HandlerFunc(b.handle)}
	go b.srv.Serve(ln)
	return b
}

func (b *echoBackend) addr() string { return b.ln.Addr().String() }
func (b *echoBackend) close()       { b.srv.Close() }

func (b *echoBackend) handle(w http.ResponseWriter, r *http.Request) {
	path := r.URL.Path
	if path == "/ws-echo" {
		// websocket echo endpoint for shim sessions opened through the agent
		up := websocket.Upgrader{CheckOrigin: func(*http.Request) bool { return true }}
		c, err := up.Upgrade(w, r, nil)
		if err != nil {
			return
		}
		defer c.Close()
		for {
			mt, m, err := c.ReadMessage()
			if err != nil {
				return
			}
			if c.WriteMessage(mt, m) != nil {
				return
			}
		}
	}
	if !strings.HasPrefix(path, "/t/") {
		w.WriteHeader(200)
		io.WriteString(w, "ok")
		return
	}
	body, _ := io.ReadAll(r.Body)
	tok := path
	if h := r.Header.Get("X-Req-Token"); h != path {
		tok = "MIXED(header=" + h + ")"
	}
	if want := pattern(path+"req", pathParam(path, "q")); !bytes.Equal(body, want) {
		tok = fmt.Sprintf("MIXED(body %d bytes %s)", len(body), hx.Hash(body))
	}
	b.mu.Lock()
	b.calls[path]++
	b.mu.Unlock()
	if !b.silent {
		hx.Emit("BackendHandle", "tok", tok, "method", r.Method)
	}
	if b.misbehave != nil && b.misbehave(w, r, tok) {
		return
	}
	if lat := pathParam(path, "l"); lat == 77777 {
		select {
		case <-b.release:
		case <-time.After(60 * time.Second):
		}
	} else if lat > 0 {
		time.Sleep(time.Duration(lat) * time.Millisecond)
	}
	// trailer mode of the response (path segment m<k>): 0 declared, 1 undeclared (http.TrailerPrefix), 2 none
	tmode := pathParam(path, "m")
	if tmode == 0 {
		w.Header().Set("Trailer", "X-Trailer-Token")
	}
	w.Header().Set("X-Token", tok)
	w.Header().Add("X-Token-Multi", tok)
	w.Header().Add("X-Token-Multi", tok+"+2")
	w.Header().Set("Content-Type", "application/octet-stream")
	if !b.silent {
		hx.Emit("BackendReply", "tok", tok)
	}
	w.WriteHeader(200)
	if tmode == 1 {
		// an undeclared trailer needs a chunked response: flushing the header settles that
		w.(http.Flusher).Flush()
	}
	resp := pattern(tok+"resp", pathParam(path, "b"))
	// write in a few pieces so that the response streams (path segment s<ms>: flushed, with a pause after each piece)
	pace := pathParam(path, "s")
	for len(resp) > 0 {
		n := len(resp)
		if n > 65536 {
			n = 65536
		}
		if pace > 0 && n > 20000 {
			n = 20000
		}
		if _, err := w.Write(resp[:n]); err != nil {
			return
		}
		resp = resp[n:]
		if pace > 0 {
			w.(http.Flusher).Flush()
			time.Sleep(time.Duration(pace) * time.Millisecond)
		}
	}
	switch tmode {
	case 0:
		w.Header().Set("X-Trailer-Token", tok)
	case 1:
		w.Header().Set(http.TrailerPrefix+"X-Trailer-Token", tok)
	}
}

// relayClient performs one client request through the proxy and reports what came back.
func relayClient(proxyAddr, path string, timeout time.Duration) (kind, tok string) {
	return relayClientOpt(proxyAddr, path, timeout, true)
}

func relayClientOpt(proxyAddr, path string, timeout time.Duration, announce bool) (kind, tok string) {
	method := "GET"
	var body io.Reader
	if q := pathParam(path, "q"); q > 0 {
		method = "POST"
		body = bytes.NewReader(pattern(path+"req", q))
		if pathParam(path, "m") == 1 {
			// a client that streams its body: no Content-Length, Transfer-Encoding: chunked
			body = struct{ io.Reader }{body}
		}
	}
	req, _ := http.NewRequest(method, "http://"+proxyAddr+path, body)
	req.Header.Set("X-Req-Token", path)
	tr := &http.Transport{DisableKeepAlives: true}
	defer tr.CloseIdleConnections()
	cl := &http.Client{Transport: tr, Timeout: timeout}
	if announce {
		hx.Emit("ClientSend", "r", path)
	}
	resp, err := cl.Do(req)
	if err != nil {
		return "none", "none"
	}
	defer resp.Body.Close()
	b, err := io.ReadAll(resp.Body)
	if resp.StatusCode == 502 {
		return "502", path
	}
	if err != nil {
		return "trunc", path
	}
	t := resp.Header.Get("X-Token")
	if resp.StatusCode != 200 {
		return fmt.Sprintf("status%d", resp.StatusCode), path
	}
	multi := resp.Header.Values("X-Token-Multi")
	if len(multi) != 2 || multi[0] != t || multi[1] != t+"+2" {
		return "mixed-header", t
	}
	if !bytes.Equal(b, pattern(t+"resp", pathParam(t, "b"))) {
		if len(b) < pathParam(t, "b") {
			return "trunc", path
		}
		return "mixed-body", t
	}
	// trailers: exactly the one the backend produced for this request (none in trailer mode 2)
	wantTrailers := 1
	if pathParam(t, "m") == 2 {
		wantTrailers = 0
	}
	if len(resp.Trailer) != wantTrailers || (wantTrailers == 1 && resp.Trailer.Get("X-Trailer-Token") != t) {
		return "mixed-trailer", t
	}
	return "ok", t
}

type relayEnv struct {
	md      *hx.Metadata
	backend *echoBackend
	proxy   *hx.Proc
	agent   *hx.Proc
	port    int
}

func (e *relayEnv) proxyAddr() string { return fmt.Sprintf("127.0.0.1:%d", e.port) }

func (e *relayEnv) stop() {
	if e.agent != nil {
		e.agent.Kill()
	}
	if e.proxy != nil {
		e.proxy.Kill()
	}
	if e.backend != nil {
		e.backend.close()
	}
	if e.md != nil {
		e.md.Close()
	}
}

func startRelayEnv(res *hx.Result, suffix string, agentArgs []string, procEnv []string, agentVia string, cfgs ...hx.AgentConfig) (*relayEnv, error) {
	cfg := hx.AgentConfig{}
	if len(cfgs) > 0 {
		cfg = cfgs[0]
	}
	e := &relayEnv{md: hx.StartMetadata(), backend: newEchoBackend()}
	var err error
	e.proxy, e.port, err = hx.StartProxy(hx.Bin("proxy"+suffix), procEnv)
	if err != nil {
		e.stop()
		return nil, err
	}
	proxyURL := fmt.Sprintf("http://127.0.0.1:%d/", e.port)
	if agentVia != "" {
		proxyURL = agentVia
	}
	e.agent, err = hx.StartAgentCfg(hx.Bin("agent"+suffix), e.md, proxyURL, e.backend.addr(), "agent", cfg, agentArgs, procEnv)
	if err != nil {
		e.stop()
		return nil, err
	}
	return e, nil
}

// finalEvent records whether both processes survived and scans their output for runtime reports.
func (e *relayEnv) finalEvent(res *hx.Result) {
	aEx, aCode := e.agent.Exited()
	pEx, pCode := e.proxy.Exited()
	kv := []interface{}{"agent_alive", !aEx, "proxy_alive", !pEx}
	for _, p := range []*hx.Proc{e.agent, e.proxy} {
		if kind, inRepo, ex := hx.RaceReport(p.Output()); kind != "" {
			kv = append(kv, p.Name+"_report", kind, p.Name+"_report_in_repo", inRepo)
			if len(ex) > 1800 {
				ex = ex[:1800]
			}
			res.Note("%s %s report (inRepo=%v): %s", p.Name, kind, inRepo, ex)
			if kind == "race" && !inRepo {
				res.Bad("race report outside repository code in %s: %s", p.Name, hx.Tail(ex, 600))
			}
		}
	}
	if aEx {
		kv = append(kv, "agent_exit", aCode)
	}
	if pEx {
		kv = append(kv, "proxy_exit", pCode)
	}
	hx.Emit("Final", kv...)
}

func relayPath(rng *rand.Rand, n int, sizes []int) string {
	b := sizes[rng.Intn(len(sizes))]
	q := 0
	if rng.Intn(3) == 0 {
		q = sizes[rng.Intn(len(sizes))]
		if q > 200000 {
			q = 200000
		}
	}
	return fmt.Sprintf("/t/x%08x%04d/b%d/l%d/q%d/m%d", rng.Uint32(), n, b, rng.Intn(25), q, rng.Intn(3))
}

// relayDriver: bursts of concurrent clients through the real proxy and agent binaries.
// Modes: "" (plain bursts), "race" (binaries built with -race), "pollers" (foreign pollers
// next to the agent), "faults" (C07 fault injection, see relayfaults.go).
func relayDriver(a *Args) {
	res := a.Res
	switch a.Mode {
	case "faults":
		relayFaults(a)
		return
	case "pollers":
		relayPollers(a)
		return
	}
	suffix := ""
	var procEnv []string
	if a.Mode == "race" {
		suffix = "-race"
		procEnv = []string{"GORACE=halt_on_error=1"}
	}
	rng := hx.Rand("relay" + a.Mode)
	segments, bursts, maxClients := 4, 3, 32
	sizes := []int{0, 1, 100, 4095, 4096, 4097, 40000}
	if hx.Thorough() {
		segments, bursts, maxClients = 16, 5, 64
		sizes = append(sizes, 1<<20)
	}
	if a.Mode == "race" {
		segments = 1
	}
	// the relay's guarantees do not depend on the agent's other settings (spec/AgentConfig.tla, Neutral.C01): the
	// first segment runs under the default configuration, the others under the configurations chosen for this run
	var others []hx.AgentConfig
	for _, c := range hx.AgentConfigs() {
		if c.Name() != "default" {
			others = append(others, c)
		}
	}
	if a.Mode == "" && len(others) > 0 {
		res.Extra["agent_configurations"] = len(others) + 1
		if segments < len(others)+1 {
			segments = len(others) + 1
		}
	}
	n := 0
	for s := 0; s < segments; s++ {
		cfg := hx.AgentConfig{}
		if a.Mode == "" && s > 0 && len(others) > 0 {
			cfg = others[(s-1)%len(others)]
		}
		sigCfg := ""
		if cfg.Name() != "default" {
			sigCfg = "@" + cfg.Name()
		}
		hx.Reset(fmt.Sprintf("relay-%s-%d", a.Mode, s), "relay-burst"+suffix+sigCfg)
		env, err := startRelayEnv(res, suffix, nil, procEnv, "", cfg)
		if err != nil {
			res.Bad("cannot start proxy/agent: %v", err)
			return
		}
		// warm-up request: the agent needs a moment to obtain its token
		n++
		warm := relayPath(rng, n, []int{10})
		k, t := relayClient(env.proxyAddr(), warm, 30*time.Second)
		hx.Emit("ClientRecv", "r", warm, "kind", k, "tok", t)
		if k != "ok" {
			res.Note("warm-up request got kind=%s", k)
		}
		for b := 0; b < bursts; b++ {
			clients := 4 + rng.Intn(maxClients-3)
			var wg sync.WaitGroup
			paths := make([]string, clients)
			for c := 0; c < clients; c++ {
				n++
				paths[c] = relayPath(rng, n, sizes)
			}
			for c := 0; c < clients; c++ {
				wg.Add(1)
				go func(p string) {
					defer wg.Done()
					k, t := relayClient(env.proxyAddr(), p, 40*time.Second)
					hx.Emit("ClientRecv", "r", p, "kind", k, "tok", t)
				}(paths[c])
			}
			wg.Wait()
			res.Case(fmt.Sprintf("burst-%d-clients%s", clients, sigCfg), map[string]interface{}{"segment": s, "burst": b, "clients": clients, "first_path": paths[0], "agent_configuration": cfg.Name()})
		}
		env.finalEvent(res)
		env.stop()
	}
	res.Extra["requests"] = n
	if a.Mode == "" {
		relayVolume(res)
	}
}

// relayVolume: one exchange stays at the backend while more than a thousand others come and go, and the slow one is
// answered while a window of further requests is waiting - tables that are trimmed, wrap or get reused after N
// requests show here.  No per-request events (hooks off); one summary event, every response judged by its token.
func relayVolume(res *hx.Result) {
	prompt, window := 1100, 64
	if hx.Thorough() {
		prompt = 9000
	}
	hx.Reset("relay-volume", "relay-volume")
	env, err := startRelayEnv(res, "", nil, []string{"VERIF_TRACE="}, "")
	if err != nil {
		res.Bad("cannot start proxy/agent: %v", err)
		return
	}
	defer env.stop()
	env.backend.silent = true
	var wrong, unanswered, other, ok int64
	var example atomic.Value
	one := func(path string, timeout time.Duration) {
		k, t := relayClientOpt(env.proxyAddr(), path, timeout, false)
		switch {
		case k == "ok" && t == path:
			atomic.AddInt64(&ok, 1)
		case k == "none":
			atomic.AddInt64(&unanswered, 1)
			example.Store("no response for " + path)
		case k == "ok" || strings.HasPrefix(k, "mixed"):
			atomic.AddInt64(&wrong, 1)
			example.Store(fmt.Sprintf("request %s received the response of %s (%s)", path, t, k))
		default:
			atomic.AddInt64(&other, 1)
			example.Store(fmt.Sprintf("request %s: %s", path, k))
		}
	}
	one("/t/xwarm0000/b10/l0/q0/m2", 30*time.Second)
	var wg sync.WaitGroup
	wg.Add(1)
	go func() { defer wg.Done(); one("/t/xheld0001/b300/l77777/q0/m0", 90*time.Second) }()
	time.Sleep(300 * time.Millisecond) // the held request is at the backend
	t0 := time.Now()
	runConcurrently(prompt, 32, func(i int) {
		one(fmt.Sprintf("/t/xprompt%05d/b%d/l0/q%d/m%d", i, []int{0, 10, 5000}[i%3], []int{0, 0, 100}[i%3], i%3), 60*time.Second)
	})
	promptMs := time.Since(t0).Milliseconds()
	// history: clients that went away in the middle of a streamed response while the backend kept on sending - what
	// such an exchange leaves behind in the proxy must not show in the responses of the clients that come afterwards
	abandoned := 0
	for round := 0; round < 6; round++ {
		var awg sync.WaitGroup
		for k := 0; k < 8; k++ {
			awg.Add(1)
			go func(k int) {
				defer awg.Done()
				c, err := net.DialTimeout("tcp", env.proxyAddr(), 5*time.Second)
				if err != nil {
					return
				}
				defer c.Close()
				fmt.Fprintf(c, "GET /t/xgone%02d%02d/b200000/l0/q0/m2/s40 HTTP/1.1\r\nHost: svc.example\r\n\r\n", round, k)
				c.SetReadDeadline(time.Now().Add(20 * time.Second))
				buf := make([]byte, 4096)
				got := 0
				for got < 6000 {
					n, err := c.Read(buf)
					got += n
					if err != nil {
						return
					}
				}
			}(k)
		}
		awg.Wait() // every one of them has seen the start of its body and has hung up; the backend is still sending
		abandoned += 8
		runConcurrently(48, 16, func(i int) {
			one(fmt.Sprintf("/t/xafter%02d%03d/b%d/l0/q0/m%d", round, i, []int{10, 3000, 70000}[i%3], i%3), 60*time.Second)
		})
	}
	for i := 0; i < window; i++ {
		wg.Add(1)
		go func(i int) {
			defer wg.Done()
			one(fmt.Sprintf("/t/xwindow%03d/b200/l1500/q0/m1", i), 60*time.Second)
		}(i)
	}
	time.Sleep(500 * time.Millisecond) // the window is waiting; now the held exchange is answered
	close(env.backend.release)
	wg.Wait()
	aEx, _ := env.agent.Exited()
	pEx, _ := env.proxy.Exited()
	ex, _ := example.Load().(string)
	hx.Emit("RelayVolume", "requests", prompt+window+2+6*48, "abandoned", abandoned, "ok", ok, "wrong", wrong, "unanswered", unanswered, "other", other,
		"agent_alive", !aEx, "proxy_alive", !pEx, "example", ex)
	res.Case("volume:held+prompt+window", map[string]interface{}{"prompt": prompt, "window": window, "prompt_ms": promptMs, "ok": ok})
	res.Extra["volume"] = map[string]interface{}{"requests": prompt + window + 2, "prompt_ms": promptMs}
}

// relayPollers: foreign pollers compete with the agent for request IDs (C04, stand-alone proxy).
// A client whose ID went to a foreign poller is never answered; the harness gives up on it and
// declares it a victim of the foreign poller (Fault event); the oracle is that every registered
// ID occurs in exactly one list reply.
func relayPollers(a *Args) {
	res := a.Res
	rng := hx.Rand("relay-pollers")
	segments, pollers, clients := 2, 3, 24
	if hx.Thorough() {
		segments, pollers, clients = 6, 8, 60
	}
	n := 0
	for s := 0; s < segments; s++ {
		hx.Reset(fmt.Sprintf("relay-pollers-%d", s), "relay-pollers")
		env, err := startRelayEnv(res, "", nil, nil, "")
		if err != nil {
			res.Bad("cannot start proxy/agent: %v", err)
			return
		}
		n++
		warm := relayPath(rng, n, []int{10})
		k, t := relayClient(env.proxyAddr(), warm, 30*time.Second)
		hx.Emit("ClientRecv", "r", warm, "kind", k, "tok", t)
		stop := make(chan struct{})
		var pwg sync.WaitGroup
		var mu sync.Mutex
		foreign := map[string]bool{}
		for p := 0; p < pollers; p++ {
			pwg.Add(1)
			go func() {
				defer pwg.Done()
				tr := &http.Transport{DisableKeepAlives: true}
				cl := &http.Client{Transport: tr, Timeout: 3 * time.Second}
				for {
					select {
					case <-stop:
						return
					default:
					}
					req, _ := http.NewRequest("GET", "http://"+env.proxyAddr()+"/agent/pending", nil)
					req.Header.Set("X-Inverting-Proxy-Backend-ID", "harness")
					resp, err := cl.Do(req)
					if err != nil {
						continue
					}
					b, _ := io.ReadAll(resp.Body)
					resp.Body.Close()
					var ids []string
					json.Unmarshal(b, &ids)
					mu.Lock()
					for _, id := range ids {
						foreign[id] = true
					}
					mu.Unlock()
				}
			}()
		}
		var wg sync.WaitGroup
		for c := 0; c < clients; c++ {
			n++
			p := relayPath(rng, n, []int{0, 100, 5000})
			wg.Add(1)
			go func(p string) {
				defer wg.Done()
				k, t := relayClient(env.proxyAddr(), p, 2500*time.Millisecond)
				if k == "none" {
					hx.Emit("Fault", "r", p, "kind", "foreign-poller")
					hx.Emit("ClientGaveUp", "r", p)
					return
				}
				hx.Emit("ClientRecv", "r", p, "kind", k, "tok", t)
			}(p)
			if rng.Intn(4) == 0 {
				time.Sleep(time.Duration(rng.Intn(3)) * time.Millisecond)
			}
		}
		wg.Wait()
		close(stop)
		pwg.Wait()
		time.Sleep(50 * time.Millisecond)
		mu.Lock()
		nf := len(foreign)
		mu.Unlock()
		res.Case(fmt.Sprintf("pollers-%d-foreign-%v", pollers, nf > 0), map[string]interface{}{"segment": s, "pollers": pollers, "clients": clients, "ids_taken_by_foreign_pollers": nf})
		env.finalEvent(res)
		env.stop()
	}
	_ = os.Getenv
}
