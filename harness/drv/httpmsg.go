package drv

import (
	"bufio"
	"bytes"
	"encoding/json"
	"fmt"
	"io"
	"math/rand"
	"net"
	"net/http"
	"net/textproto"
	"net/url"
	"os"
	"path"
	"sort"
	"strconv"
	"strings"
	"sync"
	"sync/atomic"
	"time"

	"github.com/gorilla/websocket"
	"golang.org/x/net/http2"
	"golang.org/x/net/http2/h2c"

	"verifharness/fakes"
	"verifharness/hx"
)

func init() {
	Drivers["httpreq"] = httpReqDriver
	Drivers["httpresp"] = httpRespDriver
	Drivers["identity"] = identityDriver
}

type reqCase struct {
	N                                       int
	Method, Path, Query, Host, H1, H2, Body string
}
type respCase struct {
	N                       int
	Status                  int
	Method, H1, H2, Framing string
	Body, Interim           string
	Declared, Undeclared    int
	ViaH2                   bool `json:"-"` // the backend speaks h2c: trailers can follow a body of announced length
}
type idCase struct {
	N                          int
	Fwd, Strip, Shim, Sessions bool
	Forged, Auth, Kind         string
	Asserted                   string
}
type httpCases struct {
	Req  []reqCase  `json:"req"`
	Resp []respCase `json:"resp"`
	ID   []idCase   `json:"id"`
}

func loadHTTPCases(a *Args) *httpCases {
	var c httpCases
	b, err := os.ReadFile(a.Cases)
	if err != nil || json.Unmarshal(b, &c) != nil {
		a.Res.Bad("cannot read cases %q: %v", a.Cases, err)
		return nil
	}
	return &c
}

type hpair [2]string

func digest(b []byte) []interface{} { return []interface{}{len(b), hx.Hash(b)} }

func randToken(rng *rand.Rand, n int) string {
	const al = "abcdefghijklmnopqrstuvwxyz0123456789"
	b := make([]byte, n)
	for i := range b {
		b[i] = al[rng.Intn(len(al))]
	}
	return string(b)
}

// ---------------------------------------------------------------------------------------------
// raw backend: records exactly what arrives, answers with scripted raw bytes
// ---------------------------------------------------------------------------------------------

type seenRequest struct {
	Method, Target, Host string
	Hdrs                 []hpair
	Body                 []byte
}

type rawBackend struct {
	ln      net.Listener
	mu      sync.Mutex
	seen    map[string]*seenRequest
	respond func(caseID string, sr *seenRequest, c net.Conn) (keep bool)
}

type teeConn struct {
	net.Conn
	mu  sync.Mutex
	buf bytes.Buffer
}

func (t *teeConn) Read(p []byte) (int, error) {
	n, err := t.Conn.Read(p)
	t.mu.Lock()
	t.buf.Write(p[:n])
	t.mu.Unlock()
	return n, err
}

func newRawBackend() *rawBackend {
	b := &rawBackend{ln: listen(), seen: map[string]*seenRequest{}}
	go func() {
		for {
			c, err := b.ln.Accept()
			if err != nil {
				return
			}
			go b.serve(c)
		}
	}()
	return b
}

func (b *rawBackend) addr() string { return b.ln.Addr().String() }
func (b *rawBackend) close()       { b.ln.Close() }

func parseHead(raw []byte) (line string, hdrs []hpair) {
	head := raw
	if i := bytes.Index(raw, []byte("\r\n\r\n")); i >= 0 {
		head = raw[:i]
	}
	lines := strings.Split(string(head), "\r\n")
	if len(lines) == 0 {
		return "", nil
	}
	line = lines[0]
	for _, l := range lines[1:] {
		if i := strings.Index(l, ":"); i > 0 {
			hdrs = append(hdrs, hpair{textproto.CanonicalMIMEHeaderKey(l[:i]), strings.TrimSpace(l[i+1:])})
		}
	}
	return line, hdrs
}

func (b *rawBackend) serve(c net.Conn) {
	defer c.Close()
	tc := &teeConn{Conn: c}
	br := bufio.NewReaderSize(tc, 64*1024)
	for {
		tc.mu.Lock()
		tc.buf.Reset()
		tc.mu.Unlock()
		if br.Buffered() > 0 {
			// leftover bytes would belong to the next request; none are expected
			return
		}
		req, err := http.ReadRequest(br)
		if err != nil {
			return
		}
		tc.mu.Lock()
		raw := append([]byte(nil), tc.buf.Bytes()...)
		tc.mu.Unlock()
		line, hdrs := parseHead(raw)
		sr := &seenRequest{Method: req.Method, Host: req.Host, Hdrs: hdrs}
		if f := strings.Fields(line); len(f) >= 2 {
			sr.Target = f[1]
		}
		sr.Body, _ = io.ReadAll(req.Body)
		id := req.Header.Get("X-Case")
		b.mu.Lock()
		b.seen[id] = sr
		b.mu.Unlock()
		keep := false
		if b.respond != nil {
			keep = b.respond(id, sr, c)
		} else if req.Method == "HEAD" {
			// (a body after a HEAD response would sit on the idle connection as an unsolicited response
			// and make the client's transport tear the connection down under the next request)
			c.Write([]byte("HTTP/1.1 200 OK\r\nContent-Length: 2\r\n\r\n"))
			keep = true
		} else {
			c.Write([]byte("HTTP/1.1 200 OK\r\nContent-Length: 2\r\n\r\nok"))
			keep = true
		}
		if !keep {
			return
		}
	}
}

// ---------------------------------------------------------------------------------------------
// C02: request cases
// ---------------------------------------------------------------------------------------------

func concretePath(class string, rng *rand.Rand) string {
	t := randToken(rng, 6)
	switch class {
	case "pct2F":
		return "/a%2Fb/" + t + "%2fz"
	case "pct20":
		return "/with%20space/" + t
	case "utf8":
		return "/caf%C3%A9/" + t
	case "dslash":
		return "//a//" + t + "//b"
	case "dots":
		return "/a/./b/../" + t
	case "long":
		return "/" + strings.Repeat("segment-"+t+"/", 200) + "end"
	case "semicolon-path":
		return "/matrix;v=1/" + t
	case "trailing-slash":
		return "/dir/" + t + "/"
	case "pct-lowerhex":
		return "/caf%c3%a9/%7e" + t
	case "colon-at":
		return "/a:b@c/" + t + ":8080"
	}
	return "/plain/" + t
}

func concreteQuery(class string, rng *rand.Rand) string {
	t := randToken(rng, 5)
	switch class {
	case "empty":
		return "?"
	case "simple":
		return "?k=" + t
	case "repeated":
		return "?k=1&k=2&k=" + t
	case "escaped":
		return "?q=%26%3D%2F" + t + "&r=%C3%A9"
	case "plus":
		return "?q=a+b+" + t
	case "valueless":
		return "?flag&other=" + t
	case "qmark-inside":
		return "?a=b?c&d=" + t + "?"
	case "at-colon-slash":
		return "?next=http://u:p@other.example:9/" + t
	}
	return ""
}

func concreteHost(class string) string {
	switch class {
	case "withport":
		return "svc.example:8443"
	case "ip":
		return "10.1.2.3"
	case "ipv6":
		return "[2001:db8::1]:8080"
	case "uppercase":
		return "SVC.Example"
	}
	return "svc.example"
}

func concreteReqHeader(class string, rng *rand.Rand, slot int) []hpair {
	t := randToken(rng, 8)
	name := fmt.Sprintf("X-Custom-%d-%s", slot, randToken(rng, 4))
	switch class {
	case "none":
		return nil
	case "custom":
		return []hpair{{name, "v-" + t}}
	case "custom2":
		return []hpair{{name, "first-" + t}, {name, "second-" + t}}
	case "custom3":
		return []hpair{{name, "b-" + t}, {name, "a-" + t}, {name, "c-" + t}}
	case "emptyval":
		return []hpair{{name, ""}}
	case "longval":
		return []hpair{{name, strings.Repeat("long-"+t, 700)}}
	case "cookie":
		return []hpair{{"Cookie", "a=1; b=" + t}}
	case "cookie2":
		return []hpair{{"Cookie", "a=1"}, {"Cookie", "b=" + t}}
	case "authorization":
		return []hpair{{"Authorization", "Bearer " + t}}
	case "hop-keep-alive":
		return []hpair{{"Keep-Alive", "timeout=5"}}
	case "hop-proxy-authorization":
		return []hpair{{"Proxy-Authorization", "Basic " + t}}
	case "hop-te":
		return []hpair{{"TE", "trailers"}}
	case "hop-upgrade":
		return []hpair{{"Upgrade", "foo/" + t}}
	case "hop-proxy-authenticate":
		return []hpair{{"Proxy-Authenticate", "Basic realm=" + t}}
	case "hop-connection":
		return []hpair{{"Connection", "keep-alive"}}
	case "mixedcase":
		return []hpair{{"x-MiXeD-" + randToken(rng, 3), "v-" + t}}
	case "accept-encoding":
		return []hpair{{"Accept-Encoding", "identity;q=1, br;q=0." + strconv.Itoa(1+rng.Intn(8))}}
	case "user-agent":
		return []hpair{{"User-Agent", "agent/" + t}}
	case "accept":
		return []hpair{{"Accept", "text/html, application/json;q=0.9"}}
	case "content-type":
		return []hpair{{"Content-Type", "application/x-" + t}}
	case "range":
		return []hpair{{"Range", "bytes=0-" + strconv.Itoa(rng.Intn(1000))}}
	case "ct-form":
		return []hpair{{"Content-Type", "application/x-www-form-urlencoded"}}
	case "ct-form-charset":
		return []hpair{{"Content-Type", "application/x-www-form-urlencoded; charset=UTF-8"}}
	case "ct-multipart":
		return []hpair{{"Content-Type", "multipart/form-data; boundary=----b" + t}}
	case "ct-json":
		return []hpair{{"Content-Type", "application/json"}}
	case "hop-lookalike":
		// end-to-end fields whose names merely resemble hop-by-hop ones
		return []hpair{{"Proxy-Trace-Id", "p-" + t}, {"Connection-Id", "c-" + t}, {"Keep-Alive-Hint", "k-" + t}, {"Upgrade-Insecure-Requests", "1"}, {"Te-Extension", "x-" + t}, {"Trailer-Hint", "h-" + t}}
	case "many":
		var hs []hpair
		for k := 0; k < 40; k++ {
			hs = append(hs, hpair{fmt.Sprintf("X-Many-%d-%02d", slot, k), fmt.Sprintf("v%d-%s", k, t)})
		}
		return hs
	case "forwarded":
		return []hpair{{"X-Forwarded-For", "203.0.113." + strconv.Itoa(1+rng.Intn(200))}, {"Forwarded", "for=192.0.2.60;proto=http;by=203.0.113.43"}}
	case "if-none-match":
		return []hpair{{"If-None-Match", "\"" + t + "\""}}
	case "origin":
		return []hpair{{"Origin", "https://" + t + ".example"}}
	}
	return nil
}

func concreteReqBody(class string, rng *rand.Rand, key string) (body []byte, chunked bool, pieces []int) {
	size := map[string]int{"len0": 0, "len1": 1, "len-small": 10 + rng.Intn(500), "len-4095": 4095, "len-4096": 4096, "len-4097": 4097,
		"len-32768": 32768, "len-32769": 32769, "len-100k": 100000, "big": 1<<20 + 4097} // (just beyond a megabyte: a round limit someone might put on bodies)
	if hx.Thorough() {
		size["big"] = 8 << 20
	}
	switch class {
	case "none":
		return nil, false, nil
	case "chunked-small":
		n := 1 + rng.Intn(300)
		return pattern(key, n), true, []int{n}
	case "chunked-multi":
		p := []int{1 + rng.Intn(100), 4096, 1 + rng.Intn(40000), 1}
		t := 0
		for _, x := range p {
			t += x
		}
		return pattern(key, t), true, p
	case "chunked-1byte-first":
		return pattern(key, 2001), true, []int{1, 2000}
	case "chunked-64k-plus-1":
		// one byte beyond 64 KiB, without an announced length (a round size for a buffer in front of the relay)
		return pattern(key, 65537), true, []int{30000, 35536, 1}
	case "chunked-big":
		n := 300000 + rng.Intn(5000)
		return pattern(key, n), true, []int{100000, n - 200000, 100000}
	}
	return pattern(key, size[class]), false, nil
}

// httpReqDriver: C02. Raw client -> real proxy -> real agent -> raw backend; each case is judged
// by HttpMsg!ReqOK on (what was sent, what arrived).
// nominateHopByHop: history for the cases that follow.  One earlier client declares a list of field names hop-by-hop
// for ITS OWN connection ("Connection: keep-alive, Etag, Accept, ..." - RFC 9110 7.6.1 allows any field to be named
// there).  Whatever the relay does with that request (it is not judged), it concerns that one message: the requests
// and responses of every later exchange carry those fields end to end as before.
func nominateHopByHop(addr string) {
	names := []string{"Accept", "Accept-Encoding", "User-Agent", "Content-Type", "Range", "If-None-Match", "Origin", "Cookie", "Authorization",
		"Proxy-Trace-Id", "Connection-Id", "Keep-Alive-Hint", "Upgrade-Insecure-Requests", "Te-Extension", "Trailer-Hint", "X-Case",
		"Etag", "Vary", "Link", "Server", "Age", "Via", "Content-Encoding", "X-Frame-Options", "Cache-Control", "Set-Cookie", "Location",
		"Proxy-Status", "Upgrade-Policy", "Content-Language", "Last-Modified", "X-Token"}
	for round := 0; round < 2; round++ {
		var raw bytes.Buffer
		fmt.Fprintf(&raw, "GET /nominate/%d HTTP/1.1\r\nHost: svc.example\r\nConnection: keep-alive, %s\r\n", round, strings.Join(names, ", "))
		for _, n := range names {
			if n != "X-Case" {
				fmt.Fprintf(&raw, "%s: n%d\r\n", n, round)
			}
		}
		fmt.Fprintf(&raw, "X-Case: nominate-%d\r\n\r\n", round)
		hx.RawRoundTrip(addr, raw.Bytes(), "GET", 20*time.Second)
	}
}

func httpReqDriver(a *Args) {
	res := a.Res
	cases := loadHTTPCases(a)
	if cases == nil {
		return
	}
	rng := hx.Rand("httpreq")
	be := newRawBackend()
	defer be.close()
	md := hx.StartMetadata()
	defer md.Close()
	hx.Reset("httpreq", "httpreq")
	// what reaches the backend does not depend on the agent's settings that are neutral for C02
	// (spec/AgentConfig.tla): the whole case set under the default configuration, every twentieth case under each
	// of the other configurations chosen for this run
	cfgs := hx.AgentConfigs()
	res.Extra["agent_configurations"] = len(cfgs)
	for ci, cfg := range cfgs {
		cfgTag := ""
		if cfg.Name() != "default" {
			cfgTag = "@" + cfg.Name()
		}
		proxy, port, err := hx.StartProxy(hx.Bin("proxy"), []string{"VERIF_TRACE="})
		if err != nil {
			res.Bad("proxy: %v", err)
			return
		}
		agent, err := hx.StartAgentCfg(hx.Bin("agent"), md, fmt.Sprintf("http://127.0.0.1:%d/", port), be.addr(), "agent", cfg, nil, []string{"VERIF_TRACE="})
		if err != nil {
			proxy.Kill()
			res.Bad("agent: %v", err)
			return
		}
		addr := fmt.Sprintf("127.0.0.1:%d", port)
		nominateHopByHop(addr)
		one := func(c reqCase, pass string, rng *rand.Rand) {
			method := c.Method
			bodyClass := c.Body
			if method == "GET" || method == "HEAD" || method == "OPTIONS" {
				bodyClass = "none"
			}
			id := fmt.Sprintf("q%d%s", c.N, pass)
			if cfgTag != "" {
				id = fmt.Sprintf("q%d%sk%d", c.N, pass, ci)
			}
			target := concretePath(c.Path, rng) + concreteQuery(c.Query, rng)
			host := concreteHost(c.Host)
			hdrs := append(concreteReqHeader(c.H1, rng, 1), concreteReqHeader(c.H2, rng, 2)...)
			hdrs = append(hdrs, hpair{"X-Case", id})
			body, chunked, pieces := concreteReqBody(bodyClass, rng, id)
			var raw bytes.Buffer
			fmt.Fprintf(&raw, "%s %s HTTP/1.1\r\nHost: %s\r\n", method, target, host)
			for _, h := range hdrs {
				fmt.Fprintf(&raw, "%s: %s\r\n", h[0], h[1])
			}
			if chunked {
				raw.WriteString("Transfer-Encoding: chunked\r\n\r\n")
				off := 0
				for _, p := range pieces {
					fmt.Fprintf(&raw, "%x\r\n", p)
					raw.Write(body[off : off+p])
					raw.WriteString("\r\n")
					off += p
				}
				raw.WriteString("0\r\n\r\n")
			} else if bodyClass != "none" {
				fmt.Fprintf(&raw, "Content-Length: %d\r\n\r\n", len(body))
				raw.Write(body)
			} else {
				raw.WriteString("\r\n")
			}
			resp := hx.RawRoundTrip(addr, raw.Bytes(), method, 60*time.Second)
			be.mu.Lock()
			sr := be.seen[id]
			be.mu.Unlock()
			in := map[string]interface{}{"method": method, "target": target, "host": host, "hdrs": canonPairs(hdrs), "body": digest(body)}
			sig := fmt.Sprintf("req:%s/%s/%s/%s/%s/%s/%s", c.Method, c.Path, c.Query, c.Host, c.H1, c.H2, bodyClass)
			if pass != "" {
				sig += ":concurrent"
			}
			sig += cfgTag
			muxInFront := cfg["banner"] == "on" || cfg["banner"] == "favicon" || (cfg["shim"] != "" && cfg["shim"] != "off")
			canon := canonicalTarget(target)
			if sr == nil {
				// nothing arrived at the backend: the observation is "no request"
				out := map[string]interface{}{"method": "NONE", "target": "", "host": "", "hdrs": []hpair{}, "body": digest(nil)}
				hx.Emit("ReqCase", "case", id, "sig", sig, "in", in, "out", out, "client_status", resp.Status, "client_err", fmt.Sprint(resp.Err), "mux", muxInFront, "canon", canon)
			} else {
				out := map[string]interface{}{"method": sr.Method, "target": sr.Target, "host": sr.Host, "hdrs": sr.Hdrs, "body": digest(sr.Body)}
				hx.Emit("ReqCase", "case", id, "sig", sig, "in", in, "out", out, "client_status", resp.Status, "mux", muxInFront, "canon", canon)
			}
			res.Case(sig, map[string]interface{}{"request_line": method + " " + headOf([]byte(target), 80), "classes": c})
		}
		// (under another configuration: a subset in which every class of every field occurs, plus every twentieth case)
		var sel []reqCase
		covered := map[string]bool{}
		for i, c := range cases.Req {
			fresh := false
			for _, k := range []string{"m:" + c.Method, "p:" + c.Path, "q:" + c.Query, "h:" + c.Host, "1:" + c.H1, "2:" + c.H2, "b:" + c.Body} {
				if !covered[k] {
					fresh = true
				}
			}
			if cfgTag == "" || fresh || i%20 == ci%20 {
				sel = append(sel, c)
				for _, k := range []string{"m:" + c.Method, "p:" + c.Path, "q:" + c.Query, "h:" + c.Host, "1:" + c.H1, "2:" + c.H2, "b:" + c.Body} {
					covered[k] = true
				}
			}
		}
		for _, c := range sel {
			one(c, "", rng)
		}
		// the same cases again, 16 at a time: proxy and agent handle every request with shared handlers,
		// transports and pools, so state that leaks from one request into another only shows under overlap
		runConcurrently(len(sel), 16, func(i int) {
			one(sel[i], "c", rand.New(rand.NewSource(int64(hx.Seed())*1000003+int64(i))))
		})
		if ex, code := agent.Exited(); ex {
			res.Note("agent (%s) exited with %d: %s", cfg.Name(), code, hx.Tail(agent.Output(), 1500))
		}
		agent.Kill()
		proxy.Kill()
	}
}

// canonicalTarget tells whether the path of a request target is in the form net/http's ServeMux leaves alone
// (no empty, "." or ".." segments in the decoded path).
func canonicalTarget(target string) bool {
	u, err := url.ParseRequestURI(target)
	if err != nil {
		return true
	}
	p := u.Path
	if p == "" || p[0] != '/' {
		return false
	}
	cp := path.Clean(p)
	if strings.HasSuffix(p, "/") && cp != "/" {
		cp += "/"
	}
	return cp == p
}

// runConcurrently calls f(0..n-1) with at most `width` calls in flight.
func runConcurrently(n, width int, f func(i int)) {
	sem := make(chan struct{}, width)
	var wg sync.WaitGroup
	for i := 0; i < n; i++ {
		sem <- struct{}{}
		wg.Add(1)
		go func(i int) {
			defer wg.Done()
			defer func() { <-sem }()
			f(i)
		}(i)
	}
	wg.Wait()
}

func canonPairs(h []hpair) []hpair {
	out := make([]hpair, 0, len(h))
	for _, p := range h {
		out = append(out, hpair{textproto.CanonicalMIMEHeaderKey(p[0]), p[1]})
	}
	return out
}

// ---------------------------------------------------------------------------------------------
// C03: response cases
// ---------------------------------------------------------------------------------------------

func concreteRespHeader(class string, rng *rand.Rand, slot int) []hpair {
	t := randToken(rng, 8)
	name := fmt.Sprintf("X-Resp-%d-%s", slot, randToken(rng, 4))
	switch class {
	case "custom":
		return []hpair{{name, "v-" + t}}
	case "custom2":
		return []hpair{{name, "one-" + t}, {name, "two-" + t}}
	case "setcookie2":
		return []hpair{{"Set-Cookie", "a=" + t + "; Path=/"}, {"Set-Cookie", "b=2; HttpOnly"}}
	case "setcookie3":
		return []hpair{{"Set-Cookie", "z=" + t}, {"Set-Cookie", "a=1; Path=/x"}, {"Set-Cookie", "m=3; Secure"}}
	case "content-type":
		return []hpair{{"Content-Type", "application/x-" + t + "; charset=utf-8"}}
	case "cache-control":
		return []hpair{{"Cache-Control", "max-age=" + strconv.Itoa(rng.Intn(1000))}}
	case "location":
		return []hpair{{"Location", "/moved/" + t}}
	case "www-authenticate":
		return []hpair{{"Www-Authenticate", "Basic realm=\"" + t + "\""}}
	case "longval":
		return []hpair{{name, strings.Repeat("long-"+t, 600)}}
	case "hop-connection":
		return []hpair{{"Connection", "keep-alive"}}
	case "hop-keep-alive":
		return []hpair{{"Keep-Alive", "timeout=5, max=100"}}
	case "hop-proxy-authenticate":
		return []hpair{{"Proxy-Authenticate", "Basic realm=\"" + t + "\""}}
	case "hop-upgrade":
		return []hpair{{"Upgrade", "h2c"}}
	case "hop-lookalike":
		return []hpair{{"Proxy-Status", "inner; error=" + t}, {"Proxy-Trace-Id", "p1-" + t}, {"Proxy-Trace-Id", "p2-" + t}, {"Connection-Id", "c-" + t}, {"Keep-Alive-Hint", "k-" + t}, {"Upgrade-Policy", "u-" + t}}
	case "date":
		return []hpair{{"Date", "Tue, 15 Nov 1994 08:12:31 GMT"}}
	case "server":
		return []hpair{{"Server", "backend/" + t}}
	case "link":
		return []hpair{{"Link", "</a/" + t + ">; rel=preload"}, {"Link", "</b>; rel=prefetch"}}
	case "via":
		return []hpair{{"Via", "1.1 inner-" + t}}
	case "age":
		return []hpair{{"Age", strconv.Itoa(rng.Intn(5000))}}
	case "emptyval":
		return []hpair{{name, ""}}
	case "mixedcase":
		return []hpair{{"x-rEsP-" + randToken(rng, 3), "v-" + t}}
	case "etag":
		return []hpair{{"Etag", "\"" + t + "\""}}
	case "vary":
		return []hpair{{"Vary", "Accept-Encoding"}, {"Vary", "Origin"}}
	case "content-encoding":
		return []hpair{{"Content-Encoding", "x-" + t}}
	case "x-frame-options":
		return []hpair{{"X-Frame-Options", "DENY"}}
	}
	return nil
}

func respBodyPieces(class string, rng *rand.Rand) []int {
	big := 1 << 20
	if hx.Thorough() {
		big = 6 << 20
	}
	switch class {
	case "len1":
		return []int{1}
	case "one1-then-rest":
		return []int{1, 500 + rng.Intn(3000)}
	case "single-small":
		return []int{2 + rng.Intn(800)}
	case "single-4096":
		return []int{4096}
	case "multi":
		return []int{1 + rng.Intn(50), 4096, 1, 1 + rng.Intn(30000)}
	case "len-32769":
		return []int{32769}
	case "len-100k":
		return []int{100000}
	case "big":
		return []int{big}
	}
	return nil
}

type scriptedResp struct {
	slowHead, slowBody time.Duration // a backend that goes quiet before its header / in the middle of its body
	status             int
	hdrs               []hpair
	trailers           []hpair
	declared           int
	interim            []int
	noBody             bool
	length             bool
	in                 map[string]interface{}
	head               []byte
	pieces             [][]byte
	chunked            bool
	tail               []byte
	close              bool
}

func buildResp(c respCase, rng *rand.Rand, id string) *scriptedResp {
	noBody := c.Method == "HEAD" || c.Status == 204 || c.Status == 304
	hdrs := append(concreteRespHeader(c.H1, rng, 1), concreteRespHeader(c.H2, rng, 2)...)
	sizes := respBodyPieces(c.Body, rng)
	total := 0
	for _, s := range sizes {
		total += s
	}
	body := pattern(id+"resp", total)
	framing := c.Framing
	declared, undeclared := c.Declared, c.Undeclared
	if (framing != "chunked" && !c.ViaH2) || noBody {
		declared, undeclared = 0, 0
	}
	s := &scriptedResp{}
	var head bytes.Buffer
	var interim []int
	switch c.Interim {
	case "103":
		interim = []int{103}
	case "103x2":
		interim = []int{103, 103}
	case "100":
		interim = []int{100}
	case "102":
		interim = []int{102}
	}
	for _, code := range interim {
		fmt.Fprintf(&head, "HTTP/1.1 %d %s\r\n", code, http.StatusText(code))
		if code == 103 {
			head.WriteString("Link: </style.css>; rel=preload\r\n")
		}
		head.WriteString("\r\n")
	}
	text := http.StatusText(c.Status)
	if text == "" {
		text = "Custom"
	}
	fmt.Fprintf(&head, "HTTP/1.1 %d %s\r\n", c.Status, text)
	for _, h := range hdrs {
		fmt.Fprintf(&head, "%s: %s\r\n", h[0], h[1])
	}
	var trailers []hpair
	var names []string
	for k := 0; k < declared; k++ {
		n := fmt.Sprintf("X-Decl-%d-%s", k, randToken(rng, 3))
		if k == 1 {
			n = "Proxy-Timing-" + randToken(rng, 3) // an end-to-end trailer whose name starts like a hop-by-hop field
		}
		names = append(names, n)
		trailers = append(trailers, hpair{textproto.CanonicalMIMEHeaderKey(n), "dval-" + randToken(rng, 5)})
	}
	for k := 0; k < undeclared; k++ {
		n := fmt.Sprintf("X-Undecl-%d-%s", k, randToken(rng, 3))
		trailers = append(trailers, hpair{textproto.CanonicalMIMEHeaderKey(n), "uval-" + randToken(rng, 5)})
	}
	switch {
	case noBody:
		if framing == "length" && c.Status != 204 {
			fmt.Fprintf(&head, "Content-Length: %d\r\n", total)
		}
		body = nil
		sizes = nil
		if framing == "close" {
			// a server that closes after a bodiless response has to say so, or the client's transport
			// keeps the connection for its next request
			head.WriteString("Connection: close\r\n")
			s.close = true
		}
	case framing == "length":
		fmt.Fprintf(&head, "Content-Length: %d\r\n", total)
	case framing == "chunked":
		head.WriteString("Transfer-Encoding: chunked\r\n")
		if len(names) > 0 {
			fmt.Fprintf(&head, "Trailer: %s\r\n", strings.Join(names, ", "))
		}
		s.chunked = true
	default:
		head.WriteString("Connection: close\r\n")
		s.close = true
	}
	head.WriteString("\r\n")
	s.head = head.Bytes()
	off := 0
	for _, n := range sizes {
		s.pieces = append(s.pieces, body[off:off+n])
		off += n
	}
	if s.chunked {
		var tail bytes.Buffer
		tail.WriteString("0\r\n")
		for _, t := range trailers {
			fmt.Fprintf(&tail, "%s: %s\r\n", t[0], t[1])
		}
		tail.WriteString("\r\n")
		s.tail = tail.Bytes()
	}
	s.status, s.hdrs, s.trailers, s.declared, s.interim, s.noBody, s.length = c.Status, hdrs, trailers, declared, interim, noBody, framing == "length"
	s.in = map[string]interface{}{"status": c.Status, "reqMethod": c.Method, "hdrs": canonPairs(hdrs), "body": digest(body),
		"trailers": trailers, "interim": interim}
	if trailers == nil {
		s.in["trailers"] = []hpair{}
	}
	if interim == nil {
		s.in["interim"] = []int{}
	}
	return s
}

// serveH2 produces the scripted response through net/http (used for the h2c backend).
func (s *scriptedResp) serveH2(w http.ResponseWriter, r *http.Request) {
	for _, code := range s.interim {
		if code == 103 {
			w.Header().Set("Link", "</style.css>; rel=preload")
		}
		w.WriteHeader(code)
		w.Header().Del("Link")
	}
	for _, h := range s.hdrs {
		w.Header().Add(h[0], h[1])
	}
	var names []string
	for i, t := range s.trailers {
		if i < s.declared {
			names = append(names, t[0])
		}
	}
	if len(names) > 0 {
		w.Header().Set("Trailer", strings.Join(names, ", "))
	}
	total := 0
	for _, p := range s.pieces {
		total += len(p)
	}
	if s.length && !(s.noBody && s.status == 204) {
		w.Header().Set("Content-Length", strconv.Itoa(total))
	}
	w.WriteHeader(s.status)
	fl, _ := w.(http.Flusher)
	if !s.noBody {
		for i, p := range s.pieces {
			w.Write(p)
			if fl != nil {
				fl.Flush()
			}
			if i == 0 && len(s.pieces) > 1 {
				time.Sleep(3 * time.Millisecond)
			}
		}
	}
	for i, t := range s.trailers {
		if i < s.declared {
			w.Header().Set(t[0], t[1])
		} else {
			w.Header().Set(http.TrailerPrefix+t[0], t[1])
		}
	}
}

// readFinalResponse reads responses from a connection until a final (non-1xx) one.
func readFinalResponse(conn net.Conn, method string) (status int, hdr http.Header, body []byte, trailer http.Header, interim []int, err error) {
	br := bufio.NewReader(conn)
	req, _ := http.NewRequest(method, "http://x/", nil)
	for {
		resp, e := http.ReadResponse(br, req)
		if e != nil {
			return 0, nil, nil, nil, interim, e
		}
		if resp.StatusCode >= 100 && resp.StatusCode < 200 {
			interim = append(interim, resp.StatusCode)
			continue
		}
		b, e := io.ReadAll(resp.Body)
		return resp.StatusCode, resp.Header, b, resp.Trailer, interim, e
	}
}

func headerPairs(h http.Header) []hpair {
	var names []string
	for k := range h {
		names = append(names, k)
	}
	sort.Strings(names)
	out := []hpair{}
	for _, k := range names {
		for _, v := range h[k] {
			out = append(out, hpair{k, v})
		}
	}
	return out
}

// httpRespDriver: C03. Scripted raw backend (exact wire response known) -> real agent -> real
// proxy -> raw client; each case is judged by HttpMsg!RespOK.
func httpRespDriver(a *Args) {
	res := a.Res
	cases := loadHTTPCases(a)
	if cases == nil {
		return
	}
	rng := hx.Rand("httpresp")
	be := newRawBackend()
	defer be.close()
	var mu sync.Mutex
	scripts := map[string]*scriptedResp{}
	h2 := a.Mode == "h2c"
	backendAddr := be.addr()
	if h2 {
		// an HTTP/2 (h2c, prior knowledge) backend producing the same abstract responses through net/http
		ln := listen()
		defer ln.Close()
		backendAddr = ln.Addr().String()
		srv := &http.Server{Handler: h2c.NewHandler(http.HandlerFunc(func(w http.ResponseWriter, r *http.Request) {
			io.Copy(io.Discard, r.Body)
			mu.Lock()
			s := scripts[r.Header.Get("X-Case")]
			mu.Unlock()
			if s == nil {
				w.Write([]byte("ok"))
				return
			}
			s.serveH2(w, r)
		}), &http2.Server{})}
		go srv.Serve(ln)
		defer srv.Close()
	}
	be.respond = func(id string, sr *seenRequest, c net.Conn) bool {
		mu.Lock()
		s := scripts[id]
		mu.Unlock()
		if s == nil {
			c.Write([]byte("HTTP/1.1 200 OK\r\nContent-Length: 2\r\n\r\nok"))
			return true
		}
		if s.slowHead > 0 {
			time.Sleep(s.slowHead)
		}
		c.Write(s.head)
		if s.slowBody > 0 && len(s.pieces) == 1 {
			time.Sleep(s.slowBody)
		}
		for i, p := range s.pieces {
			if s.chunked {
				fmt.Fprintf(c, "%x\r\n", len(p))
				c.Write(p)
				c.Write([]byte("\r\n"))
			} else {
				c.Write(p)
			}
			if i == 0 && len(s.pieces) > 1 {
				time.Sleep(3*time.Millisecond + s.slowBody)
			}
		}
		if s.chunked {
			c.Write(s.tail)
		}
		return !s.close
	}
	md := hx.StartMetadata()
	defer md.Close()
	suffix := ""
	env := []string{"VERIF_TRACE="}
	if a.Mode == "race" {
		suffix = "-race"
		env = append(env, "GORACE=halt_on_error=1")
	}
	hx.Reset("httpresp"+a.Mode, "httpresp")
	// what reaches the client does not depend on the agent's settings that are neutral for C03
	// (spec/AgentConfig.tla): the whole case set under the default configuration, a class-covering subset under each
	// of the other configurations chosen for this run (plain mode only)
	cfgs := []hx.AgentConfig{{}}
	if a.Mode == "" {
		cfgs = hx.AgentConfigs()
		res.Extra["agent_configurations"] = len(cfgs)
		// ... and one stack whose agent gives up on its calls to the proxy after a second (--proxy-timeout=1s), for
		// responses that take longer than that: what then reaches the client must not look like a complete response
		cfgs = append(cfgs, hx.AgentConfig{"timeout": "1s", "cut": "yes"})
	}
	for ci, cfg := range cfgs {
		cfgTag := ""
		if cfg.Name() != "default" {
			cfgTag = "@" + cfg.Name()
		}
		proxy, port, err := hx.StartProxy(hx.Bin("proxy"+suffix), env)
		if err != nil {
			res.Bad("proxy: %v", err)
			return
		}
		var agentArgs []string
		if h2 {
			agentArgs = []string{"--force-http2"}
		}
		agent, err := hx.StartAgentCfg(hx.Bin("agent"+suffix), md, fmt.Sprintf("http://127.0.0.1:%d/", port), backendAddr, "agent", cfg, agentArgs, env)
		if err != nil {
			proxy.Kill()
			res.Bad("agent: %v", err)
			return
		}
		addr := fmt.Sprintf("127.0.0.1:%d", port)
		nominateHopByHop(addr)
		var dead int32
		one := func(c respCase, pass string, rng *rand.Rand) {
			if atomic.LoadInt32(&dead) != 0 {
				return
			}
			id := fmt.Sprintf("p%d%s", c.N, pass)
			if cfgTag != "" {
				id = fmt.Sprintf("p%d%sk%d", c.N, pass, ci)
			}
			var quiet time.Duration
			if f := strings.SplitN(pass, ":", 2); len(f) == 2 {
				// pass "qh:<ms>" / "qb:<ms>": the backend is quiet for that long before its header / inside its body
				ms, _ := strconv.Atoi(f[1])
				quiet = time.Duration(ms) * time.Millisecond
				pass = f[0] + f[1]
				id = fmt.Sprintf("p%d%s", c.N, pass)
			}
			c.ViaH2 = h2
			s := buildResp(c, rng, id)
			if quiet > 0 && strings.HasPrefix(pass, "qh") {
				s.slowHead = quiet
			} else if quiet > 0 {
				s.slowBody = quiet
			}
			cut := strings.HasPrefix(pass, "cut")
			mu.Lock()
			scripts[id] = s
			mu.Unlock()
			if h2 {
				// HTTP/2 has no chunked / close-delimited framing: trailers are possible with any body
				c.Framing = map[string]string{"length": "length", "chunked": "chunked", "close": "chunked"}[c.Framing]
				if c.Interim == "100" {
					c.Interim = "none" // net/http servers cannot emit a bare 100 themselves
				}
			}
			sig := fmt.Sprintf("resp:%d/%s/%s/%s/%s/%s/d%d/u%d/%s", c.Status, c.Method, c.H1, c.H2, c.Framing, c.Body, c.Declared, c.Undeclared, c.Interim)
			if h2 {
				sig = "h2c-" + sig
			}
			if quiet > 0 {
				sig += ":quiet-" + pass
			} else if pass != "" {
				sig += ":concurrent"
			}
			sig += cfgTag
			raw := fmt.Sprintf("%s /c03/%s HTTP/1.1\r\nHost: svc.example\r\nX-Case: %s\r\n", c.Method, id, id)
			if c.Method == "POST" {
				raw += "Content-Length: 3\r\n\r\nabc"
			} else {
				raw += "\r\n"
			}
			out := map[string]interface{}{"status": 0, "hdrs": []hpair{}, "body": digest(nil), "trailers": []hpair{}}
			conn, err := net.DialTimeout("tcp", addr, 5*time.Second)
			errText := ""
			if err == nil {
				conn.SetDeadline(time.Now().Add(60*time.Second + quiet))
				conn.Write([]byte(raw))
				status, hdr, body, trailer, interim, rerr := readFinalResponse(conn, c.Method)
				conn.Close()
				if rerr != nil {
					errText = rerr.Error()
				}
				if hdr != nil {
					out = map[string]interface{}{"status": status, "hdrs": headerPairs(hdr), "body": digest(body), "trailers": headerPairs(trailer), "interim": interim}
					if interim == nil {
						out["interim"] = []int{}
					}
				}
			} else {
				errText = err.Error()
			}
			if cut {
				// the exchange cannot complete (the agent's upload is cut by its time-out): judged is only that a
				// response which arrives without any error is the backend's response
				hx.Emit("CutCase", "case", id, "sig", sig, "in", s.in, "out", out, "err", errText, "clean", errText == "" && out["status"] != 0)
			} else {
				hx.Emit("RespCase", "case", id, "sig", sig, "in", s.in, "out", out, "err", errText)
			}
			res.Case(sig, map[string]interface{}{"classes": c})
			if ex, code := agent.Exited(); ex {
				kind, inRepo, exc := hx.RaceReport(agent.Output())
				res.Note("agent exited with %d after case %s (%s, inRepo=%v): %s", code, sig, kind, inRepo, headOf([]byte(exc), 1500))
				if atomic.CompareAndSwapInt32(&dead, 0, 1) {
					hx.Emit("ProcExit", "proc", "agent", "code", code, "report", kind, "sig", sig)
				}
				return
			}
			if ex, code := proxy.Exited(); ex {
				kind, inRepo, exc := hx.RaceReport(proxy.Output())
				res.Note("proxy exited with %d after case %s (%s, inRepo=%v): %s", code, sig, kind, inRepo, headOf([]byte(exc), 1500))
				if atomic.CompareAndSwapInt32(&dead, 0, 1) {
					hx.Emit("ProcExit", "proc", "proxy", "code", code, "report", kind, "sig", sig)
				}
				return
			}
		}
		if cfg["cut"] == "yes" {
			k := 0
			for _, c := range cases.Resp {
				if c.Method != "GET" || c.Status != 200 || c.Body == "empty" || c.Interim != "none" || c.Framing == "length" {
					continue
				}
				one(c, "cut:2500", rng)
				if k++; k == 3 {
					break
				}
			}
			agent.Kill()
			proxy.Kill()
			continue
		}
		var sel []respCase
		covered := map[string]bool{}
		for i, c := range cases.Resp {
			keys := []string{fmt.Sprint("s:", c.Status), "m:" + c.Method, "1:" + c.H1, "2:" + c.H2, "f:" + c.Framing, "b:" + c.Body,
				fmt.Sprint("d:", c.Declared), fmt.Sprint("u:", c.Undeclared), "i:" + c.Interim}
			fresh := false
			for _, k := range keys {
				if !covered[k] {
					fresh = true
				}
			}
			if cfgTag == "" || fresh || i%20 == ci%20 {
				sel = append(sel, c)
				for _, k := range keys {
					covered[k] = true
				}
			}
		}
		for _, c := range sel {
			one(c, "", rng)
		}
		// the same cases again, 16 at a time (see httpReqDriver)
		runConcurrently(len(sel), 16, func(i int) {
			one(sel[i], "c", rand.New(rand.NewSource(int64(hx.Seed())*1000003+int64(i))))
		})
		// (a quiet period has to fit into the agent's --proxy-timeout, which covers the whole upload of a response: periods
		// up to 55 s run under the default of 60 s, longer ones under the configuration with 5 m)
		if (cfgTag == "" || cfgTag == "@timeout=long") && a.Mode == "" {
			// exchanges in which the backend goes quiet for longer than common time-outs (before its header, inside
			// its body), all at the same time: the response is the same response
			type quietCase struct {
				c    respCase
				pass string
			}
			var qs []quietCase
			for _, d := range pauseClasses() {
				if (d >= 55*time.Second) != (cfgTag == "@timeout=long") {
					continue
				}
				k := 0
				for _, c := range sel {
					if c.Method == "HEAD" || c.Status == 204 || c.Status == 304 || c.Body == "empty" || c.Interim != "none" {
						continue
					}
					qs = append(qs, quietCase{c, fmt.Sprintf("qh:%d", d.Milliseconds())}, quietCase{c, fmt.Sprintf("qb:%d", d.Milliseconds())})
					if k++; k == 3 {
						break
					}
				}
			}
			runConcurrently(len(qs), len(qs)+1, func(i int) {
				one(qs[i].c, qs[i].pass, rand.New(rand.NewSource(int64(hx.Seed())*7919+int64(i))))
			})
		}
		agent.Kill()
		proxy.Kill()
		if atomic.LoadInt32(&dead) != 0 {
			break
		}
	}
}

// ---------------------------------------------------------------------------------------------
// C09: identity / credential cases
// ---------------------------------------------------------------------------------------------

func identityDriver(a *Args) {
	res := a.Res
	cases := loadHTTPCases(a)
	if cases == nil {
		return
	}
	rng := hx.Rand("identity")
	md := hx.StartMetadata()
	defer md.Close()

	type saw struct{ user, auth, cookie []string }
	var mu sync.Mutex
	seen := map[string]*saw{}
	up := websocket.Upgrader{CheckOrigin: func(*http.Request) bool { return true }}
	record := func(r *http.Request) {
		id := r.URL.Query().Get("case")
		mu.Lock()
		seen[id] = &saw{user: append([]string{}, r.Header.Values("X-Inverting-Proxy-User-Id")...), auth: append([]string{}, r.Header.Values("Authorization")...),
			cookie: append([]string{}, r.Header.Values("Cookie")...)}
		mu.Unlock()
	}
	bln := listen()
	backend := &http.Server{Handler: http.HandlerFunc(func(w http.ResponseWriter, r *http.Request) {
		record(r)
		if websocket.IsWebSocketUpgrade(r) {
			if c, err := up.Upgrade(w, r, nil); err == nil {
				c.Close()
			}
			return
		}
		io.ReadAll(r.Body)
		if r.URL.Query().Get("setck") == "1" {
			// the backend sets a cookie of its own, scoped to /id
			w.Header().Add("Set-Cookie", "tok=secret-"+r.URL.Query().Get("case")+"; Path=/id")
		}
		io.WriteString(w, "ok")
	})}
	go backend.Serve(bln)
	defer backend.Close()

	// group cases by agent configuration
	type cfg struct{ fwd, strip, shim, sessions bool }
	groups := map[cfg][]idCase{}
	var order []cfg
	for _, c := range cases.ID {
		k := cfg{c.Fwd, c.Strip, c.Shim, c.Sessions}
		if _, ok := groups[k]; !ok {
			order = append(order, k)
		}
		groups[k] = append(groups[k], c)
	}
	hx.Reset("identity", "identity")
	for _, k := range order {
		fp := fakes.NewFakeProxy()
		type fetch struct {
			raw  []byte
			user string
		}
		var fmu sync.Mutex
		fetches := map[string]fetch{}
		posted := map[string]chan struct{}{}
		fp.Fetch = func(id string) ([]byte, string, int) {
			fmu.Lock()
			f := fetches[id]
			fmu.Unlock()
			return f.raw, f.user, 200
		}
		uploads := map[string]*fakes.Upload{}
		fp.OnUpload = func(u *fakes.Upload) {
			fmu.Lock()
			ch := posted[u.ID]
			uploads[u.ID] = u
			fmu.Unlock()
			if ch != nil {
				close(ch)
			}
		}
		var args []string
		if k.fwd {
			args = append(args, "--forward-user-id")
		}
		if k.strip {
			args = append(args, "--strip-credentials")
		}
		if k.shim {
			args = append(args, "--shim-websockets", "--shim-path=shimz")
			if k.fwd != k.strip || k.sessions {
				// (the shim's own option: the handshake carries the Host of the client's request)
				args = append(args, "--rewrite-websocket-host")
			}
		}
		if k.sessions {
			args = append(args, "--session-cookie-name=vsess", "--disable-ssl-for-test")
		}
		agent, err := hx.StartAgent(hx.Bin("agent"), md, fp.URL(), bln.Addr().String(), "agent", args, []string{"VERIF_TRACE="})
		if err != nil {
			res.Bad("agent: %v", err)
			fp.Close()
			return
		}
		one := func(c idCase, pass string, rng *rand.Rand) {
			if strings.HasPrefix(c.Kind, "shim-open") && !k.shim {
				return
			}
			id := fmt.Sprintf("i%d%s", c.N, pass)
			asserted := "user-" + randToken(rng, 6) + "@example.com"
			if c.Asserted == "empty" {
				asserted = "" // the proxy asserts no identity: the backend sees exactly one, empty, value
			}
			var hdrs []hpair
			var sentUser, sentAuth []string
			addU := func(name, v string) { hdrs = append(hdrs, hpair{name, v}); sentUser = append(sentUser, v) }
			switch c.Forged {
			case "canonical":
				addU("X-Inverting-Proxy-User-ID", "evil@example.com")
			case "lower":
				addU("x-inverting-proxy-user-id", "evil-lower@example.com")
			case "mixed":
				addU("X-inverting-PROXY-user-Id", "evil-mixed@example.com")
			case "two":
				addU("X-Inverting-Proxy-User-ID", "evil1@example.com")
				addU("X-Inverting-Proxy-User-ID", "evil2@example.com")
			case "canonical+lower":
				addU("X-Inverting-Proxy-User-ID", "evil1@example.com")
				addU("x-inverting-proxy-user-id", "evil2@example.com")
			case "asserted-first": // the client repeats the identity the proxy will assert, then adds another
				addU("X-Inverting-Proxy-User-ID", asserted)
				addU("X-Inverting-Proxy-User-ID", "evil-after@example.com")
			case "asserted-last":
				addU("X-Inverting-Proxy-User-ID", "evil-before@example.com")
				addU("x-inverting-proxy-user-id", asserted)
			case "empty-first":
				addU("X-Inverting-Proxy-User-ID", "")
				addU("X-Inverting-Proxy-User-ID", "evil-after-empty@example.com")
			case "asserted-only":
				addU("X-Inverting-Proxy-User-ID", asserted)
			}
			addA := func(name, v string) { hdrs = append(hdrs, hpair{name, v}); sentAuth = append(sentAuth, v) }
			switch c.Auth {
			case "basic":
				addA("Authorization", "Basic dXNlcjpwYXNz")
			case "bearer":
				addA("Authorization", "Bearer "+randToken(rng, 20))
			case "two":
				addA("Authorization", "Bearer one")
				addA("Authorization", "Basic two")
			case "lower":
				addA("authorization", "Bearer lower-"+randToken(rng, 8))
			}
			var raw bytes.Buffer
			switch c.Kind {
			case "get":
				fmt.Fprintf(&raw, "GET /id/x?case=%s HTTP/1.1\r\nHost: svc.example\r\n", id)
			case "post":
				fmt.Fprintf(&raw, "POST /id/x?case=%s HTTP/1.1\r\nHost: svc.example\r\nContent-Length: 4\r\n", id)
			case "shim-open", "shim-open-userinfo":
				body := fmt.Sprintf("ws://svc.example/ws/x?case=%s", id)
				if c.Kind == "shim-open-userinfo" {
					body = fmt.Sprintf("ws://alice:s3cret@svc.example/ws/x?case=%s", id)
				}
				fmt.Fprintf(&raw, "POST /shimz/open HTTP/1.1\r\nHost: svc.example\r\nX-Websocket-Shim-Version: 1\r\nContent-Length: %d\r\n", len(body))
				for _, h := range hdrs {
					fmt.Fprintf(&raw, "%s: %s\r\n", h[0], h[1])
				}
				raw.WriteString("\r\n" + body)
			}
			if !strings.HasPrefix(c.Kind, "shim-open") {
				for _, h := range hdrs {
					fmt.Fprintf(&raw, "%s: %s\r\n", h[0], h[1])
				}
				raw.WriteString("\r\n")
				if c.Kind == "post" {
					raw.WriteString("data")
				}
			}
			ch := make(chan struct{})
			fmu.Lock()
			fetches[id] = fetch{raw.Bytes(), asserted}
			posted[id] = ch
			fmu.Unlock()
			fp.Push([]string{id})
			select {
			case <-ch:
			case <-time.After(15 * time.Second):
				res.Note("case %s: no upload within 15 s", id)
			}
			mu.Lock()
			s := seen[id]
			mu.Unlock()
			sig := fmt.Sprintf("id:fwd=%v/strip=%v/shim=%v/sess=%v/%s/%s/%s/asserted=%s", k.fwd, k.strip, k.shim, k.sessions, c.Forged, c.Auth, c.Kind, c.Asserted)
			if pass != "" {
				sig += ":concurrent"
			}
			if s == nil && c.Kind == "shim-open-userinfo" {
				// the websocket library refuses such a URL: nothing reached the backend, so there is nothing to judge
				res.Case(sig, map[string]interface{}{"classes": c, "reached_backend": false})
				return
			}
			if s == nil {
				hx.Emit("IdCase", "case", id, "sig", sig, "fwd", k.fwd, "strip", k.strip, "asserted", asserted, "saw_user", []string{"<no request reached the backend>"},
					"saw_auth", []string{"<no request reached the backend>"}, "sent_user", nz(sentUser), "sent_auth", nz(sentAuth), "kind", c.Kind)
			} else {
				if c.Kind == "shim-open-userinfo" && !k.strip {
					// without --strip-credentials, credentials named in the URL may legitimately travel on as a header:
					// only the stripping (and the identity header) is judged for this kind
					sentAuth = s.auth
				}
				hx.Emit("IdCase", "case", id, "sig", sig, "fwd", k.fwd, "strip", k.strip, "asserted", asserted, "saw_user", nz(s.user), "saw_auth", nz(s.auth),
					"sent_user", nz(sentUser), "sent_auth", nz(sentAuth), "kind", c.Kind)
			}
			res.Case(sig, map[string]interface{}{"classes": c})
		}
		for _, c := range groups[k] {
			one(c, "", rng)
		}
		// the same cases again, 16 at a time: identities asserted for different requests in flight together
		g := groups[k]
		runConcurrently(len(g), 16, func(i int) {
			one(g[i], "c", rand.New(rand.NewSource(int64(hx.Seed())*1000003+int64(g[i].N))))
		})
		if k.sessions && k.shim {
			// session tracking together with the websocket shim (C10 through the agent's own handler chain): a cookie
			// the backend set earlier in the session, for the path of the websocket, travels with the handshake of
			// a shimmed websocket opened in that session; the session cookie itself never reaches the backend
			exchange := func(id string, raw string) *fakes.Upload {
				ch := make(chan struct{})
				fmu.Lock()
				fetches[id] = fetch{[]byte(raw), "user@example.com"}
				posted[id] = ch
				fmu.Unlock()
				fp.Push([]string{id})
				select {
				case <-ch:
				case <-time.After(15 * time.Second):
				}
				fmu.Lock()
				defer fmu.Unlock()
				return uploads[id]
			}
			tag := fmt.Sprintf("ss%v%v", k.fwd, k.strip)
			id1, id2, id3 := tag+"a", tag+"b", tag+"c"
			u1 := exchange(id1, fmt.Sprintf("GET /id/x?case=%s&setck=1 HTTP/1.1\r\nHost: svc.example\r\n\r\n", id1))
			sid := ""
			if u1 != nil && u1.Resp != nil {
				for _, ck := range u1.Resp.Cookies() {
					if ck.Name == "vsess" {
						sid = ck.Value
					}
				}
			}
			body := fmt.Sprintf("ws://svc.example/id/ws?case=%s", id2)
			exchange(id2, fmt.Sprintf("POST /shimz/open HTTP/1.1\r\nHost: svc.example\r\nX-Websocket-Shim-Version: 1\r\nCookie: vsess=%s; mine=1\r\nContent-Length: %d\r\n\r\n%s", sid, len(body), body))
			exchange(id3, fmt.Sprintf("GET /other/y?case=%s HTTP/1.1\r\nHost: svc.example\r\nCookie: vsess=%s\r\n\r\n", id3, sid))
			has := func(id, needle string) bool {
				mu.Lock()
				defer mu.Unlock()
				if seen[id] == nil {
					return false
				}
				return strings.Contains(strings.Join(seen[id].cookie, "; "), needle)
			}
			mu.Lock()
			reachedHS := seen[id2] != nil
			mu.Unlock()
			hx.Emit("SessShim", "case", tag, "sig", fmt.Sprintf("sessions+shim:fwd=%v/strip=%v", k.fwd, k.strip), "session_started", sid != "", "handshake_reached_backend", reachedHS,
				"handshake_has_backend_cookie", has(id2, "tok=secret-"+id1), "handshake_has_client_cookie", has(id2, "mine=1"),
				"handshake_has_session_cookie", has(id2, "vsess="), "later_request_has_session_cookie", has(id3, "vsess="), "other_path_has_scoped_cookie", has(id3, "tok="))
			res.Case("sessions+shim:"+tag, map[string]interface{}{"session": sid != ""})
		}
		if ex, code := agent.Exited(); ex {
			res.Note("agent exited with %d: %s", code, hx.Tail(agent.Output(), 1200))
			hx.Emit("ProcExit", "proc", "agent", "code", code)
		}
		agent.Kill()
		fp.Close()
	}
}

func nz(s []string) []string {
	if s == nil {
		return []string{}
	}
	return s
}
