package drv

import (
	"bufio"
	"bytes"
	"encoding/json"
	"fmt"
	"io"
	"math/rand"
	"net/http"
	"net/url"
	"os"
	"reflect"
	"strings"
	"sync"
	"sync/atomic"
	"time"

	"verifharness/fakes"
	"verifharness/hx"
)

func init() {
	Drivers["appauth"] = appAuthDriver
	Drivers["approute"] = appRouteDriver
	Drivers["apprelay"] = appRelayDriver
}

type appEnv struct {
	ae                       *fakes.FakeAE
	procs                    []*hx.Proc
	defPort, agPort, apiPort int
	reqN                     int64
}

func oauthFromTicket(ticket string) (string, bool) {
	if strings.HasPrefix(ticket, "oauth=") {
		p := strings.Split(strings.TrimPrefix(ticket, "oauth="), ";")
		return p[0], len(p) > 1 && p[1] == "admin"
	}
	return "", false
}

func startAppEnv(res *hx.Result) *appEnv {
	e := &appEnv{ae: fakes.NewFakeAE()}
	e.ae.OAuth = oauthFromTicket
	h, p := e.ae.HostPort()
	for _, svc := range []string{"default", "agent", "api"} {
		port := hx.FreePort()
		proc, err := hx.Start("app-"+svc, hx.Bin("app"), nil, []string{fmt.Sprintf("PORT=%d", port), "GAE_SERVICE=" + svc, "API_HOST=" + h, "API_PORT=" + p,
			"GAE_APPLICATION=testapp", "GAE_ENV=standard", "VERIF_TRACE="})
		if err != nil {
			res.Bad("cannot start app service %s: %v", svc, err)
			return nil
		}
		e.procs = append(e.procs, proc)
		switch svc {
		case "default":
			e.defPort = port
		case "agent":
			e.agPort = port
		default:
			e.apiPort = port
		}
	}
	// wait for the three listeners
	for _, port := range []int{e.defPort, e.agPort, e.apiPort} {
		ok := false
		for i := 0; i < 300; i++ {
			if resp, err := http.Get(fmt.Sprintf("http://127.0.0.1:%d/_probe_", port)); err == nil {
				resp.Body.Close()
				ok = true
				break
			}
			time.Sleep(10 * time.Millisecond)
		}
		if !ok {
			res.Bad("app service on port %d did not come up: %s", port, hx.Tail(e.procs[0].Output(), 400))
			return nil
		}
	}
	return e
}

func (e *appEnv) stop() {
	for _, p := range e.procs {
		p.Kill()
	}
	e.ae.Close()
}

var appClient = &http.Client{Transport: &http.Transport{MaxIdleConnsPerHost: 64}, Timeout: 45 * time.Second}

func (e *appEnv) do(port int, method, path string, hdr map[string]string, body []byte, timeout time.Duration) (int, []byte, http.Header, error) {
	req, _ := http.NewRequest(method, fmt.Sprintf("http://127.0.0.1:%d%s", port, path), bytes.NewReader(body))
	for k, v := range hdr {
		for _, line := range strings.Split(v, "\n") { // (a value with line breaks: the field on several header lines)
			req.Header.Add(k, line)
		}
	}
	cl := appClient
	if timeout > 0 {
		cl = &http.Client{Transport: appClient.Transport, Timeout: timeout}
	}
	resp, err := cl.Do(req)
	if err != nil {
		return 0, nil, nil, err
	}
	defer resp.Body.Close()
	b, err := io.ReadAll(resp.Body)
	return resp.StatusCode, b, resp.Header, err
}

var adminHdr = map[string]string{"X-AppEngine-User-Email": "admin@example.com", "X-AppEngine-User-Is-Admin": "1"}

type appBackend struct {
	ID          string   `json:"id"`
	EndUser     string   `json:"endUser"`
	BackendUser string   `json:"backendUser"`
	Prefixes    []string `json:"pathPrefixes"`
	live        bool
}

func (e *appEnv) addBackend(b appBackend) int {
	body, _ := json.Marshal(b)
	st, _, _, _ := e.do(e.apiPort, "POST", "/api/backends", adminHdr, body, 0)
	return st
}

func (e *appEnv) deleteBackend(id string) {
	// every segment escaped, slashes kept (an ID may contain them)
	segs := strings.Split(id, "/")
	for k := range segs {
		segs[k] = url.PathEscape(segs[k])
	}
	e.do(e.apiPort, "DELETE", "/api/backends/"+strings.Join(segs, "/"), adminHdr, nil, 0)
}

func (e *appEnv) setLastSeen(id string, t time.Time) bool {
	return e.ae.SetInt64Prop("backendTracker|"+id, "LastSeen", t.UnixNano()/1000)
}

func agentHdr(identity, backend, rid string) map[string]string {
	h := map[string]string{}
	if identity != "" {
		h["X-AppEngine-API-Ticket"] = "oauth=" + identity
	}
	if backend != "" {
		h["X-Inverting-Proxy-Backend-ID"] = backend
	}
	if rid != "" {
		h["X-Inverting-Proxy-Request-ID"] = rid
	}
	return h
}

// clientRequest issues an end-user request in the background; it returns the request ID.
type clientResult struct {
	status int
	body   []byte
	err    error
	hdr    http.Header
}

func (e *appEnv) clientRequest(user, method, path string, body []byte, timeout time.Duration) (string, chan clientResult) {
	rid := fmt.Sprintf("rid-%d-%d", os.Getpid(), atomic.AddInt64(&e.reqN, 1))
	ch := make(chan clientResult, 1)
	go func() {
		hdr := map[string]string{"X-Appengine-Request-Log-Id": rid, "X-Verif-Probe": rid}
		if user != "" {
			hdr["X-AppEngine-User-Email"] = user
		}
		st, b, rh, err := e.do(e.defPort, method, path, hdr, body, timeout)
		ch <- clientResult{st, b, err, rh}
	}()
	return rid, ch
}

// clientRequestForm is clientRequest (GET, no body) with the request target in another legal form: "absolute-form"
// (GET http://host/path HTTP/1.1, as sent to proxies) or "pct-letters" (unreserved characters of the path
// percent-encoded - equivalent to the plain path for every URI-aware component).
func (e *appEnv) clientRequestForm(user, path, form string, timeout time.Duration) (string, chan clientResult) {
	if form == "" || form == "origin-form" {
		return e.clientRequest(user, "GET", path, nil, timeout)
	}
	rid := fmt.Sprintf("rid-%d-%d", os.Getpid(), atomic.AddInt64(&e.reqN, 1))
	ch := make(chan clientResult, 1)
	target := path
	switch form {
	case "absolute-form":
		target = "http://proxy.example" + path
	case "pct-letters":
		var b strings.Builder
		first := true
		for i := 0; i < len(path); i++ {
			c := path[i]
			isAlnum := (c >= 'a' && c <= 'z') || (c >= 'A' && c <= 'Z') || (c >= '0' && c <= '9')
			if isAlnum && first {
				fmt.Fprintf(&b, "%%%02X", c)
				first = false
				continue
			}
			if c == '/' {
				first = true
			}
			b.WriteByte(c)
		}
		target = b.String()
	}
	go func() {
		var raw bytes.Buffer
		fmt.Fprintf(&raw, "GET %s HTTP/1.1\r\nHost: 127.0.0.1:%d\r\nX-Appengine-Request-Log-Id: %s\r\nX-Verif-Probe: %s\r\nConnection: close\r\n", target, e.defPort, rid, rid)
		if user != "" {
			fmt.Fprintf(&raw, "X-AppEngine-User-Email: %s\r\n", user)
		}
		raw.WriteString("\r\n")
		r := hx.RawRoundTrip(fmt.Sprintf("127.0.0.1:%d", e.defPort), raw.Bytes(), "GET", timeout)
		ch <- clientResult{r.Status, r.Body, r.Err, r.Header}
	}()
	return rid, ch
}

// clientRequestHdr is clientRequest (no body) with extra request header fields.
func (e *appEnv) clientRequestHdr(user, method, path string, extra map[string]string, timeout time.Duration) (string, chan clientResult) {
	rid := fmt.Sprintf("rid-%d-%d", os.Getpid(), atomic.AddInt64(&e.reqN, 1))
	ch := make(chan clientResult, 1)
	go func() {
		hdr := map[string]string{"X-Appengine-Request-Log-Id": rid, "X-Verif-Probe": rid}
		if user != "" {
			hdr["X-AppEngine-User-Email"] = user
		}
		for k, v := range extra {
			hdr[k] = v
		}
		st, b, rh, err := e.do(e.defPort, method, path, hdr, nil, timeout)
		ch <- clientResult{st, b, err, rh}
	}()
	return rid, ch
}

// storedUnder finds the backend a request ID was stored under (the kind of its entity is req:"<backend>").
func (e *appEnv) storedUnder(rid string, wait time.Duration) string {
	deadline := time.Now().Add(wait)
	for {
		for _, k := range e.ae.Entities("") {
			if strings.HasPrefix(k, "req:") && strings.HasSuffix(k, "|"+rid) {
				kind := strings.SplitN(k, "|", 2)[0]
				return strings.Trim(strings.TrimPrefix(kind, "req:"), "\"")
			}
		}
		if time.Now().After(deadline) {
			return ""
		}
		time.Sleep(5 * time.Millisecond)
	}
}

func chars(s string) []string {
	out := []string{}
	for _, c := range s {
		out = append(out, string(c))
	}
	return out
}

func backendsEvent(bs []appBackend) []map[string]interface{} {
	out := []map[string]interface{}{}
	for _, b := range bs {
		var pf [][]string
		for _, p := range b.Prefixes {
			pf = append(pf, chars(p))
		}
		out = append(out, map[string]interface{}{"id": b.ID, "endUser": b.EndUser, "backendUser": b.BackendUser, "prefixes": pf, "live": b.live})
	}
	return out
}

type appCases struct {
	Auth     []struct{ Endpoint, Identity, Backend, Rid string } `json:"auth"`
	Prefixes []string                                            `json:"prefixes"`
	Paths    []string                                            `json:"paths"`
	EndUsers []string                                            `json:"endusers"`
	Liveness []string                                            `json:"liveness"`
	Sizes    []int                                               `json:"sizes"`
	FailSets [][]string                                          `json:"failsets"`
	N        int                                                 `json:"n"`
	// registration histories (C17): sequences over reg1, reg2, del, call1, call2
	Histories [][]string `json:"histories"`
}

func loadAppCases(a *Args) *appCases {
	var c appCases
	b, err := os.ReadFile(a.Cases)
	if err != nil || json.Unmarshal(b, &c) != nil {
		a.Res.Bad("cannot read cases %q: %v", a.Cases, err)
		return nil
	}
	return &c
}

// ---------------------------------------------------------------------------------------------
// C17
// ---------------------------------------------------------------------------------------------

func appAuthDriver(a *Args) {
	res := a.Res
	cases := loadAppCases(a)
	if cases == nil {
		return
	}
	e := startAppEnv(res)
	if e == nil {
		return
	}
	defer e.stop()
	pend := map[string]string{}
	secret := map[string]string{}
	// one pass of the access-control cases for a pair of backend IDs
	authPass := func(idA, idB, tag string, stride int) bool {
	utag := strings.NewReplacer(":", "-").Replace(tag)
	bA := appBackend{ID: idA, EndUser: "alice" + utag + "@example.com", BackendUser: "agent-a" + utag + "@example.com", Prefixes: []string{"/"}, live: true}
	bB := appBackend{ID: idB, EndUser: "bob" + utag + "@example.com", BackendUser: "agent-b" + utag + "@example.com", Prefixes: []string{"/"}, live: true}
	for _, b := range []appBackend{bA, bB} {
		if st := e.addBackend(b); st != 200 {
			res.Bad("cannot add backend: %d", st)
			return false
		}
		e.setLastSeen(b.ID, time.Now())
	}
	hx.Reset("appauth"+tag, "appauth")
	hx.Emit("Backends", "list", backendsEvent([]appBackend{bA, bB}))
	// each backend always has a pending client request (so that an authorised list call returns at once)
	ensurePending := func(b appBackend) {
		rid := pend[b.ID]
		if rid != "" {
			if v, ok := e.ae.Prop(fmt.Sprintf("req:%q|%s", b.ID, rid), "Completed"); ok && v == false {
				return
			}
		}
		e.setLastSeen(b.ID, time.Now())
		sec := "secret-" + randToken(hx.Rand("appauth"+b.ID+fmt.Sprint(len(secret))), 10)
		rid, _ = e.clientRequest(b.EndUser, "POST", "/private/"+sec, []byte("body-"+sec), 40*time.Second)
		if e.storedUnder(rid, 5*time.Second) != b.ID {
			res.Bad("could not create a pending request for %s", b.ID)
		}
		pend[b.ID] = rid
		secret[rid] = sec
	}
	for i, c := range cases.Auth {
		if i%stride != 0 {
			continue
		}
		ensurePending(bA)
		ensurePending(bB)
		identity := map[string]string{"absent": "", "wrong": "stranger@example.com", "right": bA.BackendUser, "other-backends-agent": bB.BackendUser, "end-user": bA.EndUser,
			"near-prefix":     []string{"s", "user", "service", "account:", "t"}[i%5] + bA.BackendUser,
			"near-iam-prefix": []string{"serviceAccount:", "user:"}[i%2] + bA.BackendUser,
			"near-case":       strings.ToUpper(bA.BackendUser[:1]) + bA.BackendUser[1:],
			"near-suffix":     bA.BackendUser + []string{".", "x", ".x"}[i%3], // (a trailing space would not survive the ticket header)
			"near-domain":     strings.Split(bA.BackendUser, "@")[0] + "@example.org",
			"near-subaddress": strings.Replace(bA.BackendUser, "@", "+x@", 1)}[c.Identity]
		named := map[string]string{"own": bA.ID, "other": bB.ID, "unknown": "no-such-backend", "missing": ""}[c.Backend]
		rid := map[string]string{"own": pend[bA.ID], "other": pend[bB.ID], "unknown": "no-such-request", "none": ""}[c.Rid]
		// relation of the request ID to the NAMED backend
		ridKind := "unknown"
		switch {
		case rid == "":
			ridKind = "none"
		case named != "" && rid == pend[named]:
			ridKind = "own"
		case rid == pend[bA.ID] || rid == pend[bB.ID]:
			ridKind = "other"
		}
		// the backend-ID header as one line, and - where the caller owns another backend than the one it names -
		// with that backend's ID on a second line: the backend a call names is the one on the first line
		forms := []string{""}
		ownID := map[string]string{bA.BackendUser: bA.ID, bB.BackendUser: bB.ID}[identity]
		if ownID != "" && named != "" && named != ownID {
			forms = append(forms, ":own-backend-on-second-line")
		}
		for _, form := range forms {
			hdrNamed := named
			if form != "" {
				hdrNamed = named + "\n" + ownID
				ensurePending(bA)
				ensurePending(bB)
			}
			before := e.ae.Snapshot()
			ncalls := e.ae.NCalls()
			var st int
			var body []byte
			switch c.Endpoint {
			case "pending":
				st, body, _, _ = e.do(e.agPort, "GET", "/agent/pending", agentHdr(identity, hdrNamed, ""), nil, 40*time.Second)
			case "request":
				st, body, _, _ = e.do(e.agPort, "GET", "/agent/request", agentHdr(identity, hdrNamed, rid), nil, 0)
			default:
				st, body, _, _ = e.do(e.agPort, "POST", "/agent/response", agentHdr(identity, hdrNamed, rid), []byte("HTTP/1.1 200 OK\r\nContent-Length: 2\r\n\r\nok"), 0)
			}
			after := e.ae.Snapshot()
			leaked := false
			for r, s := range secret {
				// (echoing the request ID the caller itself supplied reveals nothing)
				if bytes.Contains(body, []byte(s)) || (r != rid && bytes.Contains(body, []byte(r))) {
					// an authorised caller may see its own backend's data; anything else is a leak
					if !(st == 200 && named != "" && (r == pend[named])) {
						leaked = true
					}
				}
			}
			ownOnly := true
			for _, call := range e.ae.CallsSince(ncalls) {
				for _, k := range call.Kinds {
					if strings.HasPrefix(k, "req:") && k != fmt.Sprintf("req:%q", named) {
						ownOnly = false
					}
				}
			}
			if c.Endpoint == "pending" && st == 200 {
				var ids []string
				json.Unmarshal(body, &ids)
				for _, id := range ids {
					if named == "" || id != pend[named] {
						ownOnly = false
					}
				}
			}
			call := map[string]interface{}{"endpoint": c.Endpoint, "oauth": identity, "backend": named, "rid": ridKind}
			obs := map[string]interface{}{"status": st, "leaked": leaked, "changed": before != after, "own_only": ownOnly}
			sig := fmt.Sprintf("auth:%s/%s/%s/%s", c.Endpoint, c.Identity, c.Backend, c.Rid) + form + tag
			hx.Emit("AgentCall", "case", fmt.Sprint(i)+form+tag, "sig", sig, "call", call, "obs", obs)
			res.Case(sig, map[string]interface{}{"classes": c, "status": st})
		}
	}
		return true
	}
	if !authPass("backend-a", "backend-b", "", 1) {
		return
	}
	// boundary: IDs far longer than usual that differ in their very last byte only (anything that shortens or hashes
	// an ID - a key of bounded length, a prefix comparison - would take the two for one)
	long := "team-" + strings.Repeat("0123456789abcdef", 15) + "-backend-"
	if !authPass(long+"a", long+"b", ":long-ids", 3) {
		return
	}
	// registrations that change over time (histories enumerated by TLC from AppAuth.tla): every agent call is
	// judged against the registration in force when it is made
	for i, h := range cases.Histories {
		// backend IDs are arbitrary names: plain, with a slash, a space, a percent sign, non-ASCII
		id := []string{"hist-%d", "team/hist-%d", "hist %d", "hist%%2F-%d", "hïst-%d", "a/b/hist-%d"}[i%6]
		id = fmt.Sprintf(id, i)
		users := map[string]string{"1": "hist-agent-1@example.com", "2": "hist-agent-2@example.com"}
		announce := func(user string) {
			list := []appBackend{}
			if user != "" {
				list = append(list, appBackend{ID: id, EndUser: "hist-user@example.com", BackendUser: user, Prefixes: []string{"/" + id}, live: true})
			}
			hx.Emit("Backends", "list", backendsEvent(list))
		}
		announce("")
		for k, op := range h {
			switch {
			case strings.HasPrefix(op, "reg"):
				u := users[strings.TrimPrefix(op, "reg")]
				if st := e.addBackend(appBackend{ID: id, EndUser: "hist-user@example.com", BackendUser: u, Prefixes: []string{"/" + id}}); st != 200 {
					res.Bad("history %d: cannot register backend: %d", i, st)
				}
				announce(u)
			case op == "del":
				e.deleteBackend(id)
				announce("")
			default:
				u := users[strings.TrimPrefix(op, "call")]
				before := e.ae.Snapshot()
				ncalls := e.ae.NCalls()
				endpoint := []string{"request", "response"}[(i+k)%2]
				var st int
				var body []byte
				if endpoint == "request" {
					st, body, _, _ = e.do(e.agPort, "GET", "/agent/request", agentHdr(u, id, "no-such-request"), nil, 0)
				} else {
					st, body, _, _ = e.do(e.agPort, "POST", "/agent/response", agentHdr(u, id, "no-such-request"), []byte("HTTP/1.1 200 OK\r\nContent-Length: 2\r\n\r\nok"), 0)
				}
				after := e.ae.Snapshot()
				leaked := false
				for r, sec := range secret {
					if bytes.Contains(body, []byte(sec)) || bytes.Contains(body, []byte(r)) {
						leaked = true
					}
				}
				ownOnly := true
				for _, call := range e.ae.CallsSince(ncalls) {
					for _, kd := range call.Kinds {
						if strings.HasPrefix(kd, "req:") && kd != fmt.Sprintf("req:%q", id) {
							ownOnly = false
						}
					}
				}
				call := map[string]interface{}{"endpoint": endpoint, "oauth": u, "backend": id, "rid": "unknown"}
				obs := map[string]interface{}{"status": st, "leaked": leaked, "changed": before != after, "own_only": ownOnly}
				sig := fmt.Sprintf("authhist:%s@%d", strings.Join(h, ","), k+1)
				hx.Emit("AgentCall", "case", fmt.Sprintf("h%d-%d", i, k), "sig", sig, "call", call, "obs", obs)
			}
		}
		e.deleteBackend(id)
		res.Case("authhist:"+strings.Join(h, ","), map[string]interface{}{"history": h})
	}
	// admin API: every call with every kind of caller
	type adm struct {
		name    string
		hdr     map[string]string
		isAdmin bool
	}
	callers := []adm{
		{"anonymous", map[string]string{}, false},
		{"user", map[string]string{"X-AppEngine-User-Email": "alice@example.com"}, false},
		{"user-admin-flag-0", map[string]string{"X-AppEngine-User-Email": "alice@example.com", "X-AppEngine-User-Is-Admin": "0"}, false},
		{"admin", adminHdr, true},
		{"oauth-nonadmin", map[string]string{"X-AppEngine-API-Ticket": "oauth=agent-a@example.com"}, false},
		{"oauth-admin", map[string]string{"X-AppEngine-API-Ticket": "oauth=root@example.com;admin"}, true},
	}
	for _, c := range callers {
		for _, op := range []string{"list", "add", "delete"} {
			var st int
			switch op {
			case "list":
				st, _, _, _ = e.do(e.apiPort, "GET", "/api/backends", c.hdr, nil, 0)
			case "add":
				b, _ := json.Marshal(appBackend{ID: "tmp-" + c.name, EndUser: "x@example.com", BackendUser: "y@example.com", Prefixes: []string{"/tmp"}})
				st, _, _, _ = e.do(e.apiPort, "POST", "/api/backends", c.hdr, b, 0)
			default:
				st, _, _, _ = e.do(e.apiPort, "DELETE", "/api/backends/tmp-"+c.name, c.hdr, nil, 0)
			}
			hx.Emit("AdminCall", "sig", "admin:"+c.name+"/"+op, "caller", c.name, "op", op, "is_admin", c.isAdmin, "status", st)
			res.Case("admin:"+c.name+"/"+op, map[string]interface{}{"caller": c.name, "op": op, "status": st})
		}
	}
	// a non-admin must not have created anything
	for _, k := range e.ae.Entities("backend") {
		if strings.Contains(k, "tmp-") && !strings.Contains(k, "tmp-admin") && !strings.Contains(k, "tmp-oauth-admin") {
			hx.Emit("AdminCall", "sig", "admin:side-effect", "caller", "non-admin", "op", "add", "is_admin", false, "status", 200)
		}
	}
}

// ---------------------------------------------------------------------------------------------
// C18
// ---------------------------------------------------------------------------------------------

func appRouteDriver(a *Args) {
	res := a.Res
	cases := loadAppCases(a)
	if cases == nil {
		return
	}
	e := startAppEnv(res)
	if e == nil {
		return
	}
	defer e.stop()
	rng := hx.Rand("approute")
	userMail := func(u string) string {
		if u == "allUsers" {
			return u
		}
		return u + "@example.com"
	}
	hx.Reset("approute", "approute")
	for n := 0; n < cases.N; n++ {
		nb := 1 + rng.Intn(3)
		var bs []appBackend
		for k := 0; k < nb; k++ {
			np := 1 + rng.Intn(2)
			var pf []string
			for j := 0; j < np; j++ {
				pf = append(pf, cases.Prefixes[rng.Intn(len(cases.Prefixes))])
			}
			b := appBackend{ID: fmt.Sprintf("r%d-b%d", n, k), EndUser: userMail(cases.EndUsers[rng.Intn(len(cases.EndUsers))]),
				BackendUser: "agent@example.com", Prefixes: pf}
			// the API refuses an empty prefix list but accepts an empty prefix string
			bs = append(bs, b)
		}
		now := time.Now()
		var live []string
		for i := range bs {
			if st := e.addBackend(bs[i]); st != 200 {
				res.Bad("add backend failed: %d", st)
				return
			}
			lv := cases.Liveness[rng.Intn(len(cases.Liveness))]
			var t time.Time
			switch lv {
			case "never":
				t = now.Add(-time.Hour)
			case "stale":
				t = now.Add(-6 * time.Minute)
			case "borderline-stale":
				t = now.Add(-5*time.Minute - 2*time.Second)
			case "borderline-fresh":
				t = now.Add(-5*time.Minute + 30*time.Second)
			default:
				t = now.Add(-10 * time.Second)
			}
			e.setLastSeen(bs[i].ID, t)
			bs[i].live = lv == "borderline-fresh" || lv == "fresh"
			live = append(live, lv)
		}
		hx.Emit("Backends", "list", backendsEvent(bs))
		for q := 0; q < 3; q++ {
			user := userMail([]string{"u1", "u2"}[rng.Intn(2)])
			path := cases.Paths[rng.Intn(len(cases.Paths))]
			// the request target in its usual form, in absolute-form and with percent-encoded letters: the same path
			form := []string{"origin-form", "absolute-form", "pct-letters"}[(n+q)%3]
			route := func() string {
				rid, ch := e.clientRequestForm(user, path, form, 700*time.Millisecond)
				got := e.storedUnder(rid, 600*time.Millisecond)
				if got == "" {
					select {
					case r := <-ch:
						if r.status == 404 {
							return "404"
						}
						return fmt.Sprintf("status-%d-%v", r.status, r.err != nil)
					case <-time.After(2 * time.Second):
						return "no-answer"
					}
				}
				return got
			}
			got := route()
			again := route()
			sig := fmt.Sprintf("route:%d-backends/%s", nb, path)
			if form != "origin-form" {
				sig += ":" + form
			}
			hx.Emit("RouteCase", "sig", sig, "user", user, "path", chars(path), "got", got, "repeat", again, "liveness", live)
			res.Case(fmt.Sprintf("route:%v|%s|%s", backendsEvent(bs), user, path), map[string]interface{}{"backends": bs, "liveness": live, "user": user, "path": path, "routed_to": got})
		}
		for _, b := range bs {
			e.deleteBackend(b.ID)
		}
	}
}

// ---------------------------------------------------------------------------------------------
// C19
// ---------------------------------------------------------------------------------------------

func parseStoredRequest(b []byte) (method, target string, body []byte, ok bool) {
	req, err := http.ReadRequest(bufio.NewReader(bytes.NewReader(b)))
	if err != nil {
		return "", "", nil, false
	}
	body, err = io.ReadAll(req.Body)
	return req.Method, req.URL.RequestURI(), body, err == nil
}

func appRelayDriver(a *Args) {
	res := a.Res
	cases := loadAppCases(a)
	if cases == nil {
		return
	}
	e := startAppEnv(res)
	if e == nil {
		return
	}
	defer e.stop()
	rng := hx.Rand("apprelay")
	b1 := appBackend{ID: "relay-1", EndUser: "carol@example.com", BackendUser: "agent-1@example.com", Prefixes: []string{"/"}, live: true}
	if st := e.addBackend(b1); st != 200 {
		res.Bad("add backend: %d", st)
		return
	}
	e.setLastSeen(b1.ID, time.Now())
	hx.Reset("apprelay", "apprelay")
	agent := func(rid string) map[string]string { return agentHdr(b1.BackendUser, b1.ID, rid) }
	listPending := func() []string {
		st, body, _, _ := e.do(e.agPort, "GET", "/agent/pending", agent(""), nil, 40*time.Second)
		var ids []string
		if st == 200 {
			json.Unmarshal(body, &ids)
		}
		return ids
	}
	contains := func(ids []string, x string) bool {
		for _, i := range ids {
			if i == x {
				return true
			}
		}
		return false
	}
	// relay one request with a request body of reqSize and a response body of respSize
	relay := func(reqSize, respSize int, sig string) (fetchedLen int) {
		e.setLastSeen(b1.ID, time.Now())
		body := pattern(fmt.Sprintf("req-%d-%d", reqSize, rng.Int()), reqSize)
		path := "/relay/" + randToken(rng, 8) + "?size=" + fmt.Sprint(reqSize)
		rid, ch := e.clientRequest(b1.EndUser, "POST", path, body, 50*time.Second)
		if e.storedUnder(rid, 20*time.Second) != b1.ID {
			hx.Emit("RelayCase", "sig", sig, "hung", true, "fetch_same", false, "resp_same", false, "client_status", 0, "expect_status", 200, "relisted", false)
			return 0
		}
		ids := listPending()
		listed := contains(ids, rid)
		st, fetched, _, _ := e.do(e.agPort, "GET", "/agent/request", agent(rid), nil, 0)
		m, target, fb, ok := parseStoredRequest(fetched)
		fetchSame := listed && st == 200 && ok && m == "POST" && target == path && bytes.Equal(fb, body)
		respBody := pattern(fmt.Sprintf("resp-%s", rid), respSize)
		var raw bytes.Buffer
		// "exactly the response posted": status, body and the header fields, repeated ones included
		fmt.Fprintf(&raw, "HTTP/1.1 200 OK\r\nContent-Length: %d\r\nX-Relay: %s\r\nCache-Control: no-store\r\nSet-Cookie: a=1; Path=/\r\nSet-Cookie: b=%s\r\n"+
			"Link: </a>; rel=preload\r\nLink: </b>; rel=prefetch\r\nX-Empty:\r\n\r\n", len(respBody), rid, rid)
		raw.Write(respBody)
		pst, _, _, _ := e.do(e.agPort, "POST", "/agent/response", agent(rid), raw.Bytes(), 0)
		var cr clientResult
		hung := false
		select {
		case cr = <-ch:
		case <-time.After(45 * time.Second):
			hung = true
		}
		respSame := pst == 200 && cr.status == 200 && bytes.Equal(cr.body, respBody) && cr.hdr != nil && cr.hdr.Get("X-Relay") == rid &&
			reflect.DeepEqual(cr.hdr.Values("Set-Cookie"), []string{"a=1; Path=/", "b=" + rid}) &&
			reflect.DeepEqual(cr.hdr.Values("Link"), []string{"</a>; rel=preload", "</b>; rel=prefetch"}) && cr.hdr.Get("Cache-Control") == "no-store"
		// a completed request is no longer listed (another pending request makes the list call return at once)
		rid2, ch2 := e.clientRequest(b1.EndUser, "GET", "/relay/filler-"+randToken(rng, 6), nil, 3*time.Second)
		e.storedUnder(rid2, 5*time.Second)
		relisted := contains(listPending(), rid)
		go func() { <-ch2 }()
		hx.Emit("RelayCase", "sig", sig, "hung", hung, "fetch_same", fetchSame, "resp_same", respSame, "client_status", cr.status, "expect_status", 200,
			"relisted", relisted, "req_len", len(fetched), "resp_len", raw.Len())
		// blob parts as stored
		parts := 0
		for _, k := range e.ae.Entities("blobParts") {
			if strings.HasPrefix(k, "blobParts|"+rid+".request.part") {
				parts++
			}
		}
		hx.Emit("BlobCase", "sig", sig+":request-blob", "n", len(fetched), "parts", parts, "same", fetchSame)
		rparts := 0
		for _, k := range e.ae.Entities("blobParts") {
			if strings.HasPrefix(k, "blobParts|"+rid+".response.part") {
				rparts++
			}
		}
		hx.Emit("BlobCase", "sig", sig+":response-blob", "n", raw.Len(), "parts", rparts, "same", respSame)
		return len(fetched)
	}
	// calibrate the serialised request length, then hit the size boundaries exactly
	base := relay(1000, 10, "relay:calibration")
	overhead := base - 1000
	for _, target := range cases.Sizes {
		reqBody := target - overhead
		if reqBody < 0 {
			reqBody = 0
		}
		// Content-Length digits change the overhead: correct once
		sig := fmt.Sprintf("relay:req=%d", target)
		got := relay(reqBody, 100, sig)
		if got != target && target > overhead {
			relay(reqBody+(target-got), 100, sig+"/corrected")
		}
		res.Case(sig, map[string]interface{}{"serialised_request_bytes": target})
	}
	for _, target := range cases.Sizes {
		if target < 200 {
			continue
		}
		respBody := target - 110
		relay(50, respBody, fmt.Sprintf("relay:resp~%d", target))
		res.Case(fmt.Sprintf("relay:resp~%d", target), map[string]interface{}{"serialised_response_bytes_about": target})
	}
	// two requests in flight, answered in the opposite order
	{
		e.setLastSeen(b1.ID, time.Now())
		r1, c1 := e.clientRequest(b1.EndUser, "GET", "/relay/first", nil, 40*time.Second)
		r2, c2 := e.clientRequest(b1.EndUser, "GET", "/relay/second", nil, 40*time.Second)
		e.storedUnder(r1, 10*time.Second)
		e.storedUnder(r2, 10*time.Second)
		post := func(rid, text string) {
			e.do(e.agPort, "POST", "/agent/response", agent(rid), []byte(fmt.Sprintf("HTTP/1.1 200 OK\r\nContent-Length: %d\r\nCache-Control: no-store\r\n\r\n%s", len(text), text)), 0)
		}
		post(r2, "answer-for-second")
		post(r1, "answer-for-first")
		a1, a2 := <-c1, <-c2
		ok := a1.status == 200 && string(a1.body) == "answer-for-first" && a2.status == 200 && string(a2.body) == "answer-for-second"
		hx.Emit("RelayCase", "sig", "relay:two-in-flight", "hung", false, "fetch_same", true, "resp_same", ok, "client_status", a1.status, "expect_status", 200, "relisted", false)
		res.Case("relay:two-in-flight", map[string]interface{}{"ok": ok})
	}
	// failing store writes during the response call
	for _, fs := range cases.FailSets {
		e.setLastSeen(b1.ID, time.Now())
		rid, ch := e.clientRequest(b1.EndUser, "GET", "/relay/fault-"+randToken(rng, 6), nil, 4*time.Second)
		e.storedUnder(rid, 10*time.Second)
		failResp, failReq := false, false
		for _, f := range fs {
			if f == "response" {
				failResp = true
			}
			if f == "request" {
				failReq = true
			}
		}
		var armed int32 = 1
		e.ae.Fail = func(service, method string, kinds []string) bool {
			if atomic.LoadInt32(&armed) == 0 || service != "datastore_v3" || method != "Put" {
				return false
			}
			for _, k := range kinds {
				if (failResp && k == "response") || (failReq && strings.HasPrefix(k, "req:")) {
					return true
				}
			}
			return false
		}
		done := make(chan int, 1)
		go func() {
			st, _, _, _ := e.do(e.agPort, "POST", "/agent/response", agent(rid), []byte("HTTP/1.1 200 OK\r\nContent-Length: 2\r\nCache-Control: no-store\r\n\r\nok"), 20*time.Second)
			done <- st
		}()
		st, hung := 0, false
		select {
		case st = <-done:
		case <-time.After(8 * time.Second):
			hung = true
		}
		atomic.StoreInt32(&armed, 0)
		e.ae.Fail = nil
		go func() { <-ch }()
		sig := fmt.Sprintf("fault:%v", fs)
		hx.Emit("FaultCase", "sig", sig, "failed_writes", len(fs), "status", st, "hung", hung)
		res.Case(sig, map[string]interface{}{"failing_writes": fs, "status": st, "hung": hung})
		if hung {
			// the wedged handler keeps its goroutines; give the service a moment and carry on
			time.Sleep(100 * time.Millisecond)
		}
	}
	// a blob write that fails in ONE of its parts while a sibling part completes later (and successfully):
	// the call must not be reported as a success, and nothing half-written may ever be handed to the client
	for _, which := range []string{"response", "request"} {
		e.setLastSeen(b1.ID, time.Now())
		big := pattern("partial-"+which, 2500000)
		var rid string
		var ch chan clientResult
		if which == "request" {
			rid, ch = e.clientRequest(b1.EndUser, "POST", "/relay/partial-"+randToken(rng, 6), big, 6*time.Second)
		} else {
			rid, ch = e.clientRequest(b1.EndUser, "GET", "/relay/partial-"+randToken(rng, 6), nil, 6*time.Second)
		}
		var armed int32 = 1
		e.ae.PutHook = func(keys []string) (bool, time.Duration) {
			if atomic.LoadInt32(&armed) == 0 {
				return false, 0
			}
			for _, k := range keys {
				if strings.HasPrefix(k, "blobParts|"+rid+"."+which+".part") {
					if strings.HasSuffix(k, ".part0") {
						return true, 0 // the first part fails at once
					}
					return false, 60 * time.Millisecond // its siblings succeed, later
				}
			}
			return false, 0
		}
		st, hung := 0, false
		var cr clientResult
		if which == "response" {
			e.storedUnder(rid, 10*time.Second)
			done := make(chan int, 1)
			go func() {
				raw := append([]byte(fmt.Sprintf("HTTP/1.1 200 OK\r\nContent-Length: %d\r\nCache-Control: no-store\r\n\r\n", len(big))), big...)
				s, _, _, _ := e.do(e.agPort, "POST", "/agent/response", agent(rid), raw, 20*time.Second)
				done <- s
			}()
			select {
			case st = <-done:
			case <-time.After(10 * time.Second):
				hung = true
			}
		}
		select {
		case cr = <-ch:
		case <-time.After(8 * time.Second):
		}
		atomic.StoreInt32(&armed, 0)
		e.ae.PutHook = nil
		if which == "request" {
			// the client's own store failed: it must be told (not 200), and no agent may be handed the request
			st = cr.status
			ids := listPending()
			if contains(ids, rid) {
				st = 200 // a request that could not be stored completely is listed: treated like a reported success
			}
		} else if cr.status == 200 && !bytes.Equal(cr.body, big) {
			st = 200 // the client was handed bytes nobody posted: the worst kind of "success"
		}
		sig := "fault:partial-" + which + "-part"
		hx.Emit("FaultCase", "sig", sig, "failed_writes", 1, "status", st, "hung", hung)
		res.Case(sig, map[string]interface{}{"failing_part_of": which, "status": st, "hung": hung})
	}
	// a datastore outage for blob parts that lasts for a dozen large responses (every part write of every one of
	// them fails), and then ends: each of those calls is answered with a failure, and once the store is back a
	// large exchange works again - nothing that was given up on during the outage is still held
	{
		post := func(tag string) (st int, hung bool, same bool) {
			e.setLastSeen(b1.ID, time.Now())
			big := pattern("outage-"+tag, 2500000)
			rid, ch := e.clientRequest(b1.EndUser, "GET", "/relay/outage-"+tag+"-"+randToken(rng, 6), nil, 8*time.Second)
			e.storedUnder(rid, 10*time.Second)
			done := make(chan int, 1)
			go func() {
				raw := append([]byte(fmt.Sprintf("HTTP/1.1 200 OK\r\nContent-Length: %d\r\nCache-Control: no-store\r\n\r\n", len(big))), big...)
				s, _, _, _ := e.do(e.agPort, "POST", "/agent/response", agent(rid), raw, 20*time.Second)
				done <- s
			}()
			select {
			case st = <-done:
			case <-time.After(10 * time.Second):
				hung = true
			}
			if st == 200 {
				select {
				case cr := <-ch:
					same = cr.status == 200 && bytes.Equal(cr.body, big)
				case <-time.After(9 * time.Second):
				}
			}
			return st, hung, same
		}
		failing := 12
		if hx.Thorough() {
			failing = 120
		}
		e.ae.PutHook = func(keys []string) (bool, time.Duration) {
			for _, k := range keys {
				if strings.HasPrefix(k, "blobParts|") {
					return true, 0
				}
			}
			return false, 0
		}
		worst, anyHung := 0, false
		for i := 0; i < failing && !anyHung; i++ {
			st, hung, _ := post(fmt.Sprintf("down%d", i))
			if st == 200 {
				worst = 200
			} else if worst == 0 {
				worst = st
			}
			anyHung = anyHung || hung
		}
		e.ae.PutHook = nil
		hx.Emit("FaultCase", "sig", "fault:outage-of-part-writes", "failed_writes", 3*failing, "status", worst, "hung", anyHung)
		st, hung, same := post("up")
		if st == 200 && !same {
			st = 599 // answered with a success, but the client did not get the posted bytes
		}
		hx.Emit("FaultCase", "sig", "fault:after-outage", "failed_writes", 0, "status", st, "hung", hung)
		res.Case("fault:outage-then-recovery", map[string]interface{}{"responses_failed_during_outage": failing, "status_after": st, "hung_after": hung})
	}
	_ = sync.Mutex{}
	_ = rand.Int
}

// ---------------------------------------------------------------------------------------------
// C19 under concurrency: several clients and agent calls at once, store operations logged by the fake
// App Engine API at their linearisation points (AppRelayTrace)
// ---------------------------------------------------------------------------------------------

func init() {
	Drivers["apprelayc"] = appRelayConcurrentDriver
	Drivers["appcron"] = appCronDriver
}

// appCronDriver replays the retention step of AppRelay (action Cron) on the real app: exchanges of
// every class {fresh, older than two minutes} x {backend seen recently, quiet for two hours} x
// {pending, completed} x {small, blob-sized} are created, the chosen ones are aged by rewriting the
// StartTime of their entities in the fake datastore, /cron/delete runs, and what survived is recorded.
// A client that is still waiting while the cron handler runs must get its answer.
func appCronDriver(a *Args) {
	res := a.Res
	e := startAppEnv(res)
	if e == nil {
		return
	}
	defer e.stop()
	hx.Reset("appcron", "appcron")
	bs := map[bool]appBackend{
		true:  {ID: "cron-seen", EndUser: "frank@example.com", BackendUser: "agent-k1@example.com", Prefixes: []string{"/"}, live: true},
		false: {ID: "cron-quiet", EndUser: "grace@example.com", BackendUser: "agent-k2@example.com", Prefixes: []string{"/"}, live: true},
	}
	for _, b := range bs {
		if st := e.addBackend(b); st != 200 {
			res.Bad("add backend: %d", st)
			return
		}
		e.setLastSeen(b.ID, time.Now())
	}
	type exch struct {
		old, seen, completed, big bool
		rid                       string
	}
	var all []exch
	for _, old := range []bool{false, true} {
		for _, seen := range []bool{true, false} {
			for _, completed := range []bool{false, true} {
				for _, big := range []bool{false, true} {
					b := bs[seen]
					size := 300
					if big {
						size = 1200000
					}
					rid, ch := e.clientRequest(b.EndUser, "POST", "/cron/x", pattern("cron-req", size), 8*time.Second)
					if e.storedUnder(rid, 5*time.Second) != b.ID {
						res.Bad("cron: request not stored under %s", b.ID)
						return
					}
					if completed {
						_, fetched, _, _ := e.do(e.agPort, "GET", "/agent/request", agentHdr(b.BackendUser, b.ID, rid), nil, 0)
						_ = fetched
						body := pattern("cron-resp-"+rid, size)
						e.do(e.agPort, "POST", "/agent/response", agentHdr(b.BackendUser, b.ID, rid),
							append([]byte(fmt.Sprintf("HTTP/1.1 200 OK\r\nContent-Length: %d\r\n\r\n", len(body))), body...), 0)
						select {
						case <-ch:
						case <-time.After(10 * time.Second):
						}
					} else {
						go func() { <-ch }() // the client gives up after its own timeout
					}
					all = append(all, exch{old, seen, completed, big, rid})
				}
			}
		}
	}
	ents := func(rid string) (req, resp, parts int) {
		for _, k := range e.ae.Entities("") {
			switch {
			case strings.HasPrefix(k, "req:") && strings.HasSuffix(k, "|"+rid):
				req++
			case k == "response|"+rid:
				resp++
			case strings.HasPrefix(k, "blobParts|"+rid+"."):
				parts++
			}
		}
		return
	}
	mine := func(k, rid string) bool {
		return (strings.HasPrefix(k, "req:") && strings.HasSuffix(k, "|"+rid)) || k == "response|"+rid || strings.HasPrefix(k, "blobParts|"+rid+".")
	}
	type had struct{ req, resp, parts int }
	before := map[string]had{}
	aged := time.Now().Add(-3*time.Minute).UnixNano() / 1000
	for _, x := range all {
		r, p, q := ents(x.rid)
		before[x.rid] = had{r, p, q}
		if x.old {
			for _, k := range e.ae.Entities("") {
				if mine(k, x.rid) {
					e.ae.SetInt64Prop(k, "StartTime", aged)
				}
			}
		}
	}
	e.setLastSeen(bs[false].ID, time.Now().Add(-2*time.Hour))
	// a live exchange across the cron run: the client is waiting while the handler deletes
	liveB := bs[true]
	lrid, lch := e.clientRequest(liveB.EndUser, "GET", "/cron/live", nil, 20*time.Second)
	e.storedUnder(lrid, 5*time.Second)
	st, _, _, _ := e.do(e.apiPort, "GET", "/cron/delete", map[string]string{"X-Appengine-Cron": "true"}, nil, 30*time.Second)
	hx.Emit("CronRun", "status", st)
	e.do(e.agPort, "GET", "/agent/request", agentHdr(liveB.BackendUser, liveB.ID, lrid), nil, 0)
	e.do(e.agPort, "POST", "/agent/response", agentHdr(liveB.BackendUser, liveB.ID, lrid), []byte("HTTP/1.1 200 OK\r\nContent-Length: 9\r\n\r\nlive-answ"), 0)
	liveOK := false
	select {
	case r := <-lch:
		liveOK = r.status == 200 && string(r.body) == "live-answ"
	case <-time.After(25 * time.Second):
	}
	hx.Emit("CronLive", "ok", liveOK)
	for _, x := range all {
		r, p, q := ents(x.rid)
		h := before[x.rid]
		sig := fmt.Sprintf("cron:old=%v/seen=%v/completed=%v/big=%v", x.old, x.seen, x.completed, x.big)
		hx.Emit("CronCase", "sig", sig, "old", x.old, "seen", x.seen, "completed", x.completed, "big", x.big,
			"had_req", h.req > 0, "had_resp", h.resp > 0, "had_parts", h.parts > 0,
			"req_survives", r > 0, "resp_survives", p > 0, "parts_survive", q > 0)
		res.Case(sig, map[string]interface{}{"old": x.old, "backend_seen": x.seen, "completed": x.completed, "blob": x.big, "request_entity_survives": r > 0})
	}
}

func appRelayConcurrentDriver(a *Args) {
	res := a.Res
	e := startAppEnv(res)
	if e == nil {
		return
	}
	defer e.stop()
	rng := hx.Rand("apprelayc")
	bs := []appBackend{
		{ID: "cc-1", EndUser: "dave@example.com", BackendUser: "agent-c1@example.com", Prefixes: []string{"/"}, live: true},
		{ID: "cc-2", EndUser: "erin@example.com", BackendUser: "agent-c2@example.com", Prefixes: []string{"/"}, live: true},
	}
	for _, b := range bs {
		if st := e.addBackend(b); st != 200 {
			res.Bad("add backend: %d", st)
			return
		}
	}
	rounds, perRound := 4, 6
	if hx.Thorough() {
		rounds, perRound = 30, 10
	}
	for round := 0; round < rounds; round++ {
		for _, b := range bs {
			e.setLastSeen(b.ID, time.Now())
		}
		hx.Reset(fmt.Sprintf("apprelayc-%d", round), "apprelay-concurrent")
		e.ae.OnStore = func(op, kind, name string, completed bool, names []string) {
			switch {
			case op == "put" && strings.HasPrefix(kind, "req:"):
				hx.Emit("DsPutReq", "r", name, "b", strings.Trim(strings.TrimPrefix(kind, "req:"), "\""), "completed", completed)
			case op == "put" && kind == "response":
				hx.Emit("RespVisible", "r", name, "via", "datastore")
			case op == "mcset" && strings.HasPrefix(name, "resp:"):
				// key = resp:"backend":"rid"
				parts := strings.Split(name, "\"")
				if len(parts) >= 4 {
					hx.Emit("RespVisible", "r", parts[3], "via", "memcache")
				}
			case op == "query" && strings.HasPrefix(kind, "req:"):
				if names == nil {
					names = []string{}
				}
				hx.Emit("DsQueryPending", "b", strings.Trim(strings.TrimPrefix(kind, "req:"), "\""), "ids", names)
			}
		}
		type cl struct {
			rid string
			ch  chan clientResult
			b   appBackend
		}
		var clients []cl
		var wg sync.WaitGroup
		var mu sync.Mutex
		// clients
		for k := 0; k < perRound; k++ {
			b := bs[rng.Intn(len(bs))]
			size := []int{0, 10, 3000, 200000}[rng.Intn(4)]
			rid := fmt.Sprintf("rid-c%d-%d-%d", os.Getpid(), round, k)
			hx.Emit("Routed", "r", rid, "b", b.ID)
			hx.Emit("ClientSent", "r", rid)
			ch := make(chan clientResult, 1)
			go func(rid string, b appBackend, size int) {
				hdr := map[string]string{"X-Appengine-Request-Log-Id": rid, "X-AppEngine-User-Email": b.EndUser}
				st, body, _, err := e.do(e.defPort, "POST", "/cc/"+rid, hdr, pattern(rid, size), 50*time.Second)
				ch <- clientResult{st, body, err, nil}
			}(rid, b, size)
			mu.Lock()
			clients = append(clients, cl{rid, ch, b})
			mu.Unlock()
			if rng.Intn(3) == 0 {
				time.Sleep(time.Duration(rng.Intn(4)) * time.Millisecond)
			}
		}
		// one agent per backend: list, then fetch and respond to everything listed, concurrently
		done := map[string]bool{}
		var dmu sync.Mutex
		for _, b := range bs {
			wg.Add(1)
			go func(b appBackend) {
				defer wg.Done()
				deadline := time.Now().Add(40 * time.Second)
				for time.Now().Before(deadline) {
					mu.Lock()
					want := 0
					for _, c := range clients {
						if c.b.ID == b.ID {
							want++
						}
					}
					mu.Unlock()
					dmu.Lock()
					have := 0
					for k := range done {
						if strings.HasPrefix(k, b.ID+"|") {
							have++
						}
					}
					dmu.Unlock()
					if have >= want {
						return
					}
					st, body, _, _ := e.do(e.agPort, "GET", "/agent/pending", agentHdr(b.BackendUser, b.ID, ""), nil, 3*time.Second)
					var ids []string
					if st == 200 {
						json.Unmarshal(body, &ids)
					}
					var iw sync.WaitGroup
					for _, id := range ids {
						dmu.Lock()
						seen := done[b.ID+"|"+id]
						if !seen {
							done[b.ID+"|"+id] = true
						}
						dmu.Unlock()
						if seen {
							continue
						}
						iw.Add(1)
						go func(id string) {
							defer iw.Done()
							st, fetched, _, _ := e.do(e.agPort, "GET", "/agent/request", agentHdr(b.BackendUser, b.ID, id), nil, 0)
							m, target, fb, ok := parseStoredRequest(fetched)
							same := st == 200 && ok && m == "POST" && target == "/cc/"+id && bytes.Equal(fb, pattern(id, len(fb)))
							hx.Emit("AgentFetched", "b", b.ID, "r", id, "same", same)
							// the "backend" answers what it was sent: the token of the fetched request
							tok := strings.TrimPrefix(target, "/cc/")
							if d := rng.Intn(5); d > 0 {
								time.Sleep(time.Duration(d) * time.Millisecond)
							}
							hx.Emit("RespondBegin", "b", b.ID, "r", id)
							text := "answer-for-" + tok
							e.do(e.agPort, "POST", "/agent/response", agentHdr(b.BackendUser, b.ID, id),
								[]byte(fmt.Sprintf("HTTP/1.1 200 OK\r\nContent-Length: %d\r\nCache-Control: no-store\r\n\r\n%s", len(text), text)), 0)
							hx.Emit("RespondEnd", "b", b.ID, "r", id)
						}(id)
					}
					iw.Wait()
				}
			}(b)
		}
		// collect the clients' answers
		for _, c := range clients {
			select {
			case r := <-c.ch:
				tok := strings.TrimPrefix(string(r.body), "answer-for-")
				if r.status != 200 {
					tok = fmt.Sprintf("status-%d", r.status)
				}
				hx.Emit("ClientGot", "r", c.rid, "tok", tok, "status", r.status)
			case <-time.After(55 * time.Second):
				hx.Emit("ClientGot", "r", c.rid, "tok", "no-answer", "status", 0)
			}
		}
		wg.Wait()
		time.Sleep(20 * time.Millisecond)
		hx.Emit("RelayFinal")
		e.ae.OnStore = nil
		res.Case(fmt.Sprintf("concurrent:round%d", round), map[string]interface{}{"clients": perRound, "backends": len(bs)})
	}
	appRelayStress(e, res, bs)
}

// appRelayStress: many clients and overlapping agent calls without per-operation events; every client
// must receive the answer produced for its own request (responses of distinct, recognisable sizes).
func appRelayStress(e *appEnv, res *hx.Result, bs []appBackend) {
	nclients, each := 24, 4
	if hx.Thorough() {
		nclients, each = 48, 12
	}
	hx.Reset("apprelay-stress", "apprelay-stress")
	for _, b := range bs {
		e.setLastSeen(b.ID, time.Now())
	}
	var wrong, unanswered, total int64
	var example atomic.Value
	stop := make(chan struct{})
	var agents sync.WaitGroup
	for _, b := range bs {
		agents.Add(1)
		go func(b appBackend) {
			defer agents.Done()
			var dmu sync.Mutex
			done := map[string]bool{}
			for {
				select {
				case <-stop:
					return
				default:
				}
				st, body, _, _ := e.do(e.agPort, "GET", "/agent/pending", agentHdr(b.BackendUser, b.ID, ""), nil, 2*time.Second)
				var ids []string
				if st == 200 {
					json.Unmarshal(body, &ids)
				}
				for _, id := range ids {
					dmu.Lock()
					seen := done[id]
					done[id] = true
					dmu.Unlock()
					if seen {
						continue
					}
					go func(id string) {
						_, fetched, _, _ := e.do(e.agPort, "GET", "/agent/request", agentHdr(b.BackendUser, b.ID, id), nil, 0)
						_, target, _, _ := parseStoredRequest(fetched)
						tok := strings.TrimPrefix(target, "/ss/")
						text := append([]byte("answer-for-"+tok+"\n"), pattern(tok, 200+len(tok)*37%4000)...)
						e.do(e.agPort, "POST", "/agent/response", agentHdr(b.BackendUser, b.ID, id),
							append([]byte(fmt.Sprintf("HTTP/1.1 200 OK\r\nContent-Length: %d\r\nCache-Control: no-store\r\n\r\n", len(text))), text...), 0)
					}(id)
				}
			}
		}(b)
	}
	var cw sync.WaitGroup
	for c := 0; c < nclients; c++ {
		cw.Add(1)
		go func(c int) {
			defer cw.Done()
			b := bs[c%len(bs)]
			for i := 0; i < each; i++ {
				rid := fmt.Sprintf("rid-s%d-%d-%d", os.Getpid(), c, i)
				hdr := map[string]string{"X-Appengine-Request-Log-Id": rid, "X-AppEngine-User-Email": b.EndUser}
				st, body, _, err := e.do(e.defPort, "POST", "/ss/"+rid, hdr, pattern(rid, 100), 45*time.Second)
				atomic.AddInt64(&total, 1)
				want := append([]byte("answer-for-"+rid+"\n"), pattern(rid, 200+len(rid)*37%4000)...)
				switch {
				case err != nil || st != 200:
					atomic.AddInt64(&unanswered, 1)
					example.Store(fmt.Sprintf("%s: status %d err %v", rid, st, err))
				case !bytes.Equal(body, want):
					atomic.AddInt64(&wrong, 1)
					example.Store(fmt.Sprintf("%s received %q", rid, headOf(body, 60)))
				}
			}
		}(c)
	}
	cw.Wait()
	close(stop)
	agents.Wait()
	ex, _ := example.Load().(string)
	hx.Emit("RelayStress", "requests", total, "wrong", wrong, "unanswered", unanswered, "example", ex)
	res.Case("stress", map[string]interface{}{"requests": total, "wrong": wrong, "unanswered": unanswered})
}

// ---------------------------------------------------------------------------------------------
// the response cache of the App Engine proxy (AppCache.tla): sequences of exchanges on one URL
// ---------------------------------------------------------------------------------------------

func init() { Drivers["appcache"] = appCacheDriver }

type cacheOp struct {
	M  string `json:"m"`
	U  string `json:"u"`
	CC bool   `json:"cc"`
	St int    `json:"st"` // status the backend answers with (206: the request carries a Range header)
}

func appCacheDriver(a *Args) {
	res := a.Res
	var cases struct {
		Sequences [][]cacheOp `json:"sequences"`
	}
	b, err := os.ReadFile(a.Cases)
	if err != nil || json.Unmarshal(b, &cases) != nil {
		res.Bad("cannot read cases %q: %v", a.Cases, err)
		return
	}
	e := startAppEnv(res)
	if e == nil {
		return
	}
	defer e.stop()
	users := map[string]string{"u1": "cache-u1@example.com", "u2": "cache-u2@example.com"}
	// a backend shared with everybody and a private one of user u1 for the same paths: u1 is routed to its own
	// backend, u2 to the shared one (both served by the same agent identity)
	bk := appBackend{ID: "cache-1", EndUser: "allUsers", BackendUser: "agent-c@example.com", Prefixes: []string{"/"}, live: true}
	bkPriv := appBackend{ID: "cache-u1", EndUser: users["u1"], BackendUser: "agent-c@example.com", Prefixes: []string{"/"}, live: true}
	for _, b := range []appBackend{bk, bkPriv} {
		if st := e.addBackend(b); st != 200 {
			res.Bad("add backend: %d", st)
			return
		}
	}
	for si, seq := range cases.Sequences {
		e.setLastSeen(bk.ID, time.Now())
		e.setLastSeen(bkPriv.ID, time.Now())
		url := fmt.Sprintf("/cache/doc-%d?v=%d", si, si%3)
		var shape []string
		for _, op := range seq {
			shape = append(shape, fmt.Sprintf("%s/%s/cc=%v/%d", op.M, op.U, op.CC, op.St))
		}
		sig := "cache:" + strings.Join(shape, ",")
		hx.Reset(fmt.Sprintf("appcache-%d", si), sig)
		bodies := map[int][]byte{}
		for k, op := range seq {
			own := si*10 + k + 1
			if op.M == "QUIET" {
				// the agents of both backends have not polled for six minutes
				e.setLastSeen(bk.ID, time.Now().Add(-6*time.Minute))
				e.setLastSeen(bkPriv.ID, time.Now().Add(-6*time.Minute))
				hx.Emit("CacheQuiet")
				continue
			}
			bodies[own] = []byte(fmt.Sprintf("answer-%d-to-%s", own, op.M))
			var reqBody []byte
			if op.M == "POST" {
				reqBody = []byte("posted")
			}
			var rid string
			var ch chan clientResult
			if op.St == 206 {
				rid, ch = e.clientRequestHdr(users[op.U], op.M, url, map[string]string{"Range": fmt.Sprintf("bytes=%d-%d", k, k+4)}, 10*time.Second)
			} else {
				rid, ch = e.clientRequest(users[op.U], op.M, url, reqBody, 10*time.Second)
			}
			// the harness is the agent: a request that is stored is answered with this exchange's own body
			storedAt := e.storedUnder(rid, 250*time.Millisecond)
			reached := storedAt != ""
			wantAt := map[string]string{"u1": bkPriv.ID, "u2": bk.ID}[op.U]
			if reached && storedAt != wantAt {
				res.Note("sequence %s: the request of %s was stored under %s (expected %s)", sig, op.U, storedAt, wantAt)
			}
			if reached {
				cc := ""
				if op.CC {
					cc = "Cache-Control: private, max-age=60\r\n"
				}
				statusLine := "200 OK"
				if op.St == 206 {
					statusLine = "206 Partial Content"
					cc += fmt.Sprintf("Content-Range: bytes %d-%d/100\r\n", k, k+len(bodies[own])-1)
				}
				raw := fmt.Sprintf("HTTP/1.1 %s\r\nContent-Length: %d\r\nX-Own: %d\r\n%s\r\n%s", statusLine, len(bodies[own]), own, cc, bodies[own])
				e.do(e.agPort, "POST", "/agent/response", agentHdr(bk.BackendUser, storedAt, rid), []byte(raw), 10*time.Second)
			}
			var cr clientResult
			answered := false
			select {
			case cr = <-ch:
				answered = cr.err == nil
			case <-time.After(12 * time.Second):
			}
			got := 0
			if answered {
				// whose answer is it: by header (present for HEAD too) and, where there is a body, by the body
				fmt.Sscanf(cr.hdr.Get("X-Own"), "%d", &got)
				if op.M != "HEAD" && !bytes.Equal(cr.body, bodies[got]) {
					got = -1 // a body that belongs to no exchange of this sequence (or to another one than the header says)
				}
			}
			hx.Emit("CacheStep", "method", op.M, "user", op.U, "url", url, "cc", op.CC, "reached", reached, "own", own, "got", got,
				"status", cr.status, "answered", answered)
		}
		res.Case(sig, map[string]interface{}{"sequence": shape})
	}
}
