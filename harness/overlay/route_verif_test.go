package store

// Added virtually to package store by `go test -overlay` (nothing is written into the repository):
// drives the unexported mostSpecificMatchingBackend on random backend sets and records each case
// for TLC (AppProxyTrace, operator RouteAnswers).

import (
	"encoding/json"
	"math/rand"
	"os"
	"strconv"
	"testing"

	"github.com/google/inverting-proxy/app/types"
)

func TestVerifRouteFn(t *testing.T) {
	out := os.Getenv("VERIF_ROUTEFN_OUT")
	if out == "" {
		t.Skip("not run by the verification harness")
	}
	seed, _ := strconv.ParseInt(os.Getenv("VERIF_SEED"), 10, 64)
	n, _ := strconv.Atoi(os.Getenv("VERIF_ROUTEFN_N"))
	rng := rand.New(rand.NewSource(seed*7919 + 18))
	prefixes := []string{"", "/", "/a", "/a/", "/a/b", "/a/b/", "/ab", "/b", "/a/b/c"}
	paths := []string{"/", "/a", "/a/", "/a/b", "/a/b/c", "/a/b/c/d", "/ab", "/abc", "/b", "/c", ""}
	f, err := os.Create(out)
	if err != nil {
		t.Fatal(err)
	}
	defer f.Close()
	chars := func(s string) []string {
		o := []string{}
		for _, c := range s {
			o = append(o, string(c))
		}
		return o
	}
	enc := json.NewEncoder(f)
	for i := 0; i < n; i++ {
		nb := 1 + rng.Intn(4)
		var bs []*types.Backend
		var ev []map[string]interface{}
		for k := 0; k < nb; k++ {
			np := 1 + rng.Intn(3)
			var pf []string
			var pfc [][]string
			for j := 0; j < np; j++ {
				p := prefixes[rng.Intn(len(prefixes))]
				pf = append(pf, p)
				pfc = append(pfc, chars(p))
			}
			id := "b" + strconv.Itoa(k)
			bs = append(bs, &types.Backend{BackendID: id, EndUser: "u", PathPrefixes: pf})
			ev = append(ev, map[string]interface{}{"id": id, "endUser": "u", "backendUser": "a", "prefixes": pfc, "live": true})
		}
		path := paths[rng.Intn(len(paths))]
		got, err := mostSpecificMatchingBackend(path, bs)
		if err != nil {
			got = "404"
		}
		enc.Encode(map[string]interface{}{"ev": "RouteFn", "sig": "routefn", "backends": ev, "path": chars(path), "got": got})
	}
}
