package fakes

// A fake App Engine API server: it speaks the remote-API protocol the appengine/v2 SDK uses
// (POST /rpc_http with a remote_api.Request) and implements the slice of datastore_v3, memcache
// and user that the inverting-proxy App Engine app needs. The message types are obtained from the
// global protobuf registry (they are linked in through the public appengine/v2 packages).

import (
	"fmt"
	"io"
	"net"
	"net/http"
	"sort"
	"strings"
	"sync"
	"time"

	"google.golang.org/protobuf/proto"
	"google.golang.org/protobuf/reflect/protoreflect"
	"google.golang.org/protobuf/reflect/protoregistry"

	_ "google.golang.org/appengine/v2/datastore"
	_ "google.golang.org/appengine/v2/memcache"
	_ "google.golang.org/appengine/v2/user"
)

// APICall is one API call as the fake saw it.
type APICall struct {
	Service, Method string
	Ticket          string
	Kinds           []string // datastore kinds touched
	Keys            []string
	Failed          bool
}

type aeEntity struct {
	key   string // kind|name
	kind  string
	name  string
	raw   []byte // marshalled EntityProto
	props map[string]interface{}
}

// FakeAE is the fake API server.
type FakeAE struct {
	Ln  net.Listener
	Srv *http.Server

	mu       sync.Mutex
	entities map[string]*aeEntity
	memcache map[string][]byte
	Calls    []APICall
	txn      uint64
	// Fail decides whether an API call fails (injected fault); kinds are the datastore kinds touched.
	Fail func(service, method string, kinds []string) bool
	// PutHook, if set, is consulted for every datastore Put with the keys ("kind|name") it writes: it may
	// delay the call and decides whether it fails (faults on single blob parts, ordered completions).
	PutHook func(keys []string) (fail bool, delay time.Duration)
	// OAuth maps a ticket to (email, admin); "" email = no valid OAuth credentials.
	OAuth func(ticket string) (email string, admin bool)
	// OnStore, if set, is called (with the store's lock held, i.e. at the linearisation point) for
	// every state-changing or state-reading operation the relay model talks about:
	// op = "put" | "query" | "mcset"; kind/name identify the entity (or memcache key); completed is the
	// value of the Completed property for request entities; names are the results of a query.
	OnStore func(op, kind, name string, completed bool, names []string)
}

// NewFakeAE starts the fake API server.
func NewFakeAE() *FakeAE {
	f := &FakeAE{entities: map[string]*aeEntity{}, memcache: map[string][]byte{}}
	ln, err := net.Listen("tcp", "127.0.0.1:0")
	if err != nil {
		panic(err)
	}
	f.Ln = ln
	f.Srv = &http.Server{Handler: http.HandlerFunc(f.serve)}
	go f.Srv.Serve(ln)
	return f
}

// HostPort returns API_HOST and API_PORT.
func (f *FakeAE) HostPort() (string, string) {
	a := f.Ln.Addr().(*net.TCPAddr)
	return "127.0.0.1", fmt.Sprint(a.Port)
}

// Close stops the server.
func (f *FakeAE) Close() { f.Srv.Close() }

func newMsg(name string) proto.Message {
	mt, err := protoregistry.GlobalTypes.FindMessageByName(protoreflect.FullName(name))
	if err != nil {
		panic(fmt.Sprintf("message type %s not linked in: %v", name, err))
	}
	return mt.New().Interface()
}

func fld(m protoreflect.Message, name string) protoreflect.FieldDescriptor {
	fd := m.Descriptor().Fields().ByName(protoreflect.Name(name))
	if fd == nil {
		// groups are named by their lower-cased type name
		fd = m.Descriptor().Fields().ByName(protoreflect.Name(strings.ToLower(name)))
	}
	if fd == nil {
		panic(fmt.Sprintf("no field %s in %s", name, m.Descriptor().FullName()))
	}
	return fd
}

func getStr(m protoreflect.Message, name string) string { return m.Get(fld(m, name)).String() }
func has(m protoreflect.Message, name string) bool      { return m.Has(fld(m, name)) }
func getMsg(m protoreflect.Message, name string) protoreflect.Message {
	return m.Get(fld(m, name)).Message()
}
func getList(m protoreflect.Message, name string) protoreflect.List {
	return m.Get(fld(m, name)).List()
}

// keyOf flattens a Reference into kind, name (the app only uses single-element string keys).
func keyOf(ref protoreflect.Message) (kind, name string) {
	path := getMsg(ref, "path")
	els := getList(path, "element")
	if els.Len() == 0 {
		return "", ""
	}
	el := els.Get(els.Len() - 1).Message()
	kind = getStr(el, "type")
	if has(el, "name") {
		name = getStr(el, "name")
	} else {
		name = fmt.Sprint(el.Get(fld(el, "id")).Int())
	}
	return
}

func propValue(pv protoreflect.Message) interface{} {
	switch {
	case has(pv, "booleanValue"):
		return pv.Get(fld(pv, "booleanValue")).Bool()
	case has(pv, "int64Value"):
		return pv.Get(fld(pv, "int64Value")).Int()
	case has(pv, "stringValue"):
		return pv.Get(fld(pv, "stringValue")).String()
	case has(pv, "doubleValue"):
		return pv.Get(fld(pv, "doubleValue")).Float()
	}
	return nil
}

func parseEntity(ep protoreflect.Message) *aeEntity {
	kind, name := keyOf(getMsg(ep, "key"))
	e := &aeEntity{key: kind + "|" + name, kind: kind, name: name, props: map[string]interface{}{}}
	for _, list := range []string{"property", "raw_property"} {
		l := getList(ep, list)
		for i := 0; i < l.Len(); i++ {
			p := l.Get(i).Message()
			e.props[getStr(p, "name")] = propValue(getMsg(p, "value"))
		}
	}
	b, _ := proto.MarshalOptions{AllowPartial: true}.Marshal(ep.Interface())
	e.raw = b
	return e
}

func (f *FakeAE) serve(w http.ResponseWriter, r *http.Request) {
	body, _ := io.ReadAll(r.Body)
	req := newMsg("remote_api.Request")
	if err := (proto.UnmarshalOptions{AllowPartial: true}).Unmarshal(body, req); err != nil {
		http.Error(w, err.Error(), 400)
		return
	}
	rm := req.ProtoReflect()
	service, method := getStr(rm, "service_name"), getStr(rm, "method")
	ticket := getStr(rm, "request_id")
	payload := rm.Get(fld(rm, "request")).Bytes()
	resp := newMsg("remote_api.Response").ProtoReflect()
	out, kinds, keys, appErr := f.dispatch(service, method, ticket, payload)
	f.mu.Lock()
	f.Calls = append(f.Calls, APICall{Service: service, Method: method, Ticket: ticket, Kinds: kinds, Keys: keys, Failed: appErr != ""})
	f.mu.Unlock()
	if appErr != "" {
		ae := resp.Mutable(fld(resp, "application_error")).Message()
		ae.Set(fld(ae, "code"), protoreflect.ValueOfInt32(3)) // INTERNAL_ERROR
		ae.Set(fld(ae, "detail"), protoreflect.ValueOfString(appErr))
	} else {
		b, err := proto.MarshalOptions{AllowPartial: true}.Marshal(out)
		if err != nil {
			http.Error(w, err.Error(), 500)
			return
		}
		resp.Set(fld(resp, "response"), protoreflect.ValueOfBytes(b))
	}
	b, _ := proto.MarshalOptions{AllowPartial: true}.Marshal(resp.Interface())
	w.Header().Set("Content-Type", "application/octet-stream")
	w.Write(b)
}

func (f *FakeAE) dispatch(service, method, ticket string, payload []byte) (out proto.Message, kinds, keys []string, appErr string) {
	un := func(name string) protoreflect.Message {
		m := newMsg(name)
		(proto.UnmarshalOptions{AllowPartial: true}).Unmarshal(payload, m)
		return m.ProtoReflect()
	}
	failIf := func() bool {
		f.mu.Lock()
		fn := f.Fail
		f.mu.Unlock()
		return fn != nil && fn(service, method, kinds)
	}
	switch service + "." + method {
	case "datastore_v3.Put":
		in := un("appengine.PutRequest")
		ents := getList(in, "entity")
		var parsed []*aeEntity
		for i := 0; i < ents.Len(); i++ {
			e := parseEntity(ents.Get(i).Message())
			parsed = append(parsed, e)
			kinds = append(kinds, e.kind)
			keys = append(keys, e.key)
		}
		if failIf() {
			return nil, kinds, keys, "injected datastore failure"
		}
		f.mu.Lock()
		ph := f.PutHook
		f.mu.Unlock()
		if ph != nil {
			fail, delay := ph(keys)
			if delay > 0 {
				time.Sleep(delay)
			}
			if fail {
				return nil, kinds, keys, "injected datastore failure"
			}
		}
		res := newMsg("appengine.PutResponse").ProtoReflect()
		kl := res.Mutable(fld(res, "key")).List()
		f.mu.Lock()
		for i, e := range parsed {
			f.entities[e.key] = e
			kl.Append(protoreflect.ValueOfMessage(getMsg(ents.Get(i).Message(), "key")))
			if f.OnStore != nil {
				c, _ := e.props["Completed"].(bool)
				f.OnStore("put", e.kind, e.name, c, nil)
			}
		}
		f.mu.Unlock()
		return res.Interface(), kinds, keys, ""
	case "datastore_v3.Get":
		in := un("appengine.GetRequest")
		ks := getList(in, "key")
		res := newMsg("appengine.GetResponse").ProtoReflect()
		el := res.Mutable(fld(res, "entity")).List()
		for i := 0; i < ks.Len(); i++ {
			kind, name := keyOf(ks.Get(i).Message())
			kinds = append(kinds, kind)
			keys = append(keys, kind+"|"+name)
		}
		if failIf() {
			return nil, kinds, keys, "injected datastore failure"
		}
		f.mu.Lock()
		for i := 0; i < ks.Len(); i++ {
			ge := el.NewElement().Message()
			if e, ok := f.entities[keys[i]]; ok {
				ep := newMsg("appengine.EntityProto")
				(proto.UnmarshalOptions{AllowPartial: true}).Unmarshal(e.raw, ep)
				ge.Set(fld(ge, "entity"), protoreflect.ValueOfMessage(ep.ProtoReflect()))
			} else {
				ge.Set(fld(ge, "key"), protoreflect.ValueOfMessage(ks.Get(i).Message()))
			}
			el.Append(protoreflect.ValueOfMessage(ge))
		}
		f.mu.Unlock()
		res.Set(fld(res, "in_order"), protoreflect.ValueOfBool(true))
		return res.Interface(), kinds, keys, ""
	case "datastore_v3.Delete":
		in := un("appengine.DeleteRequest")
		ks := getList(in, "key")
		for i := 0; i < ks.Len(); i++ {
			kind, name := keyOf(ks.Get(i).Message())
			kinds = append(kinds, kind)
			keys = append(keys, kind+"|"+name)
		}
		if failIf() {
			return nil, kinds, keys, "injected datastore failure"
		}
		f.mu.Lock()
		for _, k := range keys {
			delete(f.entities, k)
		}
		f.mu.Unlock()
		return newMsg("appengine.DeleteResponse"), kinds, keys, ""
	case "datastore_v3.RunQuery":
		in := un("appengine.Query")
		kind := getStr(in, "kind")
		kinds = []string{kind}
		if failIf() {
			return nil, kinds, nil, "injected datastore failure"
		}
		type flt struct {
			op   int32
			name string
			val  interface{}
		}
		var flts []flt
		fl := getList(in, "filter")
		for i := 0; i < fl.Len(); i++ {
			fm := fl.Get(i).Message()
			ps := getList(fm, "property")
			if ps.Len() == 0 {
				continue
			}
			p := ps.Get(0).Message()
			flts = append(flts, flt{int32(fm.Get(fld(fm, "op")).Enum()), getStr(p, "name"), propValue(getMsg(p, "value"))})
		}
		keysOnly := has(in, "keys_only") && in.Get(fld(in, "keys_only")).Bool()
		limit := -1
		if has(in, "limit") {
			limit = int(in.Get(fld(in, "limit")).Int())
		}
		res := newMsg("appengine.QueryResult").ProtoReflect()
		rl := res.Mutable(fld(res, "result")).List()
		f.mu.Lock()
		var names []string
		for k, e := range f.entities {
			if e.kind == kind {
				names = append(names, k)
			}
		}
		sort.Strings(names)
		for _, k := range names {
			e := f.entities[k]
			ok := true
			for _, fl := range flts {
				if !matchFilter(e.props[fl.name], fl.op, fl.val) {
					ok = false
				}
			}
			if !ok {
				continue
			}
			if limit >= 0 && rl.Len() >= limit {
				break
			}
			ep := newMsg("appengine.EntityProto")
			(proto.UnmarshalOptions{AllowPartial: true}).Unmarshal(e.raw, ep)
			if keysOnly {
				m := ep.ProtoReflect()
				m.Clear(fld(m, "property"))
				m.Clear(fld(m, "raw_property"))
			}
			rl.Append(protoreflect.ValueOfMessage(ep.ProtoReflect()))
			keys = append(keys, k)
		}
		if f.OnStore != nil {
			var names []string
			for _, k := range keys {
				names = append(names, strings.SplitN(k, "|", 2)[1])
			}
			f.OnStore("query", kind, "", false, names)
		}
		f.mu.Unlock()
		res.Set(fld(res, "more_results"), protoreflect.ValueOfBool(false))
		res.Set(fld(res, "keys_only"), protoreflect.ValueOfBool(keysOnly))
		return res.Interface(), kinds, keys, ""
	case "datastore_v3.Next":
		res := newMsg("appengine.QueryResult").ProtoReflect()
		res.Set(fld(res, "more_results"), protoreflect.ValueOfBool(false))
		return res.Interface(), nil, nil, ""
	case "datastore_v3.BeginTransaction":
		in := un("appengine.BeginTransactionRequest")
		res := newMsg("appengine.Transaction").ProtoReflect()
		f.mu.Lock()
		f.txn++
		h := f.txn
		f.mu.Unlock()
		res.Set(fld(res, "handle"), protoreflect.ValueOfUint64(h))
		res.Set(fld(res, "app"), protoreflect.ValueOfString(getStr(in, "app")))
		return res.Interface(), nil, nil, ""
	case "datastore_v3.Commit":
		if failIf() {
			return nil, nil, nil, "injected datastore failure"
		}
		return newMsg("appengine.CommitResponse"), nil, nil, ""
	case "datastore_v3.Rollback":
		return newMsg("appengine.CommitResponse"), nil, nil, ""
	case "memcache.Get":
		in := un("appengine.MemcacheGetRequest")
		ks := getList(in, "key")
		res := newMsg("appengine.MemcacheGetResponse").ProtoReflect()
		il := res.Mutable(fld(res, "item")).List()
		if failIf() {
			return nil, []string{"memcache"}, nil, "injected memcache failure"
		}
		f.mu.Lock()
		for i := 0; i < ks.Len(); i++ {
			k := string(ks.Get(i).Bytes())
			keys = append(keys, "memcache|"+k)
			if v, ok := f.memcache[k]; ok {
				it := il.NewElement().Message()
				it.Set(fld(it, "key"), protoreflect.ValueOfBytes([]byte(k)))
				it.Set(fld(it, "value"), protoreflect.ValueOfBytes(v))
				il.Append(protoreflect.ValueOfMessage(it))
			}
		}
		f.mu.Unlock()
		return res.Interface(), []string{"memcache"}, keys, ""
	case "memcache.Set":
		in := un("appengine.MemcacheSetRequest")
		items := getList(in, "item")
		res := newMsg("appengine.MemcacheSetResponse").ProtoReflect()
		sl := res.Mutable(fld(res, "set_status")).List()
		if failIf() {
			return nil, []string{"memcache"}, nil, "injected memcache failure"
		}
		f.mu.Lock()
		for i := 0; i < items.Len(); i++ {
			it := items.Get(i).Message()
			k := string(it.Get(fld(it, "key")).Bytes())
			f.memcache[k] = append([]byte(nil), it.Get(fld(it, "value")).Bytes()...)
			keys = append(keys, "memcache|"+k)
			if f.OnStore != nil {
				f.OnStore("mcset", "memcache", k, false, nil)
			}
			sl.Append(protoreflect.ValueOfEnum(1)) // STORED
		}
		f.mu.Unlock()
		return res.Interface(), []string{"memcache"}, keys, ""
	case "user.GetOAuthUser":
		email, admin := "", false
		f.mu.Lock()
		fn := f.OAuth
		f.mu.Unlock()
		if fn != nil {
			email, admin = fn(ticket)
		}
		if email == "" {
			return nil, nil, nil, "OAUTH_INVALID_REQUEST"
		}
		res := newMsg("appengine.GetOAuthUserResponse").ProtoReflect()
		res.Set(fld(res, "email"), protoreflect.ValueOfString(email))
		res.Set(fld(res, "user_id"), protoreflect.ValueOfString("id-"+email))
		res.Set(fld(res, "auth_domain"), protoreflect.ValueOfString("example.com"))
		res.Set(fld(res, "is_admin"), protoreflect.ValueOfBool(admin))
		return res.Interface(), nil, nil, ""
	}
	return nil, nil, nil, "fake App Engine API: unsupported call " + service + "." + method
}

func matchFilter(have interface{}, op int32, want interface{}) bool {
	// Query.Filter.Operator: LESS_THAN=1, LESS_THAN_OR_EQUAL=2, GREATER_THAN=3, GREATER_THAN_OR_EQUAL=4, EQUAL=5
	switch w := want.(type) {
	case bool:
		h, ok := have.(bool)
		return ok && op == 5 && h == w
	case string:
		h, ok := have.(string)
		return ok && op == 5 && h == w
	case int64:
		h, ok := have.(int64)
		if !ok {
			return false
		}
		switch op {
		case 1:
			return h < w
		case 2:
			return h <= w
		case 3:
			return h > w
		case 4:
			return h >= w
		case 5:
			return h == w
		}
	}
	return false
}

// Entities returns the keys of all stored entities of a kind ("" = all).
func (f *FakeAE) Entities(kind string) []string {
	f.mu.Lock()
	defer f.mu.Unlock()
	var out []string
	for k, e := range f.entities {
		if kind == "" || e.kind == kind {
			out = append(out, k)
		}
	}
	sort.Strings(out)
	return out
}

// Prop returns a property of a stored entity.
func (f *FakeAE) Prop(key, name string) (interface{}, bool) {
	f.mu.Lock()
	defer f.mu.Unlock()
	e, ok := f.entities[key]
	if !ok {
		return nil, false
	}
	v, ok := e.props[name]
	return v, ok
}

// SetInt64Prop rewrites an int64 property (e.g. a time in microseconds) of a stored entity.
func (f *FakeAE) SetInt64Prop(key, name string, v int64) bool {
	f.mu.Lock()
	defer f.mu.Unlock()
	e, ok := f.entities[key]
	if !ok {
		return false
	}
	ep := newMsg("appengine.EntityProto")
	(proto.UnmarshalOptions{AllowPartial: true}).Unmarshal(e.raw, ep)
	m := ep.ProtoReflect()
	found := false
	for _, list := range []string{"property", "raw_property"} {
		l := m.Mutable(fld(m, list)).List()
		for i := 0; i < l.Len(); i++ {
			p := l.Get(i).Message()
			if getStr(p, "name") == name {
				pv := p.Mutable(fld(p, "value")).Message()
				pv.Set(fld(pv, "int64Value"), protoreflect.ValueOfInt64(v))
				found = true
			}
		}
	}
	if !found {
		return false
	}
	e.raw, _ = proto.MarshalOptions{AllowPartial: true}.Marshal(ep)
	e.props[name] = v
	return true
}

// Snapshot returns a digest of the whole store (entity keys with the length of their encoding) and
// of memcache, for before/after comparisons.
func (f *FakeAE) Snapshot() string {
	f.mu.Lock()
	defer f.mu.Unlock()
	var parts []string
	for k, e := range f.entities {
		if e.kind == "backendTracker" || e.kind == "activityTracker" {
			continue // trackers are touched by legitimate polls
		}
		parts = append(parts, fmt.Sprintf("%s:%d", k, len(e.raw)))
	}
	for k, v := range f.memcache {
		parts = append(parts, fmt.Sprintf("mc:%s:%d", k, len(v)))
	}
	sort.Strings(parts)
	return strings.Join(parts, ";")
}

// CallsSince returns the calls recorded from index i on.
func (f *FakeAE) CallsSince(i int) []APICall {
	f.mu.Lock()
	defer f.mu.Unlock()
	if i > len(f.Calls) {
		i = len(f.Calls)
	}
	return append([]APICall(nil), f.Calls[i:]...)
}

// NCalls returns the number of calls recorded.
func (f *FakeAE) NCalls() int {
	f.mu.Lock()
	defer f.mu.Unlock()
	return len(f.Calls)
}
