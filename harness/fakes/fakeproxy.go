// Package fakes contains the harness-side stand-ins for the parts of the system a driver wants to
// script: a fake inverting proxy (controls list replies, fetch replies and upload handling).
package fakes

import (
	"bufio"
	"bytes"
	"encoding/json"
	"io"
	"net"
	"net/http"
	"strings"
	"sync"
	"sync/atomic"
	"time"
)

const (
	hdrBackendID = "X-Inverting-Proxy-Backend-ID"
	hdrRequestID = "X-Inverting-Proxy-Request-ID"
	hdrUserID    = "X-Inverting-Proxy-User-ID"
	hdrStartTime = "X-Inverting-Proxy-Request-Start-Time"
)

// Upload is one response upload attempt as the fake proxy saw it.
type Upload struct {
	ID      string
	Raw     []byte
	Resp    *http.Response
	Body    []byte
	Err     error
	Arrived time.Time
}

// FakeProxy scripts the proxy side of the agent protocol.
type FakeProxy struct {
	Ln  net.Listener
	Srv *http.Server

	// List answers a pending-list call; the default blocks until a batch is pushed with Push
	// (or the request is cancelled) and replies with it.
	List func(w http.ResponseWriter, r *http.Request)
	// Fetch returns the serialised client request for an ID, the asserted user and the status.
	Fetch func(id string) (raw []byte, user string, status int)
	// Post handles an upload; the default reads and parses the body and records it.
	Post func(w http.ResponseWriter, r *http.Request, id string)
	// OnUpload is called by the default Post handler for every completely received upload.
	OnUpload func(u *Upload)
	// OnList is called by the default List handler right before it replies.
	OnList func(ids []string)

	batches chan []string
	listN   int // list replies so far (their framing rotates)
	failN   int // failed list calls so far (their kind rotates)
	parked  int32 // list calls waiting for a batch right now
	// FailKinds: the ways a list call fails, in rotation (default 503 / close / 500-body).  net/http re-sends a GET
	// whose kept-alive connection was closed under it, so "close" is not always a failure the agent gets to see
	FailKinds []string
	// OnListArrive is called when a list call reaches the proxy (before it is answered)
	OnListArrive func()
	// OnListFail is called when a list call is about to fail (batch "!fail" pushed by the driver)
	OnListFail func(kind string)

	mu      sync.Mutex
	Uploads []*Upload
	Lists   []time.Time
}

// NewFakeProxy starts a fake proxy on an ephemeral port.
func NewFakeProxy() *FakeProxy {
	p := &FakeProxy{batches: make(chan []string, 100000)}
	ln, err := net.Listen("tcp", "127.0.0.1:0")
	if err != nil {
		panic(err)
	}
	p.Ln = ln
	p.Srv = &http.Server{Handler: http.HandlerFunc(p.serve)}
	go p.Srv.Serve(ln)
	return p
}

// URL is the --proxy flag value for the agent.
func (p *FakeProxy) URL() string { return "http://" + p.Ln.Addr().String() + "/" }

// Addr is host:port.
func (p *FakeProxy) Addr() string { return p.Ln.Addr().String() }

// Close stops the server.
func (p *FakeProxy) Close() { p.Srv.Close() }

// ListCount returns the number of list calls received so far.
func (p *FakeProxy) ListCount() int {
	p.mu.Lock()
	defer p.mu.Unlock()
	return len(p.Lists)
}

// Push queues a list reply.
func (p *FakeProxy) Push(ids []string) { p.batches <- ids }

func (p *FakeProxy) serve(w http.ResponseWriter, r *http.Request) {
	id := r.Header.Get(hdrRequestID)
	switch {
	case id == "":
		p.mu.Lock()
		p.Lists = append(p.Lists, time.Now())
		p.mu.Unlock()
		if p.List != nil {
			p.List(w, r)
			return
		}
		if p.OnListArrive != nil {
			p.OnListArrive()
		}
		atomic.AddInt32(&p.parked, 1)
		defer atomic.AddInt32(&p.parked, -1)
		select {
		case ids := <-p.batches:
			if len(ids) == 1 && strings.HasPrefix(ids[0], "!fail") {
				// a list call that fails: 503, or the connection closed without an answer
				p.mu.Lock()
				p.failN++
				kinds := p.FailKinds
				if len(kinds) == 0 {
					kinds = []string{"503", "close", "500-body"}
				}
				kind := kinds[p.failN%len(kinds)]
				p.mu.Unlock()
				if p.OnListFail != nil {
					p.OnListFail(kind)
				}
				switch kind {
				case "close":
					if hj, ok := w.(http.Hijacker); ok {
						if c, _, err := hj.Hijack(); err == nil {
							c.Close()
							return
						}
					}
					w.WriteHeader(502)
				case "500-body":
					w.WriteHeader(500)
					w.Write([]byte(`["not-a-list"]`))
				default:
					w.WriteHeader(503)
				}
				return
			}
			if p.OnList != nil {
				p.OnList(ids)
			}
			b, _ := json.Marshal(ids)
			// the reply in the framings a proxy (or something in front of it) may choose: with Content-Length,
			// chunked in one piece, chunked in two pieces, and with a little legal JSON whitespace
			p.mu.Lock()
			p.listN++
			form := p.listN % 4
			p.mu.Unlock()
			w.WriteHeader(200)
			switch form {
			case 1:
				w.Write(b)
				w.(http.Flusher).Flush() // flushing before the handler returns: no Content-Length, chunked
			case 2:
				w.Write(b[:len(b)/2])
				w.(http.Flusher).Flush()
				w.Write(b[len(b)/2:])
			case 3:
				w.Write(append(append([]byte(" \n"), bytes.ReplaceAll(b, []byte(","), []byte(" ,\n "))...), '\n'))
			default:
				w.Write(b)
			}
		case <-r.Context().Done():
		case <-time.After(25 * time.Second):
			w.WriteHeader(200)
			w.Write([]byte("[]"))
		}
	case r.Method == http.MethodPost:
		if p.Post != nil {
			p.Post(w, r, id)
			return
		}
		u := p.ReadUpload(r, id)
		if p.OnUpload != nil {
			p.OnUpload(u)
		}
		w.WriteHeader(200)
	default:
		raw, user, status := []byte("GET / HTTP/1.1\r\nHost: fake\r\n\r\n"), "", 200
		if p.Fetch != nil {
			raw, user, status = p.Fetch(id)
		}
		if user != "" {
			w.Header().Set(hdrUserID, user)
		}
		w.Header().Set(hdrStartTime, time.Now().Format(time.RFC3339Nano))
		w.Header().Set(hdrRequestID, id)
		w.WriteHeader(status)
		w.Write(raw)
	}
}

// WaitNoParked waits until no list call is waiting for a batch any more (after the agent that made it was killed: its
// connection is gone, the handler notices and leaves).  A batch pushed while such a handler is still there could be
// handed to it - written to a dead connection and lost.
func (p *FakeProxy) WaitNoParked(d time.Duration) bool {
	deadline := time.Now().Add(d)
	for time.Now().Before(deadline) {
		if atomic.LoadInt32(&p.parked) == 0 {
			return true
		}
		time.Sleep(2 * time.Millisecond)
	}
	return false
}

// ReadUpload reads an upload body to its end, parses it as an HTTP response and records it.
func (p *FakeProxy) ReadUpload(r *http.Request, id string) *Upload {
	u := &Upload{ID: id, Arrived: time.Now()}
	raw, err := io.ReadAll(r.Body)
	u.Raw = raw
	if err != nil {
		u.Err = err
	} else {
		resp, err := http.ReadResponse(bufio.NewReader(bytes.NewReader(raw)), nil)
		if err != nil {
			u.Err = err
		} else {
			u.Resp = resp
			u.Body, u.Err = io.ReadAll(resp.Body)
		}
	}
	p.mu.Lock()
	p.Uploads = append(p.Uploads, u)
	p.mu.Unlock()
	return u
}
