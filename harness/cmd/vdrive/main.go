// Command vdrive runs the conformance drivers: it exercises the real code built from the
// repository's working tree and records an NDJSON trace for TLC to validate.
package main

import (
	"flag"
	"fmt"
	"os"

	"verifharness/drv"
	"verifharness/hx"
)

func main() {
	out := flag.String("out", "result.json", "result file")
	cases := flag.String("cases", "", "TLC-generated cases / schedules (JSON)")
	mode := flag.String("mode", "", "driver specific mode")
	flag.Parse()
	if flag.NArg() < 1 {
		fmt.Fprintln(os.Stderr, "usage: vdrive [flags] <driver>")
		os.Exit(2)
	}
	name := flag.Arg(0)
	d, ok := drv.Drivers[name]
	if !ok {
		fmt.Fprintf(os.Stderr, "unknown driver %q\n", name)
		os.Exit(2)
	}
	res := hx.NewResult()
	d(&drv.Args{Cases: *cases, Mode: *mode, Res: res})
	res.Write(*out)
}
