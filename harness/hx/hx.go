// Package hx holds the shared pieces of the conformance harness: trace emission, process control,
// fake metadata server, seeded randomness and result files.
package hx

import (
	"bufio"
	"bytes"
	"context"
	"crypto/sha256"
	"encoding/hex"
	"encoding/json"
	"fmt"
	"io"
	"math/rand"
	"net"
	"net/http"
	"net/http/httptest"
	"os"
	"os/exec"
	"path/filepath"
	"regexp"
	"strconv"
	"strings"
	"sync"
	"syscall"
	"time"

	"github.com/google/inverting-proxy/verifhook"
)

// Emit writes one harness-side observable event into the shared trace.
func Emit(ev string, kv ...interface{}) { verifhook.Emit(ev, kv...) }

// Reset starts a new trace segment.
func Reset(seg, sig string, kv ...interface{}) {
	args := append([]interface{}{"seg", seg, "sig", sig}, kv...)
	verifhook.Emit("Reset", args...)
}

// Seed returns the run's seed (VERIF_SEED, default 1).
func Seed() int64 {
	if s := os.Getenv("VERIF_SEED"); s != "" {
		if v, err := strconv.ParseInt(s, 10, 64); err == nil {
			return v
		}
	}
	return 1
}

// Tier returns quick or thorough.
func Tier() string {
	if t := os.Getenv("VERIF_TIER"); t != "" {
		return t
	}
	return "quick"
}

// Thorough reports whether the thorough tier was requested.
func Thorough() bool { return Tier() == "thorough" }

// Rand returns a deterministic generator for the given purpose.
func Rand(purpose string) *rand.Rand {
	h := sha256.Sum256([]byte(fmt.Sprintf("%d/%s", Seed(), purpose)))
	var s int64
	for i := 0; i < 8; i++ {
		s = s<<8 | int64(h[i])
	}
	return rand.New(rand.NewSource(s))
}

// Hash returns a short hex digest.
func Hash(b []byte) string {
	h := sha256.Sum256(b)
	return hex.EncodeToString(h[:8])
}

// Bin returns the path of a binary built by the orchestrator.
func Bin(name string) string { return filepath.Join(os.Getenv("VERIF_BIN"), name) }

// Scratch returns a fresh scratch directory below the run's scratch area.
func Scratch(name string) string {
	base := os.Getenv("VERIF_SCRATCH")
	if base == "" {
		base = os.TempDir()
	}
	d, err := os.MkdirTemp(base, name+"-")
	if err != nil {
		panic(err)
	}
	return d
}

// Result is what a driver reports next to the trace.
type Result struct {
	mu           sync.Mutex
	Evaluations  int                    `json:"evaluations"`
	Distinct     map[string]bool        `json:"-"`
	DistinctKeys []string               `json:"distinct"`
	Samples      []interface{}          `json:"samples"`
	Notes        []string               `json:"notes"`
	Inconclusive []string               `json:"inconclusive"`
	Extra        map[string]interface{} `json:"extra"`
}

// NewResult makes an empty result.
func NewResult() *Result {
	return &Result{Distinct: map[string]bool{}, Extra: map[string]interface{}{}}
}

// Case counts one evaluated case; key identifies distinct non-trivial cases ("" = trivial).
func (r *Result) Case(key string, sample interface{}) {
	r.mu.Lock()
	defer r.mu.Unlock()
	r.Evaluations++
	if key != "" {
		if !r.Distinct[key] && len(r.Samples) < 6 && sample != nil {
			r.Samples = append(r.Samples, sample)
		}
		r.Distinct[key] = true
	}
}

// Note adds a free-text note.
func (r *Result) Note(format string, a ...interface{}) {
	r.mu.Lock()
	defer r.mu.Unlock()
	r.Notes = append(r.Notes, fmt.Sprintf(format, a...))
}

// Bad marks the run inconclusive (harness problem, never a violation).
func (r *Result) Bad(format string, a ...interface{}) {
	r.mu.Lock()
	defer r.mu.Unlock()
	r.Inconclusive = append(r.Inconclusive, fmt.Sprintf(format, a...))
}

// Write stores the result file.
func (r *Result) Write(path string) {
	r.mu.Lock()
	defer r.mu.Unlock()
	for k := range r.Distinct {
		r.DistinctKeys = append(r.DistinctKeys, k)
	}
	b, _ := json.MarshalIndent(r, "", " ")
	if err := os.WriteFile(path, b, 0644); err != nil {
		panic(err)
	}
}

// ------------------------------------------------------------------------------------------
// processes
// ------------------------------------------------------------------------------------------

// Proc is a child process whose combined output is captured.
type Proc struct {
	Name string
	Cmd  *exec.Cmd
	mu   sync.Mutex
	out  bytes.Buffer
	done chan struct{}
	err  error
}

type lockedWriter struct{ p *Proc }

func (w lockedWriter) Write(b []byte) (int, error) {
	w.p.mu.Lock()
	defer w.p.mu.Unlock()
	return w.p.out.Write(b)
}

// Start launches a binary with the given extra environment. src names the process in the trace.
func Start(name, bin string, args []string, env []string) (*Proc, error) {
	p := &Proc{Name: name, done: make(chan struct{})}
	p.Cmd = exec.Command(bin, args...)
	p.Cmd.Env = append(append(os.Environ(), "VERIF_SRC="+name), env...)
	p.Cmd.Stdout = lockedWriter{p}
	p.Cmd.Stderr = lockedWriter{p}
	p.Cmd.SysProcAttr = &syscall.SysProcAttr{Setpgid: true}
	if err := p.Cmd.Start(); err != nil {
		return nil, err
	}
	go func() {
		p.err = p.Cmd.Wait()
		close(p.done)
	}()
	return p, nil
}

// Output returns what the process has printed so far.
func (p *Proc) Output() string {
	p.mu.Lock()
	defer p.mu.Unlock()
	return p.out.String()
}

// Exited reports whether the process has terminated, and its exit code.
func (p *Proc) Exited() (bool, int) {
	select {
	case <-p.done:
		if p.Cmd.ProcessState != nil {
			return true, p.Cmd.ProcessState.ExitCode()
		}
		return true, -1
	default:
		return false, 0
	}
}

// Done is closed when the process has exited.
func (p *Proc) Done() <-chan struct{} { return p.done }

// Signal sends a signal to the process.
func (p *Proc) Signal(s syscall.Signal) { p.Cmd.Process.Signal(s) }

// Kill terminates the process group.
func (p *Proc) Kill() {
	if os.Getenv("VERIF_COVERDIR") != "" && p.Cmd != nil && p.Cmd.Process != nil {
		// coverage survey: let the process write its counters first (verifhook, SIGUSR1)
		p.Cmd.Process.Signal(syscall.SIGUSR1)
		time.Sleep(150 * time.Millisecond)
	}
	if p == nil || p.Cmd == nil || p.Cmd.Process == nil {
		return
	}
	syscall.Kill(-p.Cmd.Process.Pid, syscall.SIGKILL)
	select {
	case <-p.done:
	case <-time.After(3 * time.Second):
	}
}

// WaitFor waits until the output matches the regexp and returns the first submatch.
func (p *Proc) WaitFor(re string, timeout time.Duration) (string, error) {
	rx := regexp.MustCompile(re)
	deadline := time.Now().Add(timeout)
	for time.Now().Before(deadline) {
		if m := rx.FindStringSubmatch(p.Output()); m != nil {
			if len(m) > 1 {
				return m[1], nil
			}
			return m[0], nil
		}
		if ex, code := p.Exited(); ex {
			return "", fmt.Errorf("%s exited with %d before %q appeared: %s", p.Name, code, re, tail(p.Output(), 800))
		}
		time.Sleep(5 * time.Millisecond)
	}
	return "", fmt.Errorf("%s: timeout waiting for %q: %s", p.Name, re, tail(p.Output(), 800))
}

func tail(s string, n int) string {
	if len(s) > n {
		return s[len(s)-n:]
	}
	return s
}

// Tail returns the last n bytes of s.
func Tail(s string, n int) string { return tail(s, n) }

// RaceReport extracts a race-detector or fatal runtime report from process output, and whether
// both stacks are in repository code.
func RaceReport(out string) (kind string, inRepo bool, excerpt string) {
	idx := strings.Index(out, "WARNING: DATA RACE")
	kind = "race"
	if idx < 0 {
		idx = strings.Index(out, "fatal error:")
		kind = "fatal"
	}
	if idx < 0 {
		idx = strings.Index(out, "panic:")
		kind = "panic"
	}
	if idx < 0 {
		return "", false, ""
	}
	ex := out[idx:]
	if len(ex) > 4000 {
		ex = ex[:4000]
	}
	inRepo = strings.Contains(ex, "github.com/google/inverting-proxy/") || strings.Contains(ex, "/server/server.go") || strings.Contains(ex, "/agent/agent.go") || strings.Contains(ex, "main.")
	return kind, inRepo, ex
}

// StartProxy starts the stand-alone proxy binary and returns its port.
func StartProxy(bin string, env []string) (*Proc, int, error) {
	p, err := Start("proxy", bin, []string{"--port=0"}, env)
	if err != nil {
		return nil, 0, err
	}
	ps, err := p.WaitFor(`Listening on \[::\]:(\d+)`, 20*time.Second)
	if err != nil {
		p.Kill()
		return nil, 0, err
	}
	port, _ := strconv.Atoi(ps)
	return p, port, nil
}

// Metadata is the fake GCE metadata server the agent needs to obtain a token.
type Metadata struct {
	Srv  *httptest.Server
	Home string
}

// StartMetadata starts the fake metadata server and prepares an empty gcloud home.
func StartMetadata() *Metadata {
	srv := httptest.NewServer(http.HandlerFunc(func(w http.ResponseWriter, r *http.Request) {
		if strings.HasPrefix(r.URL.Path, "/computeMetadata/v1/project/project-id") {
			io.WriteString(w, "12345")
			return
		}
		if !(strings.HasPrefix(r.URL.Path, "/computeMetadata/v1/instance/service-accounts/") && strings.HasSuffix(r.URL.Path, "/token")) {
			io.WriteString(w, "ok")
			return
		}
		json.NewEncoder(w).Encode(map[string]interface{}{"access_token": "fakeToken", "expires_in": 100000, "token_type": "Bearer"})
	}))
	home := Scratch("home")
	os.MkdirAll(filepath.Join(home, ".config", "gcloud"), 0755)
	return &Metadata{Srv: srv, Home: home}
}

// Env returns the environment the agent must run with.
func (m *Metadata) Env() []string {
	return []string{"PATH=", "HOME=" + m.Home, "GCE_METADATA_HOST=" + strings.TrimPrefix(m.Srv.URL, "http://")}
}

// Close stops the server and removes the home directory.
func (m *Metadata) Close() {
	m.Srv.Close()
	os.RemoveAll(m.Home)
}

// StartAgent starts the agent binary against the given proxy URL and backend host.
func StartAgent(bin string, md *Metadata, proxyURL, backendHost, backendID string, extraArgs []string, env []string) (*Proc, error) {
	args := append([]string{"--backend=" + backendID, "--proxy=" + proxyURL, "--host=" + backendHost, "--disable-gce-vm-header"}, extraArgs...)
	return Start("agent", bin, args, append(md.Env(), env...))
}

// AgentConfig is one configuration of the agent as classes of spec/AgentConfig.tla (flag name -> class).
type AgentConfig map[string]string

// Name is a short stable label ("default" or the non-default classes).
func (c AgentConfig) Name() string {
	var parts []string
	for _, f := range []string{"timeout", "shim", "banner", "sessions", "health", "debug", "grace", "vmid", "ids"} {
		if v, ok := c[f]; ok && v != map[string]string{"timeout": "default"}[f] && v != "off" && v != "" {
			parts = append(parts, f+"="+v)
		}
	}
	if len(parts) == 0 {
		return "default"
	}
	return strings.Join(parts, ",")
}

// Args turns the classes into the agent's documented command-line flags; vmid tells whether the agent adds its
// GCE VM identity header (i.e. --disable-gce-vm-header must be left out).
func (c AgentConfig) Args() (args []string, vmid bool) {
	switch c["timeout"] {
	case "none":
		args = append(args, "--proxy-timeout=0")
	case "long":
		args = append(args, "--proxy-timeout=5m")
	case "1s":
		args = append(args, "--proxy-timeout=1s")
	}
	switch c["shim"] {
	case "path-only":
		args = append(args, "--shim-path=/__shim")
	case "on":
		args = append(args, "--shim-websockets", "--shim-path=/__shim")
	case "on-opts":
		args = append(args, "--shim-websockets", "--shim-path=/__shim", "--rewrite-websocket-host", "--enable-websockets-injection")
	}
	switch c["banner"] {
	case "on":
		args = append(args, "--inject-banner=<b>B</b>")
	case "favicon":
		args = append(args, "--inject-banner=<b>B</b>", "--favicon-url=static/f.png", "--banner-height=10%")
	}
	switch c["sessions"] {
	case "on":
		args = append(args, "--session-cookie-name=vsid")
	case "small":
		args = append(args, "--session-cookie-name=vsid", "--session-cookie-cache-limit=5")
	}
	if c["health"] == "on" {
		args = append(args, "--health-check-interval-seconds=1", "--health-check-unhealthy-threshold=3")
	}
	if c["debug"] == "on" {
		args = append(args, "--debug")
	}
	if c["grace"] == "on" {
		args = append(args, "--graceful-shutdown-timeout=2s")
	}
	switch c["ids"] {
	case "fwd":
		args = append(args, "--forward-user-id")
	case "strip":
		args = append(args, "--strip-credentials")
	case "both":
		args = append(args, "--forward-user-id", "--strip-credentials")
	}
	return args, c["vmid"] == "on"
}

// AgentConfigs reads the configurations chosen for this run (file named by VERIF_AGENT_CONFIGS, written by the
// orchestrator from TLC's enumeration); without it there is only the default configuration.
func AgentConfigs() []AgentConfig {
	out := []AgentConfig{{}}
	p := os.Getenv("VERIF_AGENT_CONFIGS")
	if p == "" {
		return out
	}
	b, err := os.ReadFile(p)
	if err != nil {
		return out
	}
	var cs []AgentConfig
	if json.Unmarshal(b, &cs) != nil || len(cs) == 0 {
		return out
	}
	return cs
}

// StartAgentCfg is StartAgent under a configuration of spec/AgentConfig.tla.
func StartAgentCfg(bin string, md *Metadata, proxyURL, backendHost, backendID string, cfg AgentConfig, extraArgs []string, env []string) (*Proc, error) {
	cargs, vmid := cfg.Args()
	args := []string{"--backend=" + backendID, "--proxy=" + proxyURL, "--host=" + backendHost}
	if !vmid {
		args = append(args, "--disable-gce-vm-header")
	}
	args = append(append(args, cargs...), extraArgs...)
	return Start("agent", bin, args, append(md.Env(), env...))
}

// FreePort returns a currently unused TCP port.
func FreePort() int {
	l, err := net.Listen("tcp", "127.0.0.1:0")
	if err != nil {
		panic(err)
	}
	defer l.Close()
	return l.Addr().(*net.TCPAddr).Port
}

// ------------------------------------------------------------------------------------------
// raw HTTP/1.1 client
// ------------------------------------------------------------------------------------------

// RawResponse is a response parsed by net/http from raw bytes, with everything read.
type RawResponse struct {
	Status   int
	Header   http.Header
	Body     []byte
	Trailer  http.Header
	Raw      []byte
	Err      error
	TimedOut bool
}

// RawRoundTrip sends raw request bytes over a fresh TCP connection and reads one response.
func RawRoundTrip(addr string, raw []byte, method string, timeout time.Duration) *RawResponse {
	res := &RawResponse{}
	conn, err := net.DialTimeout("tcp", addr, 5*time.Second)
	if err != nil {
		res.Err = err
		return res
	}
	defer conn.Close()
	conn.SetDeadline(time.Now().Add(timeout))
	if _, err := conn.Write(raw); err != nil {
		res.Err = err
		return res
	}
	var captured bytes.Buffer
	br := bufio.NewReader(io.TeeReader(conn, &captured))
	req, _ := http.NewRequest(method, "http://"+addr+"/", nil)
	resp, err := http.ReadResponse(br, req)
	if err != nil {
		res.Err = err
		if ne, ok := err.(net.Error); ok && ne.Timeout() {
			res.TimedOut = true
		}
		res.Raw = captured.Bytes()
		return res
	}
	res.Status = resp.StatusCode
	res.Header = resp.Header
	body, err := io.ReadAll(resp.Body)
	res.Body = body
	if err != nil {
		res.Err = err
		if ne, ok := err.(net.Error); ok && ne.Timeout() {
			res.TimedOut = true
		}
	}
	res.Trailer = resp.Trailer
	res.Raw = captured.Bytes()
	return res
}

// ------------------------------------------------------------------------------------------
// per-scenario tracers (for scenarios that run in parallel, each with its own agent process)
// ------------------------------------------------------------------------------------------

// Tracer appends events to its own NDJSON file; processes started for the scenario get the same
// file through VERIF_TRACE, so the file is the scenario's totally ordered trace.
type Tracer struct {
	Path string
	mu   sync.Mutex
	f    *os.File
	seq  int
}

// NewTracer creates a scenario trace file.
func NewTracer(name string) *Tracer {
	dir := Scratch("trace")
	p := filepath.Join(dir, name+".ndjson")
	f, err := os.OpenFile(p, os.O_APPEND|os.O_CREATE|os.O_WRONLY, 0644)
	if err != nil {
		panic(err)
	}
	return &Tracer{Path: p, f: f}
}

// Emit appends one event.
func (t *Tracer) Emit(ev string, kv ...interface{}) {
	t.mu.Lock()
	defer t.mu.Unlock()
	t.seq++
	rec := map[string]interface{}{"ev": ev, "seq": t.seq, "src": "harness"}
	for i := 0; i+1 < len(kv); i += 2 {
		rec[kv[i].(string)] = kv[i+1]
	}
	b, _ := json.Marshal(rec)
	t.f.Write(append(b, '\n'))
}

// Env is the environment that makes a child process trace into this file.
func (t *Tracer) Env() []string { return []string{"VERIF_TRACE=" + t.Path} }

// MergeInto appends the scenario trace to the run's main trace (VERIF_TRACE of the driver).
func (t *Tracer) MergeInto() {
	t.mu.Lock()
	defer t.mu.Unlock()
	t.f.Close()
	b, err := os.ReadFile(t.Path)
	if err != nil {
		return
	}
	main := os.Getenv("VERIF_TRACE")
	if main == "" {
		return
	}
	f, err := os.OpenFile(main, os.O_APPEND|os.O_CREATE|os.O_WRONLY, 0644)
	if err != nil {
		return
	}
	mergeMu.Lock()
	f.Write(b)
	mergeMu.Unlock()
	f.Close()
	os.RemoveAll(filepath.Dir(t.Path))
}

var mergeMu sync.Mutex

// ChildResult is the outcome of one scenario child of RunChildren.
type ChildResult struct {
	Name string
	Out  string
	Err  error
}

// RunChildren runs `vdrive -mode <mode> <driver>` once per name, all of them at the same time (scenarios that
// consist mostly of waiting: pauses beyond common time-outs).  Each child gets VERIF_CHILD=<name> and traces
// into its own file - hook events of the code under test included - which is appended to the main trace when
// all children are done, so every child's segments stay contiguous.
func RunChildren(driver, mode string, names []string, env []string, timeout time.Duration) []ChildResult {
	out := make([]ChildResult, len(names))
	trs := make([]*Tracer, len(names))
	var wg sync.WaitGroup
	for i, name := range names {
		trs[i] = NewTracer(fmt.Sprintf("child-%s-%s-%d", driver, mode, i))
		wg.Add(1)
		go func(i int, name string) {
			defer wg.Done()
			ctx, cancel := context.WithTimeout(context.Background(), timeout)
			defer cancel()
			cmd := exec.CommandContext(ctx, Bin("vdrive"), "-mode", mode, "-out", os.DevNull, driver)
			cmd.Env = append(append(os.Environ(), env...), "VERIF_CHILD="+name)
			cmd.Env = append(cmd.Env, trs[i].Env()...)
			b, err := cmd.CombinedOutput()
			out[i] = ChildResult{Name: name, Out: string(b), Err: err}
		}(i, name)
	}
	wg.Wait()
	for _, t := range trs {
		t.MergeInto()
	}
	return out
}

// Child is the scenario name a child of RunChildren was started for.
func Child() string { return os.Getenv("VERIF_CHILD") }
